"""C05 bounded stand-in: lazy and eager reading are observationally equivalent.

The property is differential, so the oracle is the property statement itself: the SAME program (a short sequence
of public operations) is run in lock-step on `bnp.open(p, lazy=True)` and on `bnp.open(p, lazy=False)` of the same
well-formed file; after every step the two results must be equal (values normalised to plain Python row values;
written bytes compared byte by byte, compressed outputs after decompression) or the step must fail in both.  The
eager table is the ordinary parsed BNPDataClass, the reference the statement names; nothing else is assumed.

Scope: small files (file A 3 records, file B 2 records, unequal widths; written by this file from the format
specifications, BAM by rtc/refmodels/bam_writer.py, values in the canonical form of the library's writer) of the
formats that read lazily: bed, bed6, bed12, bedGraph, narrowPeak, chrom.sizes, pairs, gfa, wig (internal comment
lines), csv with a header line (generic delimited reader), FASTQ, two-line FASTA, VCF (typed INFO), VCF without
header (INFO as text), SAM, BAM, bed.gz; whole read (t = file A, u = file B, two readers) and chunked read
(t = first chunk, u = last chunk of one reader over A+B).
Programs: every sequence of the stated lengths over {len, get f, t[slice], t[mask], t[int list], t[i],
concatenate([t,u]) / ([u,t]) / ([t,t]) / ([t,u,t]), swap t<->u, replace(t, f=array), replace(t, f=t.f+1),
t.f = array, tolist, iter, str, write}; after the last step a full observation (len, every field in declaration
order, tolist, written bytes) is compared as well.  Longer programs are sampled with col.rng.

Retained intermediate tables.  The programs above are linear (every op is applied to the current table, only the
final table is observed).  A public op that derives a NEW table (replace, indexing, concatenate) must also leave the
OLD one equal to its eager counterpart, so a second family keeps references: ["keep"] retains the current table,
["swapk"] goes on with the table retained last (and retains the derived one instead); after the last op every
retained table that is no longer the current one gets the full observation too (len, every field, tolist, written
bytes; lazy == eager or both fail - the same oracle).  Enumerated (run_retained / plan_retained): per ordered pair
(f1, f2) of replaceable fields - every ordered pair for some formats, the representatives of the field kinds or one
representative pair for the others - t1 made by replace(f1) / t.f1 = v (with fields parsed before / after, after
tolist, after write), retained, then replace(f2) / replace(f1) again / t1[slice | mask | int list] /
concatenate([t1, t1]) / write(t1[1:]) followed by assignments to the new or (swapk) to the old table; chains of
three replaces with different fields with every link retained; sampled longer programs with keeps (thorough).
A divergence of a retained table that the table's own history (the ops applied to that object itself, as a linear
program) shows as well is left to that linear program; the others get <place> = retained:observe / retained:write.

Second file of the same format (run_second).  What the lazy class remembers of a file (its header: the header
context of the table and the header bytes of a write) must be that of the table's OWN file whatever was read before
in the same process.  Header-bearing file pairs "<format>+hdr" (bed, bed6, bed12, bedGraph, narrowPeak, chrom.sizes,
pairs, gfa, wig, VCF with and without ##INFO lines, SAM, BAM, bed.gz): the records of file A / file B as above, but
the two files start with DIFFERENT header / leading comment lines (other text, other number of lines; BAM: other
header text and reference list).  Read modes: seq:<how1>><how2>:<AB|BA> - the first file is read with how1, then
the second one with how2 in the same process (how = read | one read_chunk | all read_chunks); t = the table of the
file read second, u = that of the file read first (so [swap] observes the first table after the second read);
inter:<AB|BA> - two readers open, chunks read alternately; whole and chunk:<n> as above.  The same lock-step
lazy/eager oracle over the operations of the statement; the header is observed through the WRITTEN BYTES only
(get_context is not an operation of the property).  Programs: every program of at most one op (two ops for four
formats, thorough) over {write, get, tolist, t[slice], t[mask], t[int list], t[:], swap, concatenate tu/ut/tt,
replace, t.f = v}, followed by the full observation.
Signatures of this family carry the plain format name; a divergence that the plain file pair (read as a whole)
does not show for the same program gets the marker ":header-files-only" after the program shape.  Where the
source file of the table is known (only unary ops since it was read) the signature of a difference in written bytes
says whether the LAZY table writes a header that is not the header of its own file (reference: the leading lines /
BAM header this file wrote): ...:lazy-header-not-of-its-file (written header lines, and - refining the divergence
"only the eager write fails" - the header the lazy write emitted).

Formats the lazy/eager decision keeps eager (run_decision).  bnp.open(p) / bnp.open(p, lazy=True) give a lazy table
only where NpDataclassReader._should_be_lazy (an anchor of the property) says so; GTF, GFF / GFF3 and multi-line FASTA
are read eagerly whatever was asked for, because their buffers cannot serve the lazy class.  The default read and
the lazy=True read of these formats must be indistinguishable from the lazy=False read as well, so they are in scope:
gff (.gff), gff3 (.gff3: "##gff-version 3" pragma and "###" lines between the records), gtf (.gtf), fasta (.fa,
sequences broken into lines of 4), fasta80 (.fasta, lines of 80), file A 4 records, file B 2; gff+hdr / gtf+hdr
(different leading comment lines) for the second-file programs.  The same lock-step oracle and the same program
families (every program of length 0-1 over the wide alphabet, length 2 / the 4-op pair family over the mini one,
retained-table programs, second-file programs, sampled longer programs; whole and chunked read).  Where both reads
are eager the programs are trivially equivalent; a change of the decision that makes one of these formats lazy
although its buffer does not support it (e.g. a selection of a GFF table that writes all rows) is a divergence.

Read / write / read on a row selection (run_rwr).  s = t[slice | mask | int list]; read field A of s; write s; read
field B of s and of t.  The write may re-lay (compact) the raw buffer of the lazy table; what the first read
memoised must not be used for the old layout afterwards.  For EVERY format above, every field A: [keep, t[X], get A,
write] + the full observation of s (every field B, tolist, a second write) and of the retained t; every ordered
pair A != B: [keep, t[X], get A, write, get B] (B read first after the write), [get A, keep, t[X], write, get B],
[keep, t[X], get A, write, swapk, get B] (B of t first), [t[X], write, get A, write, get B] (which formats /
selections: plan_rwr; BAM: every pair in the quick tier already).  The write of these programs is ["write", "go"]:
when the write itself diverges (BAM, VCF, GFA: the eager write fails - a divergence of its own, reported as such)
the history goes on, because a write leaves the eager table what it was; so what is read after the write is
compared for these formats too.  In the signature of a divergence that needs such a write the selection and the
field read before it are named by kind: <format>:idx>get>write=>observe:<divergence> is ONE class per format and
kind of divergence (state memoised by a read, stale after the write), whatever field / selection shows it.

Typed VCF INFO of selected / reordered rows (run_info).  VCF files whose header declares typed INFO keys (Integer,
Float, Flag, String) of which some records lack some (a Flag, an optional Integer / Float / String, INFO "." with no
key at all, keys in varying order, a Flag that is declared and never present): 6 files of 6-8 records.  Read whole,
as one chunk of a chunked read, or as the concatenation of all chunks, lazily and eagerly; then a chain of 1-3 row
selections - unsorted integer lists (t[[0, 5, 3]], rotations, zig-zag, negative and repeated indices, numpy arrays),
reversed slices, and slices / masks / sorted lists as file-order controls; every ordered pair of rows, ordered
triples, seeded permutations and chains of three (thorough) - applied to the table (t[rows].info.K), to the INFO
table (t.info[rows].K) or to the table after the key was read from the parent; then EVERY declared key of the
selection is read, the key named "first" first (the first key rotates / is every key, thorough).  Oracle: a
reference parse of the INFO text this file wrote (split at ';' and '=', int / float / presence / text by declared
Type) for the file rows that Python list indexing selects: where a record has the key (and for every Flag) both
modes must give the reference value, where it lacks the key only lazy == eager is required.  Signatures
vcf-info:<rows-in-file-order|rows-repeated|rows-reordered>:<Type of the wrong keys|several-types|read-or-select>:
<eager-wrong|lazy-wrong|both-wrong|modes-differ-where-key-absent>; the details (key, row, observed, reference) are in
the message.

Signatures.  A failing program is delta-minimised (ops deleted while the same divergence remains; each remaining op
named by its most canonical variant that keeps the divergence) and the signature is
    <format>:<minimal program shape>[:chunked-only]=><place>:<divergence>
place = the op that raised / "observe" (any value observation) / "write"; divergence = values-differ, bytes-differ,
only-lazy-fails:<Exc>, only-eager-fails:<Exc>.  Three regions collapse to one signature per format whatever the
program: <format>:write:header-or-comment-lines-differ (written bytes equal after dropping header / comment
lines), <format>:empty-table=>... (the table operated on has no rows), <format>:single-row-access:... (numpy
scalar-conversion TypeError of npstructures' ragged row access that hits one mode only).
"""
import dataclasses
import itertools
import os
import time

from .common import Collector, TmpDir

PID = "C05"


# ----------------------------------------------------------------------------------------------------------------
# input files (reference writers from the format specifications)
# ----------------------------------------------------------------------------------------------------------------

def _tsv(rows, header=b""):
    return header + b"".join(("\t".join(str(x) for x in r) + "\n").encode() for r in rows)


def _fastq(rows):
    return b"".join(("@%s\n%s\n+\n%s\n" % r).encode() for r in rows)


def _fasta2(rows):
    return b"".join((">%s\n%s\n" % r).encode() for r in rows)


VCF_HEADER = (b"##fileformat=VCFv4.2\n"
              b"##INFO=<ID=DP,Number=1,Type=Integer,Description=\"depth\">\n"
              b"##INFO=<ID=AF,Number=1,Type=Float,Description=\"freq\">\n"
              b"##INFO=<ID=DB,Number=0,Type=Flag,Description=\"dbsnp\">\n"
              b"##INFO=<ID=AA,Number=1,Type=String,Description=\"anc\">\n"
              b"#CHROM\tPOS\tID\tREF\tALT\tQUAL\tFILTER\tINFO\n")
SAM_HEADER = b"@HD\tVN:1.0\tSO:unsorted\n@SQ\tSN:ref\tLN:17637\n@SQ\tSN:chr2\tLN:500\n"
PAIRS_HEADER = b"## pairs format v1.0\n#columns: readID chr1 pos1 chr2 pos2 strand1 strand2\n"

BAM_REFS = [("ref", 17637), ("chr2", 500)]
BAM_TEXT = "@HD\tVN:1.0\tSO:unsorted\n@SQ\tSN:ref\tLN:17637\n@SQ\tSN:chr2\tLN:500\n"


def _bam_rec(name, flag, ref_id, pos, mapq, cigar, seq, qual):
    return {"name": name, "flag": flag, "ref_id": ref_id, "pos": pos, "mapq": mapq, "cigar": cigar, "seq": seq,
            "qual": qual}


def _bam(rows):
    from .refmodels.bam_writer import encode_bam
    return encode_bam(BAM_TEXT, BAM_REFS, [_bam_rec(*r) for r in rows])


def _wig(rows):
    out = b""
    for i, r in enumerate(rows):
        if i % 2 == 0:
            out += ("#bedGraph section %s:%d-%d\n" % (r[0], r[1], r[2])).encode()
        out += ("\t".join(str(x) for x in r) + "\n").encode()
    return out


def _buffer(name):
    """buffer_type argument for bnp.open (None = chosen by the suffix)"""
    if name == "bed6":
        from bionumpy.io.delimited_buffers import Bed6Buffer
        return Bed6Buffer
    if name == "bed12":
        from bionumpy.io.delimited_buffers import Bed12Buffer
        return Bed12Buffer
    if name == "fasta2":
        from bionumpy.io import TwoLineFastaBuffer
        return TwoLineFastaBuffer
    if name == "csv":
        return _csv_buffer()
    return None


_CSV = {}


def _csv_buffer():
    if "b" not in _CSV:
        from bionumpy.bnpdataclass import bnpdataclass
        from bionumpy.io.delimited_buffers import get_bufferclass_for_datatype

        @bnpdataclass
        class CsvRow:
            name: str
            count: int
            weight: float
            tag: str

        _CSV["b"] = get_bufferclass_for_datatype(CsvRow, delimiter=",", has_header=True)
    return _CSV["b"]


# name -> (suffix, writer, records A, records B).  Values are in the canonical form the library's writer produces
# (no leading zeros, floats with a fractional part), so that writing an unmodified table is the identity.
FORMATS = {
    "bed": (".bed", _tsv,
            [("chr1", 1, 5), ("chr2", 30, 1000), ("chr10", 100, 20000)],
            [("chrX", 7, 8), ("c", 12345, 12346)]),
    "bed6": (".bed", _tsv,
             [("chr1", 1, 5, "n1", 0, "-"), ("chr2", 30, 1000, "name2", 10, "+"), ("chr10", 100, 20000, "x", 200, "+")],
             [("chrX", 7, 8, "longer_name", 5, "+"), ("c", 12345, 12346, "y", 1000, "-")]),
    "bed12": (".bed", _tsv,
              [("chr21", 10079666, 10120808, "uc002yiv.1", 0, "-", 10081686, 10120608, "0", 4, "528,91,101,215", "0,1930,39750,40927"),
               ("chr21", 10080031, 10081687, "uc002yiw.1", 0, "-", 10080031, 10080031, "0", 2, "200,91", "0,1565"),
               ("chr1", 5, 100, "x", 7, "+", 6, 50, "0", 1, "95", "0")],
              [("chrX", 1000, 2000, "gene", 100, "+", 1100, 1900, "0", 3, "10,20,30", "0,100,970"),
               ("c", 7, 9, "g2", 0, "-", 7, 9, "0", 1, "2", "0")]),
    "bdg": (".bdg", _tsv,
            [("chr1", 1, 5, "0.5"), ("chr2", 30, 1000, "1.25"), ("chr10", 100, 20000, "-3.0")],
            [("chrX", 7, 8, "10.0"), ("c", 12345, 12346, "0.125")]),
    "narrowPeak": (".narrowPeak", _tsv,
                   [("chr1", 1, 5, "p1", 10, ".", "1.5", "2.5", "3.5", 2),
                    ("chr2", 30, 1000, "peak2", 100, "+", "10.25", "-1.0", "-1.0", 40),
                    ("chr10", 100, 20000, "p", 7, "-", "0.5", "0.25", "12.0", 1000)],
                   [("chrX", 7, 8, "pk", 5, "+", "2.0", "3.0", "4.0", 0),
                    ("c", 12345, 12346, "another", 1000, ".", "0.75", "100.5", "1.0", 1)]),
    "sizes": (".sizes", _tsv,
              [("chr1", 100), ("chr2", 20), ("chr10", 3)],
              [("chrX", 123456), ("c", 7)]),
    "pairs": (".pairs", lambda rows: _tsv(rows, PAIRS_HEADER),
              [("r1", "chr1", 10, "chr2", 20, "+", "-"), ("read2", "chr1", 100, "chr1", 2000, "-", "-"),
               ("r", "chr10", 5, "chr2", 12345, "+", "+")],
              [("q1", "chrX", 1, "chrX", 2, "-", "+"), ("qq22", "c", 999, "chr1", 3, "+", "+")]),
    "gfa": (".gfa", _tsv,
            [("S", "id1", "AACCTTGG"), ("S", "id4", "ACTG"), ("S", "x", "A")],
            [("S", "node10", "GG"), ("S", "n", "TTTTT")]),
    "wig": (".wig", _wig,
            [("chr1", 0, 9800, "0.5"), ("chr1", 9800, 9871, "0.36612"), ("chr1", 9871, 9872, "0.17042")],
            [("chr2", 5, 6, "1.5"), ("chr2", 6, 700, "2.25")]),
    "csv": (".csv", lambda rows: b"name,count,weight,tag\n" + b"".join(
        (",".join(str(x) for x in r) + "\n").encode() for r in rows),
            [("a", 1, "0.5", "t1"), ("bcd", 20, "1.25", "x"), ("ef", 300, "-3.0", "tag3")],
            [("g", 7, "10.0", "u"), ("hijk", 12345, "0.125", "vv")]),
    "fastq": (".fq", _fastq,
              [("r1", "ACGT", "IIII"), ("read2 d", "AC", "!~"), ("r3", "GGGTTTA", "#######")],
              [("q", "T", "5"), ("qq22", "ACGTACGTAC", "ABCDEFGHIJ")]),
    "fasta2": (".fa", _fasta2,
               [("r1", "ACGT"), ("read2 d", "AC"), ("r3", "GGGTTTA")],
               [("q", "T"), ("qq22", "ACGTACGTAC")]),
    "vcf": (".vcf", lambda rows: _tsv(rows, VCF_HEADER),
            [("chr1", 88362, "rs1", "A", "G", ".", ".", "DP=10;AF=0.5;DB;AA=T"),
             ("chr1", 887560, "rs3748595", "A", "CAA", "30", "PASS", "DP=7;AF=0.25;AA=G"),
             ("chr2", 8878, ".", "AGG", "C", ".", "q10", "DP=123;AF=1.0;DB;AA=C")],
            [("chrX", 5, "rs9", "T", "TA", "99", "PASS", "DP=1;AF=0.125;AA=A"),
             ("c", 12345, "id", "G", "C", ".", ".", "DP=2000;AF=0.75;DB;AA=T")]),
    # the same records without any header line: INFO stays text and the eager writer can serialise it
    "vcf0": (".vcf", _tsv,
             [("chr1", 88362, "rs1", "A", "G", ".", ".", "DP=10;AF=0.5;DB;AA=T"),
              ("chr1", 887560, "rs3748595", "A", "CAA", "30", "PASS", "DP=7"),
              ("chr2", 8878, ".", "AGG", "C", ".", "q10", ".")],
             [("chrX", 5, "rs9", "T", "TA", "99", "PASS", "AA=A"),
              ("c", 12345, "id", "G", "C", ".", ".", "DP=2000;AF=0.75;DB;AA=T")]),
    "sam": (".sam", lambda rows: _tsv(rows, SAM_HEADER),
            [("r1", 16, "ref", 1706, 255, "5M", "*", 0, 0, "TGCTG", "]YG[^", "AS:i:0"),
             ("read2", 0, "ref", 17, 25, "2M1I1M", "*", 0, 0, "TGCA", "`\\X_", "NM:i:0\tMD:Z:3"),
             ("r", 4, "chr2", 1, 0, "1M", "*", 0, 0, "A", "I", "XX:i:1")],
            [("q1", 0, "chr2", 100, 60, "3M", "*", 0, 0, "GGG", "ABC", "AS:i:5"),
             ("qq22", 16, "ref", 9, 7, "4M2D2M", "*", 0, 0, "ACGTAC", "IIIIII", "NM:i:2")]),
    "bam": (".bam", _bam,
            [("r1", 16, 0, 1705, 255, [("M", 5)], "TGCTG", [30, 31, 32, 33, 34]),
             ("read2", 0, 0, 16, 25, [("M", 2), ("I", 1), ("M", 1)], "TGCA", [1, 2, 3, 4]),
             ("r", 4, 1, 0, 0, [("M", 1)], "A", [40])],
            [("q1", 0, 1, 99, 60, [("M", 3)], "GGG", [10, 20, 30]),
             ("qq22", 16, 0, 8, 7, [("M", 4), ("D", 2), ("M", 2)], "ACGTAC", [5, 5, 5, 5, 5, 5])]),
}
GZ_FORMATS = {"bed.gz": "bed"}
ALL_FORMATS = list(FORMATS) + list(GZ_FORMATS)

# ----------------------------------------------------------------------------------------------------------------
# formats the reader's lazy/eager DECISION keeps eager (run_decision)
# ----------------------------------------------------------------------------------------------------------------
# bnp.open(p) / bnp.open(p, lazy=True) do not give a lazy table for every format: the decision in
# NpDataclassReader._should_be_lazy (an anchor of the property) reads GTF, GFF / GFF3 and multi-line FASTA eagerly
# whatever was asked for, because their buffers do not support what the lazy class needs (a raw buffer that can be
# indexed and written).  The statement is about the table "obtained by lazy reading (the default)": for these
# formats, too, the default read and the lazy=True read must be indistinguishable from the lazy=False read.  They
# are separate from ALL_FORMATS (own part of the run, own budget), so that the programs, the sampled programs and
# the time of the formats above stay what they were.  Files from the format specifications: GFF3 / GTF have 9
# tab-separated columns (seqid, source, type, start, end, score, strand, phase, attributes); "gff3" starts with the
# "##gff-version 3" pragma and has "###" directive lines between the records (comment lines INSIDE the file);
# "fasta" is FASTA with the sequences broken into lines of 4 characters, "fasta80" the same records with lines of
# 80 characters (the line width of the library's writer: writing is the identity).


def _gff3(rows):
    out = b"##gff-version 3\n"
    for i, r in enumerate(rows):
        if i and i % 2 == 0:
            out += b"###\n"
        out += ("\t".join(str(x) for x in r) + "\n").encode()
    return out


def _fasta_width(width):
    def writer(rows):
        out = b""
        for name, seq in rows:
            out += (">%s\n" % name).encode()
            out += b"".join((seq[i:i + width] + "\n").encode() for i in range(0, len(seq), width))
        return out
    return writer


def _gxf_rows(attr):
    A = [("chr1", "havana", "gene", 1, 50, ".", "+", ".", attr("g1", None)),
         ("chr1", "havana", "transcript", 1, 50, ".", "+", ".", attr("g1", "t1")),
         ("chr1", "ensembl_havana", "exon", 11, 30, "0.5", "+", "0", attr("g1", "t1")),
         ("chr2", "src", "gene", 101, 1050, ".", "-", ".", attr("gene2", None))]
    B = [("chrX", "s", "gene", 7, 8, "12", "-", ".", attr("gX", None)),
         ("c", "another_source", "CDS", 12345, 12399, ".", "+", "2", attr("gX", "tr_long_name.2"))]
    return A, B


def _gff_attr(g, t):
    return "ID=%s" % g if t is None else "ID=%s;Parent=%s" % (t, g)


def _gtf_attr(g, t):
    return 'gene_id "%s";' % g if t is None else 'gene_id "%s"; transcript_id "%s";' % (g, t)


_MFA = ([("r1", "ACGTACGTAC"), ("read2 d", "AC"), ("r3", "GGGTTTAA"), ("s4", "ACGTA")],
        [("q", "T"), ("qq22", "ACGTACGTACGTA")])
DECISION_FORMATS = {
    "gff": (".gff",) + (_tsv,) + _gxf_rows(_gff_attr),
    "gff3": (".gff3",) + (_gff3,) + _gxf_rows(_gff_attr),
    "gtf": (".gtf",) + (_tsv,) + _gxf_rows(_gtf_attr),
    "fasta": (".fa", _fasta_width(4)) + _MFA,
    "fasta80": (".fasta", _fasta_width(80)) + _MFA,
}
FORMATS.update(DECISION_FORMATS)   # after ALL_FORMATS: looked up by name only
ALL_DECISION_FORMATS = list(DECISION_FORMATS)

# ----------------------------------------------------------------------------------------------------------------
# header-bearing file pairs ("<format>+hdr"): the same records, but file A and file B of a format start with
# DIFFERENT header / leading comment lines (different text and a different number of lines); the chunked file AB
# has the header of A.  Written from the format specifications: '#' comment lines before the first record for the
# delimited formats, '@' header lines of SAM, '##' meta lines and the '#CHROM' line of VCF, the text and the
# reference list of the BAM header.  Used by the second-file family (run_second) only.
# ----------------------------------------------------------------------------------------------------------------
HDR = "+hdr"
HDR_FORMATS = ("bed", "bed6", "bed12", "bdg", "narrowPeak", "sizes", "pairs", "gfa", "wig", "vcf", "vcf0", "sam", "bam",
               "bed.gz")
ALL_HDR_FORMATS = [f + HDR for f in HDR_FORMATS]


def is_hdr(fmt):
    return fmt.endswith(HDR)


def plain(fmt):
    """the format without the header variant: the name used in signatures"""
    return fmt[:-len(HDR)] if is_hdr(fmt) else fmt


def base_of(fmt):
    p = plain(fmt)
    return GZ_FORMATS.get(p, p)


def is_gz(fmt):
    return plain(fmt) in GZ_FORMATS


VCF_COLUMNS = b"#CHROM\tPOS\tID\tREF\tALT\tQUAL\tFILTER\tINFO\n"
HDR_TEXT = {   # base format -> (leading lines of file A, leading lines of file B); default: comment lines
    None: (b"#track of sample A\n", b"#sample B\n#caller=v2 second comment line\n"),
    "pairs": (PAIRS_HEADER, PAIRS_HEADER + b"#sorted: none\n#shape: upper triangle\n"),
    "sam": (SAM_HEADER, b"@HD\tVN:1.6\tSO:unsorted\n@SQ\tSN:ref\tLN:17637\n@SQ\tSN:chr2\tLN:500\n@CO\tsecond file\n"),
    "vcf0": (b"##fileformat=VCFv4.2\n" + VCF_COLUMNS, b"##fileformat=VCFv4.3\n##source=callerB\n" + VCF_COLUMNS),
    "vcf": (VCF_HEADER, VCF_HEADER.replace(b"VCFv4.2\n", b"VCFv4.3\n##source=callerB\n")),
}
BAM_HDR = {"A": (BAM_TEXT, BAM_REFS), "B": (BAM_TEXT + "@CO\tsecond file\n", BAM_REFS + [("chr3", 77)])}


def file_bytes(fmt, which):
    base = base_of(fmt)
    suffix, writer, A, B = FORMATS[base]
    rows = {"A": A, "B": B, "AB": A + B}[which]
    if is_hdr(fmt):
        if base == "bam":
            from .refmodels.bam_writer import encode_bam
            text, refs = BAM_HDR["B" if which == "B" else "A"]
            return encode_bam(text, refs, [_bam_rec(*r) for r in rows])
        lead = HDR_TEXT.get(base, HDR_TEXT[None])[1 if which == "B" else 0]
        return lead + (_tsv(rows) if base in HDR_TEXT else writer(rows))
    return writer(rows)


def file_name(fmt, which):
    base = base_of(fmt)
    return "%s_%s%s%s%s" % (base, "hdr_" if is_hdr(fmt) else "", which, FORMATS[base][0], ".gz" if is_gz(fmt) else "")


def comment_prefix(fmt):
    base = base_of(fmt)
    c = COMMENT_PREFIX.get(base)
    if c is None and is_hdr(fmt) and base != "bam":
        c = "#"
    return c


def bam_header_length(data):
    """number of bytes of the header of an (uncompressed) BAM stream, from the specification: magic, l_text, text,
    n_ref, then l_name, name, l_ref per reference; 0 if the stream does not start with a BAM header"""
    import struct
    raw = data.encode("latin1") if isinstance(data, str) else data
    if raw[:4] != b"BAM\x01" or len(raw) < 12:
        return 0
    try:
        pos = 8 + struct.unpack_from("<i", raw, 4)[0]
        n_ref = struct.unpack_from("<i", raw, pos)[0]
        pos += 4
        for _ in range(n_ref):
            pos += 4 + struct.unpack_from("<i", raw, pos)[0] + 4
    except struct.error:
        return 0
    return pos if pos <= len(raw) else 0


def header_block(fmt, text):
    """the header of a written file (decoded, BAM decompressed): the leading header / comment lines, the BAM
    header"""
    if base_of(fmt) == "bam":
        return text[:bam_header_length(text)]
    c = comment_prefix(fmt)
    out = []
    for l in text.splitlines(True):
        if c is None or not l.startswith(c):
            break
        out.append(l)
    return "".join(out)


def own_header(fmt, which):
    """the header a table read from this file has to carry and to write: that of its OWN file (reference: the
    bytes written above)"""
    data = file_bytes(fmt, which)
    if base_of(fmt) == "bam":
        import gzip
        data = gzip.decompress(data)
    return header_block(fmt, data.decode("latin1"))


def chunk_sizes(fmt):
    """min_chunk_size values for the chunked mode: about a half and about a third of the record bytes (the header
    is read separately), so that the 5 records come as 2-3 chunks of 1-3 records"""
    base = base_of(fmt)
    if base == "bam":
        return [200, 150]
    writer, A, B = FORMATS[base][1:]
    n = len(writer(A + B)) - len(writer([]))
    return [max(n // 2, 8), max(n // 3, 8)]


# ----------------------------------------------------------------------------------------------------------------
# normalisation of results to plain Python
# ----------------------------------------------------------------------------------------------------------------

def norm(x, depth=0):
    import numpy as np
    from bionumpy.encoded_array import EncodedArray, EncodedRaggedArray
    if depth > 6:
        return repr(x)
    if x is None or isinstance(x, (str, bool, int)):
        return x
    if isinstance(x, float):
        return repr(x)
    if isinstance(x, bytes):
        return x.decode("latin1")
    if isinstance(x, EncodedRaggedArray):
        return [r.to_string() for r in x]
    if isinstance(x, EncodedArray):
        if x.ndim <= 1:
            return x.to_string()
        return [norm(r, depth + 1) for r in x]
    if dataclasses.is_dataclass(x) and not isinstance(x, type):
        return {"dc": [(f.name, norm(getattr(x, f.name), depth + 1)) for f in dataclasses.fields(x)]}
    if isinstance(x, np.generic):
        return norm(x.item(), depth + 1)
    if isinstance(x, (list, tuple)):
        return [norm(v, depth + 1) for v in x]
    if hasattr(x, "tolist"):
        return norm(x.tolist(), depth + 1)
    if isinstance(x, dict):
        return {str(k): norm(v, depth + 1) for k, v in x.items()}
    return repr(x)


def norm_column(x):
    """a column (one value per row) as the list of its row values.  A one-character-per-row text column is a 1-d
    EncodedArray in one mode and a ragged array with rows of length 1 in the other; both are the same row values."""
    import numpy as np
    from bionumpy.encoded_array import EncodedArray, EncodedRaggedArray
    if isinstance(x, EncodedArray) and not isinstance(x, EncodedRaggedArray) and x.ndim >= 1:
        return [norm(x[i]) for i in range(len(x))]
    if dataclasses.is_dataclass(x) and not isinstance(x, type):
        return {"dc": [(f.name, norm_column(getattr(x, f.name))) for f in dataclasses.fields(x)]}
    return norm(x)


# ----------------------------------------------------------------------------------------------------------------
# operations
# ----------------------------------------------------------------------------------------------------------------

def field_kind(tp):
    from bionumpy.typing import SequenceID
    if tp is int:
        return "int"
    if tp is float:
        return "float"
    if tp is str:
        return "str"
    if tp is SequenceID:
        return "seqid"
    return "other"


def fresh_value(kind, n, salt):
    """a new column of n array values (built separately for each mode, so nothing is shared)"""
    import numpy as np
    import bionumpy as bnp
    if kind == "int":
        base = [7, 123, 45, 6789, 0, 10]
        return np.array([base[(i + salt) % 6] + i for i in range(n)], dtype=int)
    if kind == "float":
        base = [0.5, -1.25, 100.0, 3.75]
        return np.array([base[(i + salt) % 4] + i for i in range(n)], dtype=float)
    words = ["A", "ACGT", "GG", "TTTTTTTA", "CA"]
    vals = [words[(i + salt) % 5] + "ACGT"[i % 4] * (i % 3) for i in range(n)]
    if kind == "seqid":
        # the array type of a SequenceID column (what t.<field> returns)
        from bionumpy.string_array import as_string_array
        return as_string_array(vals + ["pad"])[:n]
    if n == 0:
        return bnp.as_encoded_array([""])[:0]
    return bnp.as_encoded_array(vals)


def index_of(sub, n):
    """the index object for an index op on a table of n rows; None = not applicable for this n"""
    import numpy as np
    if sub == "s_tail":
        return slice(1, None)
    if sub == "s_head":
        return slice(None, -1)
    if sub == "s_step":
        return slice(None, None, 2)
    if sub == "s_rev":
        return slice(None, None, -1)
    if sub == "s_mid":
        return slice(1, 2)
    if sub == "s_empty":
        return slice(0, 0)
    if sub == "s_all":
        return slice(None)
    if sub == "m_alt":
        return np.array([i % 2 == 0 for i in range(n)], dtype=bool)
    if sub == "m_nofirst":
        return np.array([i != 0 for i in range(n)], dtype=bool)
    if sub == "m_none":
        return np.zeros(n, dtype=bool)
    if sub == "m_all":
        return np.ones(n, dtype=bool)
    if n == 0:
        return None
    if sub == "i_rev":
        return list(range(n - 1, -1, -1))
    if sub == "i_dup":
        return np.array([0, 0, n - 1])
    if sub == "i_neg":
        return [-1, 0]
    if sub == "i_last":
        return np.array([n - 1])
    raise ValueError(sub)


class Skip(Exception):
    """the op is not applicable in the current state (e.g. t[0] of an empty table): the program is not in scope"""


class Env:
    def __init__(self, tmp, fmt, mode):
        self.tmp, self.fmt, self.mode = tmp, fmt, mode
        self.buffer_type = _buffer(base_of(fmt))
        self.hdr = is_hdr(fmt)        # header-bearing file pair: written headers are checked against the own file's
        self.signame = plain(fmt)     # the format name of the signatures
        self.paths = {}
        self.nwrite = 0
        self.hist_cache = {}   # own history of a retained table -> divergences of its full observation
        self._own = {}

    def path(self, which):
        if which not in self.paths:
            p = os.path.join(self.tmp, file_name(self.fmt, which))
            data = file_bytes(self.fmt, which)
            if is_gz(self.fmt):
                import gzip
                with gzip.open(p, "wb") as f:
                    f.write(data)
            else:
                with open(p, "wb") as f:
                    f.write(data)
            self.paths[which] = p
        return self.paths[which]

    def sources(self):
        """the files the registers [t, u] come from"""
        if self.mode == "whole":
            return ["A", "B"]
        kind = self.mode.split(":")[0]
        if kind == "seq":       # t = the file read second, u = the file read first
            order = self.mode.split(":")[2]
            return [order[1], order[0]]
        if kind == "inter":     # t = second chunk of the file opened first, u = first chunk of the other file
            order = self.mode.split(":")[1]
            return [order[0], order[1]]
        return ["AB", "AB"]

    def own_header(self, which):
        if which not in self._own:
            self._own[which] = own_header(self.fmt, which)
        return self._own[which]

    def _read_seq(self, lazy):
        """two files of the same format read one after the other in this process, each in one of the three public
        ways (read / one read_chunk / all read_chunks) -> [table of the second file, table of the first file];
        or ("inter") two readers open at the same time, chunks read alternately"""
        import bionumpy as bnp
        parts = self.mode.split(":")
        size = chunk_sizes(self.fmt)[1]
        readers = []

        def opened(which, how):
            f = bnp.open(self.path(which), lazy=((None if lazy else False) if how == "read" else lazy),
                         buffer_type=self.buffer_type)
            readers.append(f)
            return f

        def get(which, how):
            f = opened(which, how)
            if how == "read":
                return f.read()
            if how == "chunk":       # the first chunk
                return f.read_chunk(min_chunk_size=size)
            chunks = list(f.read_chunks(min_chunk_size=size))   # "chunks": all of them, the last one is kept
            if not chunks:
                raise ValueError("no chunk read")
            return chunks[-1]

        try:
            if parts[0] == "seq":
                how1, how2 = parts[1].split(">")
                first = get(parts[2][0], how1)
                second = get(parts[2][1], how2)
                return [second, first]
            # less than the shortest record line of the file opened first, so that its first chunk is not all of it
            small = 75
            if base_of(self.fmt) != "bam":
                body = file_bytes(self.fmt, parts[1][0]).decode("latin1")[len(self.own_header(parts[1][0])):]
                small = max(min(len(l) for l in body.splitlines(True)) // 2, 2)
            f1, f2 = opened(parts[1][0], "chunk"), opened(parts[1][1], "chunk")
            f1.read_chunk(min_chunk_size=small)
            other = f2.read_chunk(min_chunk_size=small)
            again = f1.read_chunk(min_chunk_size=small)
            if len(again) == 0:
                raise ValueError("no second chunk")
            return [again, other]
        finally:
            for f in readers:
                f.close()

    def read(self, lazy, need_u=True):
        """-> [t, u] for one mode"""
        import bionumpy as bnp
        if self.mode == "whole":
            out = []
            for which in ("A", "B") if need_u else ("A",):
                # the lazy side of the whole read is the default (lazy=None), the chunked one asks for lazy=True
                with bnp.open(self.path(which), lazy=(None if lazy else False), buffer_type=self.buffer_type) as f:
                    out.append(f.read())
            return out if need_u else out + [None]
        if self.mode.split(":")[0] in ("seq", "inter"):
            return self._read_seq(lazy)
        size = int(self.mode.split(":")[1])
        with bnp.open(self.path("AB"), lazy=lazy, buffer_type=self.buffer_type) as f:
            chunks = list(f.read_chunks(min_chunk_size=size))
        if not chunks:
            raise ValueError("no chunk read")
        return [chunks[0], chunks[-1]]

    def write(self, table, tag):
        """write with the public writer; same file name in both modes (a gzip header stores it); compressed
        outputs are compared after decompression (the gzip header also stores a time stamp)"""
        import bionumpy as bnp
        base = base_of(self.fmt)
        d = os.path.join(self.tmp, "out_" + tag)
        os.makedirs(d, exist_ok=True)
        p = os.path.join(d, "out%s%s" % (FORMATS[base][0], ".gz" if is_gz(self.fmt) else ""))
        if os.path.exists(p):
            os.unlink(p)
        with bnp.open(p, "w", buffer_type=self.buffer_type) as f:
            f.write(table)
        with open(p, "rb") as f:
            data = f.read()
        if p.endswith(".gz") or p.endswith(".bam"):
            import gzip
            data = gzip.decompress(data)
        return data.decode("latin1")


COMMENT_PREFIX = {"sam": "@", "vcf": "#", "vcf0": "#", "pairs": "#", "wig": "#", "gff": "#", "gff3": "#", "gtf": "#"}


def strip_comment_lines(fmt, text):
    if is_hdr(fmt) and base_of(fmt) == "bam":
        return text[bam_header_length(text):]
    c = comment_prefix(fmt)
    if c is None:
        return text
    return "".join(l for l in text.splitlines(True) if not l.startswith(c))


def prepare(op, fields, n_eager):
    """harness part of an op, outside the guarded call: the index object / the new column.  Raises Skip when the op
    is not applicable in the current state (t[i] of an empty table, replace of a column that is not a plain array)"""
    import numpy as np
    kind = op[0]
    if kind == "item":
        if n_eager == 0:
            raise Skip()
        return {"first": 0, "last": n_eager - 1, "neg": -1, "np_last": np.int64(n_eager - 1)}[op[1]]
    if kind == "idx":
        idx = index_of(op[1], n_eager)
        if idx is None:
            raise Skip()
        return idx
    if kind in ("replace", "set"):
        fk = dict(fields).get(op[1], "other")
        if fk == "other" or (op[2] == "self" and fk != "int"):
            raise Skip()
        if op[2] == "self":
            return None
        # a separate object for each mode, so that nothing is shared between the two runs
        return lambda: fresh_value("str" if op[2] == "era" else fk, n_eager, {"fresh": 0, "fresh2": 3, "era": 1}[op[2]])
    return None


def apply_op(env, op, regs, arg, tag):
    """library part of an op on the registers [t, u] of one mode; returns the observed value (normalised) or None"""
    import numpy as np
    import bionumpy as bnp
    t, u = regs[0], regs[1]   # registers 2.. are the retained tables
    kind = op[0]
    if kind == "len":
        return len(t)
    if kind == "get":
        return norm_column(getattr(t, op[1]))
    if kind == "tolist":
        return norm(t.tolist())
    if kind == "str":
        return str(t)
    if kind == "iter":
        return [norm(e) for e in t]
    if kind == "write":
        return env.write(t, tag)
    if kind == "item":
        return norm(t[arg])
    if kind == "idx":
        regs[0] = t[arg]
        return None
    if kind == "cat":
        regs[0] = np.concatenate([{"t": t, "u": u}[c] for c in op[1]])
        return None
    if kind == "swap":
        regs[0], regs[1] = u, t
        return None
    if kind == "keep":       # retain a reference to the current table (registers 2.. are the retained tables)
        regs.append(t)
        return None
    if kind == "swapk":      # go on with the table retained last; the current one becomes the retained one
        regs[0], regs[-1] = regs[-1], regs[0]
        return None
    if kind in ("replace", "set"):
        f = op[1]
        value = (getattr(t, f) + 1) if op[2] == "self" else arg
        if kind == "replace":
            regs[0] = bnp.replace(t, **{f: value})
        else:
            setattr(t, f, value)
        return None
    raise ValueError(op)


OBSERVE = ("len", "get", "tolist", "item", "str", "iter")


def is_go_write(op):
    return op[0] == "write" and len(op) > 1 and op[1] == "go"


class Divergence:
    def __init__(self, step, where, kind, detail):
        # every value observation is one place ("observe"): which of get / tolist / t[i] / str shows a wrong table
        # first depends on the program, not on the defect
        self.op = where
        where = "observe" if where in OBSERVE else where
        self.step, self.where, self.kind, self.detail = step, where, kind, detail
        self.empty = False   # the table operated on has no rows

    def key(self):
        return (self.where, self.kind, self.empty, getattr(self, "header", None))


def _outcome(fn):
    try:
        return ("ok", fn())
    except Exception as e:  # the property speaks of "fails": any exception
        return ("exc", type(e).__name__, str(e)[:200])


NOT_OWN = "lazy-header-not-of-its-file"


def _not_own(env, src, lazy_header, eager_header):
    """header-bearing file pairs, table whose source file is known (only unary ops since it was read): the lazy
    table writes a header that is not the header of its own file although the eager one does, or it writes the
    header of the OTHER file of the session"""
    if env is None or not env.hdr or src is None or not isinstance(lazy_header, str):
        return False
    own = env.own_header(src)
    if lazy_header.startswith(own):   # its own header (further comment lines after it: the comment-lines region)
        return False
    if eager_header == own:
        return True
    return any(lazy_header == env.own_header(w) != "" for w in set(env.sources()) - {src})


def _compare(step, where, lo, eo, bytes_like=False, fmt=None, env=None, src=None):
    if lo[0] == "exc" and eo[0] == "exc":
        return "both-fail", None
    if where == "write" and lo[0] == "ok" and eo[0] == "exc" and env is not None and env.hdr and \
            _not_own(env, src, header_block(env.fmt, lo[1]), None):
        # the eager write fails (a divergence whatever the lazy one writes); the lazy one writes another file's header
        return None, Divergence(step, where, "only-eager-fails:%s:%s" % (eo[1], NOT_OWN),
                                "eager raised %s(%s); lazy gave %r" % (eo[1], eo[2], _short(lo[1])))
    if lo[0] == "exc":
        return None, Divergence(step, where, "only-lazy-fails:" + lo[1], "lazy raised %s(%s); eager gave %r" % (lo[1], lo[2], _short(eo[1])))
    if eo[0] == "exc":
        return None, Divergence(step, where, "only-eager-fails:" + eo[1], "eager raised %s(%s); lazy gave %r" % (eo[1], eo[2], _short(lo[1])))
    if lo[1] != eo[1]:
        kind = "values-differ:" + diff_class(lo[1], eo[1])
        if bytes_like:
            kind = "bytes-differ:" + diff_class(lo[1], eo[1])
            lb, eb = strip_comment_lines(fmt, lo[1]), strip_comment_lines(fmt, eo[1])
            if lb == eb:
                kind = HEADER_ONLY
                nl, ne = len(lo[1]) - len(lb), len(eo[1]) - len(eb)
                d = Divergence(step, where, kind, "lazy %r != eager %r" % (_short(lo[1]), _short(eo[1])))
                d.header = "eager-writes-less" if ne < nl else ("lazy-writes-less" if nl < ne else "same-size-other-text")
                if _not_own(env, src, header_block(fmt, lo[1]), header_block(fmt, eo[1])):
                    d.header = NOT_OWN
                return None, d
        return None, Divergence(step, where, kind, "lazy %r != eager %r" % (_short(lo[1]), _short(eo[1])))
    return "equal", None


def diff_class(a, b):
    """how two unequal observations differ: 'length' (different number of rows / lines), 'permuted' (the same rows
    in another order: an alignment fault), 'content' (some row has other content).  Part of the signature, so that
    a misalignment is not taken for a known content difference of the same program shape."""
    import json
    if isinstance(a, str) and isinstance(b, str):
        a, b = a.splitlines(True), b.splitlines(True)
    if isinstance(a, dict) and isinstance(b, dict) and "dc" in a and "dc" in b:
        for (fa, va), (fb, vb) in zip(a["dc"], b["dc"]):
            if fa != fb:
                return "content"
            if va != vb:
                return diff_class(va, vb)
        return "content"
    if isinstance(a, list) and isinstance(b, list):
        if len(a) != len(b):
            return "length"
        key = lambda x: json.dumps(x, sort_keys=True, default=str)
        if sorted(map(key, a)) == sorted(map(key, b)):
            return "permuted"
    return "content"


HEADER_ONLY = "header-or-comment-lines-differ"


def _short(v):
    s = repr(v)
    return s if len(s) < 220 else s[:220] + "..."


def _execute(env, prog):
    """read in both modes and apply the ops in lock-step -> (status, divs, L, E); status ok / both-fail: every op was
    applied (divs = header-only differences of writes inside the program); skip; diverged: stopped at the first
    diverging step.  L, E = registers [t, u, retained tables ...] of the lazy and of the eager run"""
    need_u = any(op[0] == "swap" or (op[0] == "cat" and "u" in op[1]) for op in prog)
    lo = _outcome(lambda: env.read(True, need_u))
    eo = _outcome(lambda: env.read(False, need_u))
    if lo[0] == "exc" or eo[0] == "exc":
        st, d = _compare(-1, "read", ("ok", None) if lo[0] == "ok" else lo, ("ok", None) if eo[0] == "ok" else eo)
        return ("both-fail-read" if st else "diverged"), ([d] if d else []), None, None
    L, E = lo[1], eo[1]
    soft = []   # header-only differences of a write inside the program: recorded, the program goes on
    status = "ok"
    fields = [(f.name, field_kind(f.type)) for f in dataclasses.fields(E[0])]
    env.srcs = srcs = env.sources()   # the file every register comes from (None after a concatenation)
    for step, op in enumerate(prog):
        try:
            n = len(E[0])
        except Exception:
            n = 0
        if op[0] == "swapk" and (len(E) <= 2 or len(L) <= 2):
            return "skip", [], L, E
        try:
            arg = prepare(op, fields, n)
        except Skip:
            return "skip", [], L, E
        mk = arg if callable(arg) else (lambda: arg)
        la, ea = mk(), mk()
        lo = _outcome(lambda: apply_op(env, op, L, la, "lazy"))
        eo = _outcome(lambda: apply_op(env, op, E, ea, "eager"))
        st, d = _compare(step, op[0], lo, eo, bytes_like=(op[0] == "write"), fmt=env.fmt, env=env, src=srcs[0])
        _track(op, srcs)
        if d:
            d.empty = (n == 0)
            if d.kind == HEADER_ONLY:
                if not soft:
                    soft.append(d)
                continue
            if is_go_write(op):
                # ["write", "go"]: a write leaves the table what it was in the eager mode whether it succeeds or not, so
                # the history goes on after a write that diverges (recorded once per kind) - what is read AFTER the
                # write is compared as well (for BAM / VCF / GFA the eager write fails: a divergence of its own)
                d.soft = True
                if not any(x.key() == d.key() for x in soft):
                    soft.append(d)
                continue
            return "diverged", soft + [d], L, E
        if st == "both-fail":
            status = "both-fail"   # the step fails in both modes, as the statement allows; the program goes on
    return status, soft, L, E


def _track(op, srcs):
    """the register moves of apply_op on the list of source files"""
    k = op[0]
    if k == "cat":
        srcs[0] = None
    elif k == "swap":
        srcs[0], srcs[1] = srcs[1], srcs[0]
    elif k == "keep":
        srcs.append(srcs[0])
    elif k == "swapk":
        srcs[0], srcs[-1] = srcs[-1], srcs[0]


def _observe(env, lt, et, step, src=None):
    """the full observation (len, every field in declaration order, tolist, written bytes) of one table in both
    modes -> (n rows of the eager table, [(where, op, Divergence or None)])"""
    try:
        names = [f.name for f in dataclasses.fields(et)]
    except Exception:
        names = []
    try:
        n = len(et)
    except Exception:
        n = 0
    obs = [("len", ["len"])] + [("get", ["get", f]) for f in names] + [("tolist", ["tolist"]), ("write", ["write"])]
    out = []
    for where, op in obs:
        lo = _outcome(lambda: apply_op(env, op, [lt, None], None, "lazy"))
        eo = _outcome(lambda: apply_op(env, op, [et, None], None, "eager"))
        st, d = _compare(step, where, lo, eo, bytes_like=(op[0] == "write"), fmt=env.fmt, env=env, src=src)
        out.append((where, op, d))
    return n, out


def _is_consequence(where, d, got_get):
    """a tolist / write difference of a table one of whose columns was already seen to differ"""
    return where in ("tolist", "write") and d.kind.startswith(("bytes-differ", "values-differ")) and got_get


def run_program(env, prog, final=True):
    """-> (status, [Divergence]); status in ok / skip / both-fail(step).  Stops at the first diverging step; the
    final observation reports every diverging observation (of the retained tables first, then of the final one)."""
    status, divs, L, E = _execute(env, prog)
    if status == "both-fail-read":
        return "both-fail", divs
    if status in ("skip", "diverged") or not final:
        return status, divs
    divs = list(divs)
    seen = set(d.key() for d in divs)
    if len(E) > 2 or len(L) > 2:
        for d in retained_divergences(env, prog, L, E):
            if d.key() not in seen:
                seen.add(d.key())
                divs.append(d)
    n, raw = _observe(env, L[0], E[0], len(prog), src=env.srcs[0])
    for where, op, d in raw:
        if d and _is_consequence(where, d, any(x.op == "get" and x.kind.startswith("values-differ") and
                                               x.step == len(prog) and not x.where.startswith(RETAINED)
                                               for x in divs)):
            continue   # a consequence of the diverging column already reported
        if d:
            d.empty = (n == 0)
        if d and d.key() not in seen:
            seen.add(d.key())
            d.detail = "final observation %s: %s" % ("/".join(op), d.detail)
            divs.append(d)
    return ("diverged" if divs else status), divs


# ----------------------------------------------------------------------------------------------------------------
# retained intermediate tables
# ----------------------------------------------------------------------------------------------------------------
# ["keep"] retains a reference to the current table, later ops go on with the tables derived from it (replace,
# indexing, concatenate) or assign to it in place (t.f = array; then the retained table IS the current one and
# must change in both modes alike).  After the last op every retained table that is no longer the current one is
# observed in full: it must still equal its eager counterpart.  ["swapk"] makes the last retained table the current
# one again (and retains the derived one), so that an assignment to the OLD table after a derivation is in scope
# as well (the NEW table must not change).

RETAINED = "retained:"
DERIVING = ("idx", "cat", "replace")


def histories(prog):
    """for every keep of the program, the ops that were applied to the retained OBJECT itself (the ops before it
    was derived-from, in-place assignments and observations while it was current): its own history, as a program.
    None if the program exchanges t and u (then an operand of a concatenation has a history of its own)"""
    hist_t, kept = [], []
    for op in prog:
        k = op[0]
        if k == "swap":
            return None
        if k == "keep":
            kept.append(hist_t)           # the same list: later in-place ops on this object belong to it
        elif k == "swapk":
            if not kept:
                return None
            hist_t, kept[-1] = kept[-1], hist_t
        elif k in DERIVING:
            hist_t = hist_t + [list(op)]  # a new object
        else:
            hist_t.append(list(op))
    return kept


def own_history_divergences(env, hist):
    """{(observation, kind, header)} of the full observation of the table made by the program `hist` alone.  A
    retained table that shows exactly such a divergence shows nothing that the linear program `hist` does not show
    already (and is reported there): it is not counted against the retention."""
    key = tuple(tuple(o) for o in hist)
    if key not in env.hist_cache:
        out = set()
        status, divs, L, E = _execute(env, hist)
        if status in ("ok", "both-fail"):
            n, raw = _observe(env, L[0], E[0], len(hist))
            out = set((tuple(op), d.kind, getattr(d, "header", None)) for where, op, d in raw if d)
        env.hist_cache[key] = out
    return env.hist_cache[key]


def retained_divergences(env, prog, L, E):
    hists = histories(prog)
    out = []
    for k in range(2, max(len(L), len(E))):
        if k >= len(L) or k >= len(E):
            break   # cannot happen: keep never fails
        if L[k] is L[0] and E[k] is E[0]:
            continue    # still the current table in both modes: the final observation is its observation
        if any(L[k] is L[j] and E[k] is E[j] for j in range(2, k)):
            continue    # retained twice
        n, raw = _observe(env, L[k], E[k], len(prog), src=(env.srcs[k] if k < len(env.srcs) else None))
        if not any(d for where, op, d in raw):
            continue
        explained = own_history_divergences(env, hists[k - 2]) if hists is not None else set()
        got_get = False
        for where, op, d in raw:
            if d is None or (tuple(op), d.kind, getattr(d, "header", None)) in explained:
                continue
            if _is_consequence(where, d, got_get):
                continue
            if where == "get" and d.kind.startswith("values-differ"):
                got_get = True
            d.empty = (n == 0)
            d.where = RETAINED + d.where
            d.kept = k - 2
            d.detail = "table retained by keep #%d, observed after the later ops, %s: %s" % (k - 1, "/".join(op), d.detail)
            out.append(d)
    return out


# ----------------------------------------------------------------------------------------------------------------
# minimisation and signatures
# ----------------------------------------------------------------------------------------------------------------

CANON_IDX = "s_tail"


def _has(env, prog, key):
    st, divs = run_program(env, prog)
    return any(d.key() == key for d in divs)


def _canonical_candidates(op, fields):
    """[(replacement op, label)] tried in order; the first one that keeps the divergence names the op"""
    names = [f for f, _ in fields]
    kinds = dict(fields)
    repl = [f for f in names if kinds[f] == "int"] + [f for f in names if kinds[f] not in ("int", "other")]
    k = op[0]   # repl[0] is the first replaceable field of the alphabets (the first int column if there is one)
    if k == "idx":
        return [(["idx", CANON_IDX], "idx")], "idx." + op[1]
    if k == "cat":
        return [(["cat", "tu"], "cat")], "cat." + op[1]
    if k in ("get", "tolist", "write", "str", "item", "len", "iter"):
        own = k if k != "get" else "get(%s)" % op[1]
        cands = [(["get", names[0]], "get")]
        if k in ("iter", "item", "str", "write"):
            cands.append((["tolist"], "tolist"))   # the ops that materialise the whole table
        return cands, own
    if k in ("replace", "set"):
        own = "%s%s(%s)" % (k, "+1" if op[2] == "self" else "", op[1])
        c = []
        if repl:
            c.append((["replace", repl[0], "fresh"], "replace"))
            if k == "set":
                c.append((["set", repl[0], "fresh2"], "set"))
            if op[2] == "self":
                ints = [f for f in repl if kinds[f] == "int"]
                if ints:
                    c.append((["replace", ints[0], "self"], "replace+1"))
            c.append(([k, op[1], "fresh"], "%s(%s)" % (k, kinds.get(op[1], "?"))))
        return c, own
    return [], k


def minimise(env, prog, div):
    """delete ops while a divergence with the same (where, kind) remains; then name every remaining op by the most
    canonical variant of it that keeps the divergence (so that one cause gives one shape)"""
    key = div.key()
    at_op = div.step < len(prog)
    cur = [list(o) for o in (prog[:div.step + 1] if at_op else prog)]
    changed = True
    while changed:
        changed = False
        for i in range(len(cur)):
            if at_op and i == len(cur) - 1:
                continue  # the diverging op itself stays
            cand = cur[:i] + cur[i + 1:]
            if _has(env, cand, key):
                cur = cand
                changed = True
                break
    fields = field_names(env)
    labels = []
    canon = [list(o) for o in cur]
    for i, op in enumerate(cur):
        cands, own = _canonical_candidates(op, fields)
        lab = own
        for rep, name in cands:
            if rep == op:
                lab = name
                break
            trial = canon[:i] + [rep] + canon[i + 1:]
            if _has(env, trial, key):
                lab = name
                canon = trial
                break
        labels.append(lab)
    if at_op and cur and cur[-1][0] in PURE:
        labels = labels[:-1]   # the diverging observation itself is named after "=>"
    return cur, canon, labels


def field_names(env):
    E = env.read(False)
    return [(f.name, field_kind(f.type)) for f in dataclasses.fields(E[0])]


def signature(env, labels, div, chunked_only=False):
    """chunked_only: True -> ":chunked-only"; a string -> that marker (":header-files-only" = seen with the
    header-bearing file pair / the sequential reads of the second-file family, not with the plain files)"""
    marker = (":" + chunked_only) if isinstance(chunked_only, str) else (":chunked-only" if chunked_only else "")
    return "%s:%s%s=>%s:%s" % (env.signame, ">".join(labels) if labels else "read", marker, div.where, div.kind)


def collapsed_signature(env, div):
    """divergences that cover a whole region of the scope whatever the program: one signature, no minimisation"""
    ret = div.where.startswith(RETAINED)   # a retained table: never the signature of the linear region
    fmt = env.signame
    if div.kind == HEADER_ONLY:
        return "%s:%swrite:%s:%s" % (fmt, RETAINED if ret else "", HEADER_ONLY, getattr(div, "header", "?"))
    if div.empty:
        return "%s:empty-table=>%s:%s" % (fmt, div.where, div.kind)
    if "only 0-dimensional arrays can be converted" in div.detail:
        # t[i] / str(t) of a table with ragged columns: npstructures' single-row access raises under this numpy
        # unless the column happens to be contiguous; which mode fails depends on what was materialised before
        return "%s:%ssingle-row-access:one-mode-fails:ragged-row-TypeError" % (fmt, RETAINED if ret else "")
    return None


def rwr_labels(mprog, labels):
    """read / write / read family: in a minimal program that needs a ["write", "go"] the row selection and the field
    read BEFORE that write are named by their kind ("idx", "get") whatever selection / field it is - state memoised
    by a read and used after the write re-laid the buffer is one defect class per format and kind of divergence,
    not one per field.  Programs without such a write (every program of the other families) keep their labels."""
    last = max([i for i, o in enumerate(mprog) if is_go_write(o)], default=-1)
    out = list(labels)
    for i in range(min(last, len(out))):
        if mprog[i][0] in ("get", "idx"):
            out[i] = mprog[i][0]
    return out


def is_subsequence(small, big):
    it = iter(big)
    return all(any(x == y for y in it) for x in small)


# ----------------------------------------------------------------------------------------------------------------
# enumeration
# ----------------------------------------------------------------------------------------------------------------

def alphabet(fields, level):
    """level: 'mini' < 'core' < 'wide' (every field, every index kind); each level contains the previous one"""
    names = [f for f, _ in fields]
    kinds = dict(fields)
    repl = []
    for k in ("int", "seqid", "str", "float"):
        fs = [f for f in names if kinds[f] == k]
        if fs:
            repl.append(fs[0])
    ints = [f for f in names if kinds[f] == "int"]
    mini = [["get", (ints or names)[0]], ["tolist"], ["idx", "m_alt"], ["cat", "tu"], ["cat", "ut"], ["swap"]]
    if repl:
        mini += [["replace", repl[0], "fresh"], ["set", repl[0], "fresh2"]]
    if level == "mini":
        return mini
    gets = []
    for f in [names[0]] + ints[:1] + [names[-1]]:
        if f not in gets:
            gets.append(f)
    core = [["len"], ["write"], ["item", "last"]] + [["get", f] for f in gets] + \
           [["idx", x] for x in ("s_tail", "s_rev", "i_dup", "s_empty")] + [["cat", "tt"]] + \
           [["replace", f, "fresh"] for f in repl[:2]]
    if repl and kinds[repl[0]] == "int":
        core.append(["replace", repl[0], "self"])
    out = list(mini)
    for o in core:
        if o not in out:
            out.append(o)
    if level == "core":
        return out
    allrepl = [f for f in names if kinds[f] != "other"]
    seqids = [f for f in names if kinds[f] == "seqid"]
    wide = [["item", "first"], ["item", "np_last"], ["item", "neg"], ["str"], ["iter"], ["cat", "tut"]] + \
           [["get", f] for f in names] + \
           [["idx", x] for x in ("s_head", "s_step", "s_mid", "s_all", "m_nofirst", "m_none", "m_all", "i_rev", "i_neg",
                                 "i_last")] + \
           [["replace", f, "fresh"] for f in allrepl] + [["set", f, "fresh2"] for f in repl] + \
           [["replace", f, "self"] for f in ints[:2]] + [["replace", f, "era"] for f in seqids[:1]]
    for o in wide:
        if o not in out:
            out.append(o)
    return out


PURE = ("len", "tolist", "write", "item", "str", "get", "iter")


def pair_programs(mini):
    """both operands of a concatenation carry state: [X on t, swap, Y on the other table, concatenate] for X, Y in
    the state-changing ops of the mini alphabet (cache a field, index, replace, set)"""
    state = [o for o in mini if o[0] in ("get", "idx", "replace", "set")]
    for x in state:
        for y in state:
            for c in ("tu", "ut"):
                yield [x, ["swap"], y, ["cat", c]]


def redundant(prog):
    for a, b in zip(prog, prog[1:]):
        if a == b and (a[0] in PURE or a[0] == "swap"):
            return True
    return False


def replaceable(fields):
    """the fields that take an array value, a representative of every kind first (int, seqid, str, float)"""
    names = [f for f, _ in fields]
    kinds = dict(fields)
    out = []
    for k in ("int", "seqid", "str", "float"):
        fs = [f for f in names if kinds[f] == k]
        if fs:
            out.append(fs[0])
    return out + [f for f in names if kinds[f] != "other" and f not in out]


K = ["keep"]


def retained_core(f1, f2):
    """t1 made by replace / assignment of f1, retained, then a table derived from it gets f2 (and further
    assignments): the programs that a dictionary of user-set values shared between t1 and its derivative breaks"""
    R1, R2, R1b = ["replace", f1, "fresh"], ["replace", f2, "fresh2"], ["replace", f1, "fresh2"]
    S1, S2 = ["set", f1, "fresh"], ["set", f2, "fresh2"]
    return [
        [K, R1, K, R2],                                   # t, t1 = replace(t, f1), t2 = replace(t1, f2): observe t, t1
        [S1, K, R2],                                      # t.f1 = v1; t2 = replace(t, f2)
        [R1, K, R2, ["set", f1, "fresh2"]],               # ... t2.f1 = w: t1.f1 stays v1
        [R1, K, R2, ["swapk"], ["set", f2, "fresh"]],     # ... t1.f2 = w afterwards: t2.f2 stays v2
        [R1, K, ["idx", "s_tail"], S2],                   # t2 = t1[1:]; t2.f2 = w
        [S1, K, ["cat", "tt"], S2],                       # t2 = concatenate([t1, t1]); t2.f2 = w
        [R1, ["get", f2], K, R2],                         # f2 of t1 was parsed (cached) before it is replaced in t2
        [R1, K, R1b],                                     # the same field again
        [K, ["idx", "m_alt"], S2],                        # the table as read, retained: t2 = t[mask]; t2.f2 = w
        [K, ["cat", "tu"], S2],                           # t2 = concatenate([t, u]); t2.f2 = w
    ]


def retained_full(f1, f2, small=False):
    """{ways to make t1} x {keep} x {ways to derive from t1 and go on}"""
    R1, R2, R1b = ["replace", f1, "fresh"], ["replace", f2, "fresh2"], ["replace", f1, "fresh2"]
    S1, S2 = ["set", f1, "fresh"], ["set", f2, "fresh2"]
    S1b, S2a = ["set", f1, "fresh2"], ["set", f2, "fresh"]
    makes = [[], [R1], [S1], [R1, ["get", f2]]]
    if not small:
        makes += [[["get", f2], R1], [["get", f1], S1], [["tolist"], R1], [R1, ["write"]]]
    derives = [
        [R2], [R1b], [R2, S1b], [R2, K, R1b], [R2, ["swapk"], S2a], [R2, ["swapk"], R1b],
        [["idx", "s_tail"]], [["idx", "m_alt"]], [["idx", "i_rev"]], [["idx", "s_tail"], S2], [["idx", "s_tail"], ["write"]],
        [["idx", "s_all"], S2], [["idx", "s_all"], ["swapk"], S2], [["idx", "m_all"], S1b],
        [["cat", "tt"]], [["cat", "tt"], S2], [["cat", "tt"], ["swapk"], S2],
    ]
    for m in makes:
        for d in derives + ([[["cat", "tu"]], [["cat", "ut"], S2]] if not m else []):
            yield m + [K] + d


def retained_chain(f1, f2, f3):
    """chains of three derivations with different fields, every earlier link retained"""
    R1, R2, R3 = ["replace", f1, "fresh"], ["replace", f2, "fresh2"], ["replace", f3, "fresh"]
    return [
        [K, R1, K, R2, K, R3],
        [["set", f1, "fresh"], K, R2, K, R3],
        [K, R1, K, R2, ["set", f3, "fresh"]],
        [R1, K, R2, K, ["idx", "s_tail"], ["set", f3, "fresh"]],
    ]


def field_pairs(fields, which):
    """which = 'rep': the representative pair (two fields of different kinds where there are);
    'kinds': every ordered pair of the representatives of the kinds (int, seqid, str, float);
    'all': every ordered pair of distinct replaceable fields;
    'auto': 'all' if that is at most 20 pairs, else 'kinds'"""
    r = replaceable(fields)
    if len(r) < 2:
        return []
    if which == "rep":
        return [(r[0], r[1])]
    nk = max(2, len(set(k for _, k in fields if k != "other")))
    if which == "auto":
        which = "all" if len(r) * (len(r) - 1) <= 20 else "kinds"
    return list(itertools.permutations(r if which == "all" else r[:nk], 2))


def retained_programs(fields, family, which):
    """family core / full / small (full with fewer ways to make t1) over field_pairs(which); family chain: the
    representative triple ('rep') or every ordered triple (at most 24, else the rotations of the representative
    one and its reverse)"""
    r = replaceable(fields)
    if family == "chain":
        if len(r) < 3:
            return
        triples = [tuple(r[:3])]
        if which != "rep":
            triples = list(itertools.permutations(r, 3))
            if len(triples) > 24:
                triples = [tuple(r[:3]), (r[1], r[2], r[0]), (r[2], r[0], r[1]), (r[2], r[1], r[0])]
        for tr in triples:
            for p in retained_chain(*tr):
                yield p
        return
    for f1, f2 in field_pairs(fields, which):
        for p in (retained_core(f1, f2) if family == "core" else retained_full(f1, f2, small=(family == "small"))):
            yield p


ALLPAIRS_QUICK = ("bed", "bdg", "fastq", "sizes")
SMALL_QUICK = ("bed", "fastq", "bam")
FAMILIES = ("bed", "bdg", "csv", "wig", "gfa", "fastq", "vcf0", "sam", "bam")   # one format per buffer family
ALLPAIRS_FULL = ("bed", "fastq", "fasta2", "sizes", "gfa", "bdg", "bam")
BIG = ("sam", "vcf0")    # 132 and 56 ordered pairs: the representatives of the kinds (sam), every pair last (vcf0)


def plan_retained(tier):
    """-> (tasks in order of priority, samples, seconds); task = (family, which fields, fmt, mode)"""
    cs = {fmt: ["chunk:%d" % c for c in chunk_sizes(fmt)] for fmt in ALL_FORMATS}
    t = []
    if tier == "quick":
        t += [("core", "rep", f, "whole") for f in ALL_FORMATS]
        t += [("core", "all", f, "whole") for f in ALLPAIRS_QUICK]
        t += [("core", "all", f, cs[f][0]) for f in ("bed", "fastq")]
        t += [("core", "rep", f, cs[f][0]) for f in MAIN]
        t += [("chain", "rep", f, "whole") for f in FAMILIES]
        t += [("small", "rep", f, "whole") for f in SMALL_QUICK]
        t += [("chain", "all", "bed", "whole")]
        return t, [], 16
    auto = lambda f: "kinds" if f in BIG else "auto"
    t += [("core", auto(f), f, "whole") for f in ALL_FORMATS]
    t += [("core", auto(f), f, cs[f][0]) for f in ALL_FORMATS]
    t += [("core", "rep", f, cs[f][1]) for f in ALL_FORMATS]
    t += [("chain", "all", f, "whole") for f in ALL_FORMATS]
    t += [("chain", "rep", f, cs[f][0]) for f in ALL_FORMATS]
    t += [("full", "rep", f, "whole") for f in ALL_FORMATS]
    t += [("full", "rep", f, cs[f][0]) for f in MAIN + ("bam",)]
    t += [("full", "all", f, "whole") for f in ALLPAIRS_FULL]
    t += [("core", "all", "vcf0", "whole")]
    return t, [(f, m, 10, 6) for f in ALL_FORMATS for m in ["whole"] + cs[f][:1]], 200


def sample_retained(rng, wide, maxlen):
    """a random program over the wide alphabet (without the exchange of t and u) with one or two keeps in it, the
    first one followed by at least one deriving op, and sometimes a swapk"""
    ops = [o for o in wide if o[0] != "swap"]
    derive = [o for o in ops if o[0] in DERIVING]
    n = rng.randint(3, maxlen - 1)
    prog = [list(rng.choice(ops)) for _ in range(n)]
    i = rng.randint(0, n - 1)
    prog[i:i] = [K, list(rng.choice(derive))]
    if rng.random() < 0.5:
        j = rng.randint(i + 2, len(prog))
        prog[j:j] = [K if rng.random() < 0.5 else ["swapk"]]
    return prog


class Runner:
    def __init__(self, col, tmp):
        self.col, self.tmp = col, tmp
        self.known = {}       # (fmt, mode) -> list of (minimal program, key, signature)
        self.bad_prefix = {}  # (fmt, mode) -> set of program prefixes (as tuples) that diverge at their last op
        self.done = {}        # (fmt, mode) -> set of programs evaluated
        self.envs = {}
        self.fields = {}
        self.no_item = {}
        self.stats = {}

    def env(self, fmt, mode):
        if (fmt, mode) not in self.envs:
            self.envs[(fmt, mode)] = Env(self.tmp, fmt, mode)
        return self.envs[(fmt, mode)]

    def ops(self, fmt, mode, level):
        """the alphabet of one configuration; t[i] is left out of the products where it fails in both modes on the
        table as read (then every program containing it is the program without it)"""
        fm = (fmt, mode)
        if level == "pair":
            return self.ops(fmt, mode, "mini")
        if fm not in self.fields:
            self.fields[fm] = field_names(self.env(fmt, mode))
            st, divs = run_program(self.env(fmt, mode), [["item", "last"]], final=False)
            self.no_item[fm] = (st == "both-fail" and not divs)
        ops = alphabet(self.fields[fm], level)
        if self.no_item[fm]:
            ops = [o for o in ops if o[0] != "item"]
        return ops

    def evaluate(self, fmt, mode, prog, contract):
        col = self.col
        fm = (fmt, mode)
        tprog = tuple(tuple(o) for o in prog)
        done = self.done.setdefault(fm, set())
        if tprog in done:
            return "dup"
        bad = self.bad_prefix.setdefault(fm, set())
        for k in range(1, len(tprog)):
            if tprog[:k] in bad:
                self.stats["pruned"] = self.stats.get("pruned", 0) + 1
                return "pruned"
        done.add(tprog)
        env = self.env(fmt, mode)
        case = {"fmt": fmt, "mode": mode, "prog": [list(o) for o in prog]}
        try:
            status, divs = run_program(env, prog)
        except Exception as e:  # harness problem: report as a failure of its own class, never silently
            import traceback
            col.case(case, contract=contract)
            col.fail("%s:harness-exception:%s" % (plain(fmt), type(e).__name__), case, traceback.format_exc()[-500:])
            return "error"
        self.stats[status] = self.stats.get(status, 0) + 1
        if status == "skip":
            return "skip"
        col.case(case, nontrivial=len(prog) > 0, contract=contract)
        for d in divs:
            if d.step < len(prog) and d.kind != HEADER_ONLY and not getattr(d, "soft", False):
                bad.add(tprog[:d.step + 1])
            sig = collapsed_signature(env, d)
            if sig is not None:
                col.fail(sig, case, "step %d (%s): %s" % (d.step, d.op, d.detail))
                continue
            body = [list(o) for o in (prog[:d.step + 1] if d.step < len(prog) else prog)]
            for mprog, key, msig in self.known.setdefault(fm, []):
                if key == d.key() and is_subsequence(mprog, body):
                    sig = msig
                    break
            if sig is None:
                try:
                    mprog, canon, labels = minimise(env, prog, d)
                except Exception:
                    mprog, canon, labels = body, body, [o[0] for o in body]
                labels = rwr_labels(mprog, labels)
                chunked_only = False
                if is_hdr(fmt):   # does the plain file pair, read as a whole, show it as well?
                    try:
                        chunked_only = False if _has(self.env(plain(fmt), "whole"), canon, d.key()) else "header-files-only"
                    except Exception:
                        chunked_only = "header-files-only"
                elif mode != "whole":
                    try:
                        chunked_only = not _has(self.env(fmt, "whole"), canon, d.key())
                    except Exception:
                        chunked_only = True
                sig = signature(env, labels, d, chunked_only)
                self.known[fm].append((mprog, d.key(), sig))
                mcase = {"fmt": fmt, "mode": mode, "prog": canon, "minimal": mprog, "found_in": [list(o) for o in prog]}
                if any(is_go_write(o) for o in canon):
                    # the program goes on after a diverging write: replay looks for THIS divergence only
                    mcase["divergence"] = [d.where, d.kind]
                col.fail(sig, mcase, "step %d (%s): %s" % (d.step, d.op, d.detail))
                continue
            col.fail(sig, case, "step %d (%s): %s" % (d.step, d.op, d.detail))
        return status


MAIN = ("bed", "fastq", "sam", "vcf0")


def plan(tier):
    """-> (tasks, samples); task = (L, fmt, mode, level): every program of exactly L ops over that alphabet;
    samples = (fmt, mode, n, maxlen)"""
    tasks, samples = [], []
    for fmt in ALL_FORMATS:
        cs = ["chunk:%d" % c for c in chunk_sizes(fmt)]
        if tier == "quick":
            tasks += [(0, fmt, "whole", "wide"), (1, fmt, "whole", "wide")]
            tasks += [(0, fmt, cs[0], "core"), (1, fmt, cs[0], "core")]
            samples += [(fmt, "whole", 8, 4), (fmt, cs[0], 8, 4)]
            tasks.append((2, fmt, "whole", "core" if fmt == "bed" else "mini"))
            if fmt in ("bed", "bdg", "csv", "wig", "gfa", "fastq", "vcf0", "sam", "bam"):   # one per buffer family
                tasks.append((4, fmt, "whole", "pair"))
            if fmt in MAIN:
                tasks.append((2, fmt, cs[0], "mini"))
        else:
            tasks += [(0, fmt, "whole", "wide"), (1, fmt, "whole", "wide"), (0, fmt, cs[0], "wide"), (1, fmt, cs[0], "wide"),
                      (0, fmt, cs[1], "core"), (1, fmt, cs[1], "core")]
            samples += [(fmt, m, 40, 6) for m in ["whole"] + cs]
            tasks.append((2, fmt, "whole", "core"))
            tasks += [(2, fmt, m, "mini") for m in cs]
            tasks += [(4, fmt, m, "pair") for m in ["whole", cs[0]]]
            if fmt not in ("bed6", "bed12", "narrowPeak", "sizes"):   # these share every code path with bed / bdg
                tasks.append((3, fmt, "whole", "mini"))
            if fmt == "bed":
                tasks += [(2, fmt, "whole", "wide"), (3, fmt, "whole", "core"), (4, fmt, "whole", "mini")]
            if fmt in MAIN:
                tasks += [(3, fmt, cs[0], "mini")]
    tasks.sort(key=lambda t: (t[0], t[3] != "pair"))
    return tasks, samples


def run_retained(col, r, tier):
    """the retained-table programs, within their own share of the budget (the tasks are in order of priority)"""
    tasks, samples, seconds = plan_retained(tier)
    info = {"seconds": seconds, "tasks": [], "cut": [], "sampled": []}
    t0 = time.time()
    stop = False
    for family, which, fmt, mode in tasks:
        if stop:
            info["cut"].append([family, which, fmt, mode])
            continue
        contract = "lockstep-retained:%s" % ("whole" if mode == "whole" else "chunked")
        try:
            r.ops(fmt, mode, "mini")
            fields = r.fields[(fmt, mode)]
        except Exception:
            continue   # the read itself fails: reported by the linear part
        n0 = col.evaluations
        for prog in retained_programs(fields, family, which):
            r.evaluate(fmt, mode, [list(o) for o in prog], contract)
            if time.time() - t0 > (0.9 if samples else 1.0) * seconds:   # the sampled part always runs
                stop = True
                col.exhaustive = False
                break
        info["tasks"].append({"family": family, "fields": which, "fmt": fmt, "mode": mode,
                              "evaluated": col.evaluations - n0, "complete": not stop})
    import random
    rng = random.Random("C05-retained-%s" % col.seed)   # its own stream: the linear samples of a seed stay the same
    for fmt, mode, n, maxlen in samples:
        if time.time() - t0 > seconds:
            col.exhaustive = False
            break
        try:
            wide = r.ops(fmt, mode, "wide")
        except Exception:
            continue
        n0 = col.evaluations
        for _ in range(n):
            r.evaluate(fmt, mode, sample_retained(rng, wide, maxlen), "lockstep-retained-sampled")
        info["sampled"].append({"fmt": fmt, "mode": mode, "n": col.evaluations - n0, "len": "5..%d" % (maxlen + 2)})
    info["wall_s"] = round(time.time() - t0, 1)
    info["programs"] = ("core: 10 programs per ordered field pair (f1, f2); full: 8 ways to make t1 (as read, replace f1, "
                        "t.f1 = v, with f1 / f2 parsed before or after, after tolist, after write) x keep x 17 "
                        "derivations (replace f2 / f1 again, t1[slice|mask|int list], concatenate, write of a slice, "
                        "then assignments to the new or, after swapk, to the old table); small: the first 4 ways; "
                        "chain: 4 programs per ordered field triple, every link retained")
    return info


# ----------------------------------------------------------------------------------------------------------------
# second-file family: two files of one format with different headers, read one after the other in this process
# ----------------------------------------------------------------------------------------------------------------
# The lazy class carries the header of the file (the header bytes of a write);
# whatever is remembered per process, per buffer type or per reader must not leak from one file into the table of
# another.  Read modes (Env._read_seq): "seq:<how1>><how2>:<order>" - the first file of the order (AB: file A then
# file B, BA: the other way round) is read with how1, then the second one with how2 (read = whole read, chunk =
# one read_chunk, chunks = all read_chunks, the last chunk kept); t = the table of the file read SECOND, u = the
# table of the file read first (so [swap] observes the first table after the second read).  "inter:<order>" - both
# readers open, a chunk of the first file, a chunk of the other file, then the next chunk of the first file = t.
# "whole" and "chunk:<n>" as for the plain files (t = file A, u = file B read after it; first and last chunk of the
# one file AB).  The same lock-step oracle over the operations of the statement: the header is observed through the
# written bytes (get_context is not an operation of the property).

HOWS = ("read", "chunk", "chunks")
SEQ_MODES = ["seq:%s>%s:%s" % (a, b, o) for o in ("AB", "BA") for a in HOWS for b in HOWS] + ["inter:AB", "inter:BA"]
SEQ_MAIN = ["seq:read>read:AB", "seq:read>read:BA", "seq:chunk>read:AB", "seq:read>chunk:AB", "seq:chunks>chunks:BA",
            "inter:AB"]
SECOND_TWO = ("bed+hdr", "sam+hdr", "vcf0+hdr", "bam+hdr")
SECOND_FAMILIES = [f + HDR for f in ("bed", "bdg", "wig", "gfa", "pairs", "vcf0", "vcf", "sam", "bam")]   # one per buffer family


def second_ops(fields):
    names = [f for f, _ in fields]
    r = replaceable(fields)
    ops = [["write"], ["get", names[0]], ["tolist"]] + \
          [["idx", x] for x in ("s_tail", "m_alt", "i_rev", "s_all")] + \
          [["swap"], ["cat", "tu"], ["cat", "ut"], ["cat", "tt"]]
    if r:
        ops += [["replace", r[0], "fresh"], ["set", r[0], "fresh2"]]
    return ops


def second_programs(fields, level):
    """mini: the table as read (full observation), write first, t[1:], the first table after the second read;
    one: every program of at most one op of second_ops; two: every program of exactly two"""
    if level == "mini":
        return [[], [["write"]], [["idx", "s_tail"]], [["swap"]]]
    ops = second_ops(fields)
    if level == "one":
        return [[]] + [[o] for o in ops]
    return [[a, b] for a in ops for b in ops if not redundant([a, b])]


def plan_second(tier):
    """-> (tasks in order of priority, seconds); task = (level, fmt, mode)"""
    cs = {f: "chunk:%d" % chunk_sizes(f)[0] for f in ALL_HDR_FORMATS}
    if tier == "quick":
        t = [("one" if f in SECOND_FAMILIES else "mini", f, "seq:read>read:AB") for f in ALL_HDR_FORMATS]
        t += [("mini", f, m) for m in SEQ_MAIN[1:] for f in SECOND_FAMILIES]
        return t, 12
    t = [("one", f, m) for m in SEQ_MAIN for f in ALL_HDR_FORMATS]
    t += [("mini", f, m) for m in SEQ_MODES if m not in SEQ_MAIN for f in ALL_HDR_FORMATS]
    t += [("mini", f, m) for f in ALL_HDR_FORMATS for m in ("whole", cs[f])]
    t += [("two", f, "seq:read>read:AB") for f in SECOND_TWO]
    return t, 70


def run_second(col, r, tier):
    tasks, seconds = plan_second(tier)
    info = {"formats": ALL_HDR_FORMATS, "seconds": seconds, "tasks": [], "cut": [],
            "headers": "file A and file B of a format start with different header / comment lines (another text, "
                       "another number of lines; BAM: another text and reference list), file AB has those of A",
            "modes": "seq:<how1>><how2>:<AB|BA> (how = read | chunk | chunks), inter:<AB|BA>, whole, chunk:<n>",
            "programs": "mini: 4 programs (as read, write, t[1:], swap); one: at most one op of 11-13 ("
                        "write, get, tolist, 4 index kinds, swap, 3 concatenations, replace, assignment); two: every "
                        "pair of them; always followed by the full observation (len, fields, tolist, written bytes)"}
    t0 = time.time()
    stop = False
    for level, fmt, mode in tasks:
        if stop or time.time() - t0 > seconds:
            stop = True
            col.exhaustive = False
            info["cut"].append([level, fmt, mode])
            continue
        contract = "second-file:%s" % mode.split(":")[0]
        env = r.env(fmt, mode)
        try:
            if (fmt, mode) not in r.fields:
                r.fields[(fmt, mode)] = field_names(env)
                r.no_item[(fmt, mode)] = False
            fields = r.fields[(fmt, mode)]
        except Exception as e:
            case = {"fmt": fmt, "mode": mode, "prog": []}
            col.case(case, contract="read")
            col.fail("%s:second-file:eager-read-fails:%s" % (plain(fmt), type(e).__name__), case, str(e)[:300])
            continue
        n0 = col.evaluations
        for prog in second_programs(fields, level):
            r.evaluate(fmt, mode, [list(o) for o in prog], contract)
        info["tasks"].append({"level": level, "fmt": fmt, "mode": mode, "evaluated": col.evaluations - n0})
    info["wall_s"] = round(time.time() - t0, 1)
    return info


# ----------------------------------------------------------------------------------------------------------------
# read / write / read interleavings on a row selection (run_rwr)
# ----------------------------------------------------------------------------------------------------------------
# s = t[row selection]; read field A of s; write s; read field B of s (and of t).  A write of a selection may
# compact / re-lay the raw buffer of the lazy table; whatever was memoised by the first read (parsed columns,
# offset tables of the buffer) must not be used for the old layout afterwards.  The write is ["write", "go"]: the
# history goes on when the write itself diverges (for some formats the eager write fails, a divergence of its own).
#   single : [keep, t[X], get A, write]                    + full observation of s (every field B, in declaration
#                                                            order, tolist, a second write) and of the retained t
#   pair   : [keep, t[X], get A, write, get B]             B read first after the write; every ordered pair A != B
#   pair0  : [t[X], get A, write, get B]                   the same without the retained table (the wide formats)
#   parent : [get A, keep, t[X], write, get B]             A was parsed in t, s inherits the parsed column
#   old    : [keep, t[X], get A, write, swapk, get B]      B of t (the table s was selected from) first
#   wrw    : [t[X], write, get A, write, get B]            a second write after the first read
# over every field of the format (also the ones that cannot be replaced), X in slice / mask / int list.

GO = ["write", "go"]
RWR_SELECTIONS = ("m_alt", "s_tail", "i_rev")


def rwr_programs(names, template, sel):
    X = ["idx", sel]
    if template == "single":
        for a in names:
            yield [K, X, ["get", a], GO]
        return
    for a, b in itertools.permutations(names, 2):
        A, B = ["get", a], ["get", b]
        if template == "pair":
            yield [K, X, A, GO, B]
        elif template == "pair0":
            yield [X, A, GO, B]
        elif template == "parent":
            yield [A, K, X, GO, B]
        elif template == "old":
            yield [K, X, A, GO, ["swapk"], B]
        elif template == "wrw":
            yield [X, GO, A, GO, B]
        else:
            raise ValueError(template)


RWR_SMALL = ("bed", "bdg", "sizes", "gfa", "wig", "csv", "fastq", "fasta2", "bed.gz", "gff", "fasta")   # <= 9 fields


def plan_rwr(tier):
    """-> (tasks in order of priority, seconds); task = (template, selection, fmt, mode)"""
    every = ALL_FORMATS + ALL_DECISION_FORMATS
    cs = {f: "chunk:%d" % chunk_sizes(f)[0] for f in every}
    t = []
    if tier == "quick":
        t += [("single", "m_alt", f, "whole") for f in every]
        t += [("pair", "s_tail", "bam", "whole")]
        t += [("pair", "s_tail", f, "whole") for f in ("bed", "fastq", "fasta2", "sizes", "gfa", "csv", "fasta")]
        t += [("single", x, "bam", "whole") for x in ("s_tail", "i_rev")]
        return t, 9   # the plan takes about 4.5 s
    rest = [f for f in every if f not in ("bam",) + RWR_SMALL]
    t += [("single", x, f, "whole") for x in RWR_SELECTIONS for f in every]
    t += [("pair", "s_tail", f, "whole") for f in ("bam",) + RWR_SMALL]
    t += [("pair", x, "bam", "whole") for x in ("m_alt", "i_rev")]
    t += [(tpl, "s_tail", "bam", "whole") for tpl in ("old", "parent", "wrw")]
    t += [("single", "m_alt", f, cs[f]) for f in every]
    t += [("pair", "s_tail", "bam", cs["bam"])]
    t += [("pair0", "s_tail", f, "whole") for f in rest]
    return t, 40   # the plan takes about 30 s


def run_rwr(col, r, tier):
    tasks, seconds = plan_rwr(tier)
    info = {"seconds": seconds, "tasks": [], "cut": [],
            "programs": "single: [keep, t[X], get A, write] per field A; pair: [keep, t[X], get A, write, get B] per "
                        "ordered pair of distinct fields (pair0: without keep); parent: [get A, keep, t[X], write, get B]; old: [keep, t[X], "
                        "get A, write, swapk, get B]; wrw: [t[X], write, get A, write, get B]; X = mask / slice / int "
                        "list; the write does not end the program when it diverges; always followed by the full "
                        "observation of the selection and of the retained table"}
    t0 = time.time()
    stop = False
    for template, sel, fmt, mode in tasks:
        if stop:
            info["cut"].append([template, sel, fmt, mode])
            continue
        contract = "read-write-read:%s" % ("whole" if mode == "whole" else "chunked")
        try:
            r.ops(fmt, mode, "mini")
            names = [f for f, _ in r.fields[(fmt, mode)]]
        except Exception:
            continue   # the read itself fails: reported by the linear part / the decision part
        n0 = col.evaluations
        for prog in rwr_programs(names, template, sel):
            r.evaluate(fmt, mode, [list(o) for o in prog], contract)
            if time.time() - t0 > seconds:
                stop = True
                col.exhaustive = False
                break
        info["tasks"].append({"template": template, "selection": sel, "fmt": fmt, "mode": mode,
                              "evaluated": col.evaluations - n0, "complete": not stop, "at_s": round(time.time() - t0, 1)})
    info["wall_s"] = round(time.time() - t0, 1)
    return info


# ----------------------------------------------------------------------------------------------------------------
# formats the lazy/eager decision reads eagerly (DECISION_FORMATS): the same lock-step programs
# ----------------------------------------------------------------------------------------------------------------
DECISION_HDR_FORMATS = ["gff" + HDR, "gtf" + HDR]   # '#' comment lines before the first record, different in A and B
DECISION_FAMILIES = ("gff", "gtf", "fasta")          # one format per buffer class


def plan_decision(tier):
    """-> (linear tasks (L, fmt, mode, level), further linear tasks run last, as far as the time goes, retained tasks
    (family, which, fmt, mode), second-file tasks (level, fmt, mode), samples (fmt, mode, n, maxlen), seconds)"""
    lin, ret, sec, samples, extra = [], [], [], [], []
    for fmt in ALL_DECISION_FORMATS:
        cs = ["chunk:%d" % c for c in chunk_sizes(fmt)]
        if tier == "quick":
            fam = fmt in DECISION_FAMILIES
            lin += [(0, fmt, "whole", "wide"), (1, fmt, "whole", "wide" if fam else "core"),
                    (0, fmt, cs[0], "core"), (1, fmt, cs[0], "core" if fam else "mini")]
            if fam:
                ret += [("core", "rep", fmt, "whole")]
            if fmt in ("gff", "fasta"):
                lin += [(4, fmt, "whole", "pair")]
            samples += [(fmt, "whole", 4, 4), (fmt, cs[0], 2, 4)]
        else:
            fam = fmt in DECISION_FAMILIES
            lin += [(0, fmt, m, "wide") for m in ["whole"] + cs] + [(1, fmt, "whole", "wide")]
            lin += [(1, fmt, cs[0], "wide" if fam else "core"), (1, fmt, cs[1], "core")]
            lin += [(2, fmt, "whole", "mini"), (4, fmt, "whole", "pair")]
            if fam:
                lin += [(2, fmt, cs[0], "mini"), (4, fmt, cs[0], "pair")]
            if fmt == "gff":
                extra += [(2, fmt, "whole", "core")]
            ret += [("core", "kinds" if fam else "rep", fmt, "whole"), ("core", "rep", fmt, cs[0])]
            if fam:
                ret += [("chain", "rep", fmt, "whole")]
            samples += [(fmt, m, 12, 6) for m in ["whole"] + cs[:1]]
    lin.sort(key=lambda t: (t[0], t[3] != "pair"))
    for fmt in DECISION_HDR_FORMATS:
        sec += [("one", fmt, "seq:read>read:AB"), ("mini", fmt, "seq:read>read:BA")]
        if tier != "quick":
            sec += [("mini", fmt, m) for m in SEQ_MAIN[2:]]
    return lin, extra, ret, sec, samples, (9 if tier == "quick" else 30)   # the plans take about 5 s / 23 s


def run_decision(col, r, tier):
    """the linear, retained, second-file and sampled programs over the formats that the reader's decision keeps
    eager, within their own budget; the sampled programs use their own random stream"""
    lin, extra, ret, sec, samples, seconds = plan_decision(tier)
    info = {"formats": ALL_DECISION_FORMATS, "formats_with_header_lines": DECISION_HDR_FORMATS, "seconds": seconds,
            "chunk_sizes": {f: chunk_sizes(f) for f in ALL_DECISION_FORMATS},
            "records": "file A 4, file B 2, chunked file 6 (A+B)",
            "exhaustive": [], "retained": [], "second_file": [], "sampled": [], "cut": []}
    t0 = time.time()
    over = lambda share=1.0: time.time() - t0 > share * seconds

    def linear(tasks, share):
        for L, fmt, mode, level in tasks:
            contract = "decision:lockstep:%s" % ("whole" if mode == "whole" else "chunked")
            try:
                ops = r.ops(fmt, mode, level)
            except Exception as e:
                case = {"fmt": fmt, "mode": mode, "prog": []}
                col.case(case, contract="read")
                col.fail("%s:eager-read-fails:%s" % (fmt, type(e).__name__), case, str(e)[:300])
                continue
            if over(share):
                col.exhaustive = False
                info["cut"].append([L, fmt, mode, level])
                continue
            n0 = col.evaluations
            complete = True
            for prog in (pair_programs(ops) if level == "pair" else itertools.product(ops, repeat=L)):
                if not redundant(prog):
                    r.evaluate(fmt, mode, [list(o) for o in prog], contract)
                    if col.evaluations % 20 == 0 and over(share):
                        complete = False
                        col.exhaustive = False
                        break
            info["exhaustive"].append({"len": L, "fmt": fmt, "mode": mode, "alphabet": level, "n_ops": len(ops),
                                       "evaluated": col.evaluations - n0, "complete": complete,
                                       "at_s": round(time.time() - t0, 1)})

    linear(lin, 0.7)
    for family, which, fmt, mode in ret:
        if over(0.8) or (fmt, mode) not in r.fields:
            col.exhaustive = False
            info["cut"].append([family, which, fmt, mode])
            continue
        n0 = col.evaluations
        for prog in retained_programs(r.fields[(fmt, mode)], family, which):
            r.evaluate(fmt, mode, [list(o) for o in prog], "decision:lockstep-retained")
        info["retained"].append({"family": family, "fields": which, "fmt": fmt, "mode": mode,
                                 "evaluated": col.evaluations - n0})
    for level, fmt, mode in sec:
        if over(0.9):
            col.exhaustive = False
            info["cut"].append([level, fmt, mode])
            continue
        try:
            if (fmt, mode) not in r.fields:
                r.fields[(fmt, mode)] = field_names(r.env(fmt, mode))
                r.no_item[(fmt, mode)] = False
        except Exception as e:
            case = {"fmt": fmt, "mode": mode, "prog": []}
            col.case(case, contract="read")
            col.fail("%s:second-file:eager-read-fails:%s" % (plain(fmt), type(e).__name__), case, str(e)[:300])
            continue
        n0 = col.evaluations
        for prog in second_programs(r.fields[(fmt, mode)], level):
            r.evaluate(fmt, mode, [list(o) for o in prog], "decision:second-file")
        info["second_file"].append({"level": level, "fmt": fmt, "mode": mode, "evaluated": col.evaluations - n0})
    import random
    rng = random.Random("C05-decision-%s" % col.seed)
    for fmt, mode, n, maxlen in samples:
        if over():
            col.exhaustive = False
            break
        try:
            wide = r.ops(fmt, mode, "wide")
        except Exception:
            continue
        n0 = col.evaluations
        for _ in range(n):
            prog = [list(rng.choice(wide)) for _ in range(rng.randint(3, maxlen))]
            r.evaluate(fmt, mode, prog, "decision:lockstep-sampled")
        info["sampled"].append({"fmt": fmt, "mode": mode, "n": col.evaluations - n0, "len": "3..%d" % maxlen})
    linear(extra, 1.0)   # the longer exhaustive products: as far as the time goes
    info["wall_s"] = round(time.time() - t0, 1)
    return info


# ----------------------------------------------------------------------------------------------------------------
# typed VCF INFO values of selected / reordered rows (run_info)
# ----------------------------------------------------------------------------------------------------------------
# A VCF whose header declares typed INFO keys (##INFO=<ID=..,Number=..,Type=Integer|Float|Flag|String>) is read with
# INFO as a table of typed columns (t.info.DP, t.info.AF, t.info.DB ...).  The records need not carry every declared
# key: a Flag is present or not, any other key may be missing, the whole INFO column may be "." (VCF specification,
# section 1.6.1 #8).  The typed columns are sliced out of the INFO text of the rows the table holds NOW, so after a
# row selection that reorders rows (unsorted integer lists, reversed slices, chains of selections) the first access
# of info.<key> must still give the value of each selected row - in both read modes.
# Histories: read (whole / one chunk of a chunked read / the concatenation of all chunks; lazy and eager) ; a chain
# of 1-3 row selections of the table (where = table), of the INFO table itself (t.info[rows], where = info), or of
# the table after the INFO key was read from the unselected parent (where = table-pre) ; then every declared key
# of the selection's INFO, the key named "first" first (each key is the first one read in some case).
# Oracle: an independent reference from the specification - the INFO text this file wrote, split at ';' and '=',
# int() / float() / presence / text per declared Type, for the file rows that Python list indexing selects.  Where a
# record has the key (and for every Flag) BOTH modes must give the reference value; where the key is missing the
# specification gives no value, so only lazy == eager is required there (the statement of the property).
# Signatures (none of them is shared with the lock-step programs above):
#     vcf-info:<rows>:<types>:<verdict>
# rows = rows-in-file-order | rows-repeated (non-decreasing, some row twice) | rows-reordered; types = the Type of the
# keys that are wrong in this case (Integer | Float | Flag | String) or several-types; verdict = eager-wrong |
# lazy-wrong | both-wrong (value other than the reference, other number of rows, or the access raises) |
# modes-differ-where-key-absent; <types> = read-or-select when reading / selecting itself fails.

INFO_TYPES = {"DP": "Integer", "AF": "Float", "DB": "Flag", "AA": "String", "MQ": "Integer", "FS": "Float", "H2": "Flag",
              "GN": "String"}
INFO_FILES = {   # name -> (declared keys in header order, INFO column of the records); floats exactly representable
    # the three valued keys in every record, the Flag in some (first record with it, last one without)
    "flag": (("DP", "AF", "DB", "AA"),
             ["DP=10;AF=0.5;DB;AA=T", "DP=7;AF=0.25;AA=G", "DP=123;AF=1.0;DB;AA=C", "DP=1;AF=0.125;AA=A",
              "DP=2000;AF=0.75;DB;AA=T", "DP=55;AF=2.5;AA=GG"]),
    # first record without the Flag, last one with it; the Flag in the middle of the record / at its end
    "flag2": (("DP", "DB", "AF", "AA"),
              ["DP=3;AF=0.5;AA=TT", "DB;DP=41;AF=0.25;AA=G", "DP=1234;DB;AF=8.0;AA=C", "DP=9;AF=0.125;AA=A",
               "DP=20;AF=0.75;AA=T", "DP=555;AF=2.5;AA=GGA;DB"]),
    # an optional Integer (last key / first key of the record), a Flag that is declared and never present
    "optint": (("DP", "AF", "DB", "AA", "MQ"),
               ["DP=10;AF=0.5;AA=T", "DP=7;AF=0.25;AA=G;MQ=3", "DP=123;AF=1.0;AA=C", "MQ=60;DP=1;AF=0.125;AA=A",
                "DP=2000;AF=0.75;AA=T", "DP=55;AF=2.5;AA=GG;MQ=7", "DP=8;AF=4.0;AA=ACG"]),
    # every combination of three optional keys (Integer, Flag, String): record i has key k iff bit k of i is set
    "combos": (("DP", "MQ", "DB", "AA"),
               [";".join(["DP=%d" % (3 ** i)] + [x for k, x in enumerate(("MQ=%d" % (7 * i + 1), "DB", "AA=" + "ACGT"[:1 + i % 4]))
                                                 if i >> k & 1]) for i in range(8)]),
    # every key missing somewhere, a record without INFO ("."), records of one Flag only, keys in varying order
    "sparse": (("DP", "AF", "DB", "AA", "MQ", "FS", "H2", "GN"),
               ["DP=10;AF=0.5;DB;AA=T", "MQ=3;DP=7;AA=G;GN=abc", ".", "H2", "DP=2000;AF=0.75;DB;AA=T;FS=1.5;H2",
                "GN=x;AF=2.5;MQ=7", "DB", "AA=ACGT;FS=-0.25"]),
    # optional Float and String; the last record ends with a two-letter Flag, the first one is a Flag only
    "optfloat": (("H2", "FS", "GN", "DP"),
                 ["H2", "FS=0.5;DP=1", "GN=gene1;DP=22", "FS=-1.25;GN=g;DP=333;H2", "DP=4444", "GN=longer_name;FS=16.0",
                  "DP=5;H2"]),
}


def _info_header(keys):
    out = b"##fileformat=VCFv4.2\n"
    for k in keys:
        tp = INFO_TYPES[k]
        out += ('##INFO=<ID=%s,Number=%s,Type=%s,Description="%s of the site">\n' % (k, "0" if tp == "Flag" else "1", tp, k)).encode()
    return out + VCF_COLUMNS


def info_file_bytes(name):
    keys, infos = INFO_FILES[name]
    rows = [("chr%d" % (1 + i // 3), 1000 * (i + 1) + i, "rs%d" % (7 ** i % 1000), "ACGT"[i % 4], ("GA", "CAA", "TC")[i % 3],
             ".", ("PASS", ".", "q10")[i % 3], s) for i, s in enumerate(infos)]
    return _info_header(keys) + _tsv(rows)


def info_reference(text):
    """one INFO column value -> {key: text value | True}, from the specification: ';'-separated key[=value], '.' = none"""
    out = {}
    if text != ".":
        for item in text.split(";"):
            k, eq, v = item.partition("=")
            out[k] = v if eq else True
    return out


def info_expected(key, rec):
    """-> (the specification gives a value, that value as norm_column shows it)"""
    tp = INFO_TYPES[key]
    if tp == "Flag":
        return True, key in rec
    if key not in rec:
        return False, None
    return True, {"Integer": int, "Float": lambda x: repr(float(x)), "String": str}[tp](rec[key])


def info_selection(name, n):
    """a named row selection for a table of n rows -> JSON spec [kind, value], None if not applicable; the
    selections never give an empty table (the empty table is a region of its own in the programs above)"""
    import random
    half = n // 2
    if n < 2:
        return None
    p = name.split(":")
    if p[0] == "pick":                    # explicit rows
        rows = [int(x) for x in p[1:]]
        return ["list", rows] if max(rows) < n else None
    if p[0] == "perm":                    # a seeded permutation of all rows
        rows = list(range(n))
        random.Random("C05-info-perm-%s" % p[1]).shuffle(rows)
        return ["list", rows]
    table = {
        "rev": ["slice", [None, None, -1]],
        "rev2": ["slice", [None, None, -2]],
        "rev_mid": ["slice", [n - 2, 0, -1]] if n >= 3 else None,
        "rev_neg": ["slice", [-1, -4, -1]],
        "tail": ["slice", [1, None, None]],
        "step": ["slice", [None, None, 2]],
        "mask_alt": ["mask", [i % 2 == 0 for i in range(n)]],
        "mask_nofirst": ["mask", [i != 0 for i in range(n)]],
        "l_sorted": ["list", sorted(set([0, half, n - 1]))],
        "l_dup_sorted": ["list", [0, 0, half, n - 1, n - 1]],
        "l_053": ["list", [0, n - 1, half]] if n >= 3 else None,      # 6 rows: t[[0, 5, 3]]
        "l_last_first": ["list", [n - 1, 0]],
        "l_swap01": ["list", [1, 0]],
        "l_rot": ["list", list(range(half, n)) + list(range(half))],
        "l_zig": ["list", [(i // 2) if i % 2 == 0 else n - 1 - i // 2 for i in range(n)]],
        "l_rev": ["list", list(range(n - 1, -1, -1))],
        "l_neg": ["list", [-1, 0, -2]],
        "l_dup": ["list", [0, 0, n - 1, 1, 1]],
        "a_053": ["array", [0, n - 1, half]] if n >= 3 else None,
        "a_rev": ["array", list(range(n - 1, -1, -1))],
        "a_neg": ["array", [-2, -1, 0]],
    }
    return table[name]


INFO_CONTROLS = ("tail", "step", "mask_alt", "mask_nofirst", "l_sorted", "l_dup_sorted")            # file order kept
INFO_REORDER = ("l_053", "rev", "l_last_first", "l_rot", "a_053", "rev2", "l_zig", "l_neg", "l_dup", "rev_mid",
                "l_swap01", "l_rev", "rev_neg", "a_rev", "a_neg")
INFO_CHAIN = ("rev", "l_053", "step", "mask_nofirst", "l_rot", "tail")     # the links of the chains of selections


def sel_object(spec):
    import numpy as np
    kind, v = spec
    if kind == "slice":
        return slice(*v)
    if kind == "list":
        return list(v)
    if kind == "array":
        return np.array(v, dtype=int)
    return np.array(v, dtype=bool)


def sel_reference(spec, rows):
    """the same selection on a plain Python list of file row numbers"""
    kind, v = spec
    if kind == "slice":
        return rows[slice(*v)]
    if kind == "mask":
        return [r for r, m in zip(rows, v) if m]
    return [rows[i] for i in v]


def rows_class(rows):
    if all(a < b for a, b in zip(rows, rows[1:])):
        return "rows-in-file-order"
    if all(a <= b for a, b in zip(rows, rows[1:])):
        return "rows-repeated"
    return "rows-reordered"


def info_path(tmp, name):
    p = os.path.join(tmp, "info_%s.vcf" % name)
    if not os.path.exists(p):
        with open(p, "wb") as f:
            f.write(info_file_bytes(name))
    return p


def info_chunk_size(name):
    keys, infos = INFO_FILES[name]
    return max((len(info_file_bytes(name)) - len(_info_header(keys))) // 3, 8)


def _info_observe(path, lazy, case):
    """the history of one case in one read mode -> {"rows": file rows the reference selects, "sels": the concrete
    selections, "pre": outcome of the key read from the parent | None, "cols": [(key, outcome)]}"""
    import numpy as np
    import bionumpy as bnp
    keys, infos = INFO_FILES[case["file"]]
    mode = case["mode"]
    if mode == "whole":
        with bnp.open(path, lazy=(None if lazy else False)) as f:   # the lazy side of the whole read is the default
            t = f.read()
        rows = list(range(len(infos)))
    else:
        with bnp.open(path, lazy=lazy) as f:
            chunks = list(f.read_chunks(min_chunk_size=info_chunk_size(case["file"])))
        lens = [len(c) for c in chunks]
        if sum(lens) != len(infos) or len(chunks) < 2:
            raise ValueError("chunks of %r rows for a file of %d records" % (lens, len(infos)))
        if mode == "cat":
            t, rows = np.concatenate(chunks), list(range(len(infos)))
        else:
            k = 0 if mode == "chunk:first" else len(chunks) - 1
            t, rows = chunks[k], list(range(sum(lens[:k]), sum(lens[:k + 1])))
    first = case["first"]
    order = list(keys[keys.index(first):]) + list(keys[:keys.index(first)])
    out = {"pre": None, "pre_rows": list(rows), "sels": []}
    where = case["where"]
    if where == "table-pre":
        out["pre"] = _outcome(lambda: norm_column(getattr(t.info, first)))
    cur = t.info if where == "info" else t
    for name in case["chain"]:
        spec = info_selection(name, len(rows))
        if spec is None or not sel_reference(spec, rows):
            raise Skip()
        out["sels"].append(spec)
        rows = sel_reference(spec, rows)
        cur = cur[sel_object(spec)]
    info = cur if where == "info" else cur.info
    out["rows"] = rows
    out["cols"] = [(k, _outcome(lambda: norm_column(getattr(info, k)))) for k in order]
    return out


def _info_wrong(key, outcome, rows, recs):
    """None if the column agrees with the reference on every row where the specification gives a value, else what
    is wrong"""
    if outcome[0] == "exc":
        return "raises %s(%s)" % (outcome[1], outcome[2])
    col = outcome[1]
    if not isinstance(col, list) or len(col) != len(rows):
        return "%r: not one value per selected row (%d rows)" % (_short(col), len(rows))
    exp = [info_expected(key, recs[r]) for r in rows]
    bad = [j for j, (has, v) in enumerate(exp) if has and col[j] != v]
    if bad:
        j = bad[0]
        return "row %d of the selection (file row %d, INFO %r): %r, reference %r; column %r" % (
            j, rows[j], info_text(recs[rows[j]]), col[j], exp[j][1], _short(col))
    return None


def info_text(rec):
    return ";".join(k if v is True else "%s=%s" % (k, v) for k, v in rec.items()) or "."


def info_eval(tmp, case):
    """-> None (the case is not applicable) | [(signature, message)] - empty: the contract holds"""
    keys, infos = INFO_FILES[case["file"]]
    recs = [info_reference(s) for s in infos]
    path = info_path(tmp, case["file"])
    obs = {}
    for m, lazy in (("eager", False), ("lazy", True)):
        try:
            obs[m] = ("ok", _info_observe(path, lazy, case))
        except Skip:
            return None
        except Exception as e:
            obs[m] = ("exc", type(e).__name__, str(e)[:200])
    fails = []
    okm = [m for m in ("eager", "lazy") if obs[m][0] == "ok"]
    rows = obs[okm[0]][1]["rows"] if okm else []
    cls = rows_class(rows) if okm else ("rows-reordered" if any(n not in INFO_CONTROLS for n in case["chain"])
                                        else "rows-in-file-order")
    if len(okm) < 2:
        verdict = "both-wrong" if not okm else ("eager-wrong" if "lazy" in okm else "lazy-wrong")
        fails.append(("vcf-info:%s:read-or-select:%s" % (cls, verdict),
                      "; ".join("%s: %s" % (m, "ok" if obs[m][0] == "ok" else "%s(%s)" % obs[m][1:]) for m in obs)))
        if not okm:
            return fails
    wrong = {m: {} for m in okm}
    for m in okm:
        o = obs[m][1]
        if o["pre"] is not None:
            w = _info_wrong(case["first"], o["pre"], o["pre_rows"], recs)
            if w:
                wrong[m][case["first"]] = "read from the parent before the selection: " + w
        for k, outcome in o["cols"]:
            w = _info_wrong(k, outcome, o["rows"], recs)
            if w and k not in wrong[m]:
                wrong[m][k] = w
    absent = {}
    if len(okm) == 2 and obs["eager"][1]["rows"] == obs["lazy"][1]["rows"]:
        for (k, eo), (_, lo) in zip(obs["eager"][1]["cols"], obs["lazy"][1]["cols"]):
            if k not in wrong["eager"] and k not in wrong["lazy"] and eo[1] != lo[1]:
                absent[k] = "lazy %r != eager %r" % (_short(lo[1]), _short(eo[1]))
    # region of its own: the selection is ONE record whose INFO has no key=value item (a Flag only, or "."), so the
    # INFO text of the whole table is shorter than "<key>=" - one signature per verdict whatever the selection / key
    region = None
    if len(rows) == 1 and not any(v is not True for v in recs[rows[0]].values()):
        region = "single-record-without-valued-key"
    e, l = wrong.get("eager", {}), wrong.get("lazy", {})
    groups = (("eager-wrong", {k: v for k, v in e.items() if k not in l}),
              ("lazy-wrong", {k: v for k, v in l.items() if k not in e}),
              ("both-wrong", {k: "eager: %s | lazy: %s" % (e[k], l[k]) for k in e if k in l}),
              ("modes-differ-where-key-absent", absent))
    sels = obs[okm[0]][1]["sels"]
    for verdict, g in groups:
        if g:
            types = sorted(set(INFO_TYPES[k] for k in g))
            sig = "vcf-info:%s:%s:%s" % (cls, types[0] if len(types) == 1 else "several-types", verdict)
            if region:
                sig = "vcf-info:%s:%s" % (region, verdict)
            fails.append((sig,
                          "selections %s -> file rows %s; %s" % (json_short(sels), rows, "; ".join(
                              "info.%s %s" % (k, g[k]) for k in keys if k in g))))
    return fails


def json_short(x):
    import json
    return json.dumps(x, separators=(",", ":"))


def plan_info(tier):
    """-> (cases in order of priority, seconds); case = {family, file, mode, where, chain, first}"""
    files = list(INFO_FILES)
    out, seen = [], set()

    def add(file, mode, where, chain, first):
        keys = INFO_FILES[file][0]
        for f in (keys if first == "every" else [keys[first % len(keys)]]):
            c = {"family": "vcf-info", "file": file, "mode": mode, "where": where, "chain": list(chain), "first": f}
            key = json_short(c)
            if key not in seen:
                seen.add(key)
                out.append(c)

    single = INFO_REORDER + INFO_CONTROLS
    pairs = [(a, b) for a in INFO_CHAIN for b in INFO_CHAIN if a != b or a in ("rev", "l_053", "l_rot")]
    if tier == "quick":
        for i, f in enumerate(files):
            for j, s in enumerate(INFO_REORDER + (INFO_CONTROLS if i % 2 == 0 else ())):
                add(f, "whole", "table", [s], i + j)   # the key read first rotates: every key is the first one somewhere
            add(f, "whole", "table", [], i)
        for i, f in enumerate(("sparse", "flag")):
            for j, s in enumerate(INFO_REORDER[:4]):
                add(f, "whole", "info", [s], i + j + 1)
                add(f, "whole", "table-pre", [s], i + j + 2)
        for i, f in enumerate(("sparse", "combos")):
            for m in ("chunk:first", "chunk:last", "cat"):
                for j, s in enumerate(("rev", "l_053", "step")):
                    add(f, m, "table", [s], i + j)
        for j, ch in enumerate(pairs):
            add("sparse", "whole", "table", ch, j)
        for i, f in enumerate(("sparse", "optfloat")):   # every single row (a record of one Flag / "." alone in the table)
            for a in range(len(INFO_FILES[f][1])):
                add(f, "whole", "table", ["pick:%d" % a], i + a)
        return out, 20     # the plan takes about 8 s
    every = ("flag", "optint", "sparse", "optfloat")     # every declared key is the one read first
    triple = ("rev", "l_053", "mask_nofirst", "l_rot")
    for i, f in enumerate(files):
        for j, s in enumerate(INFO_REORDER):
            add(f, "whole", "table", [s], "every" if f in every else i + j)
        for j, s in enumerate(INFO_CONTROLS):
            add(f, "whole", "table", [s], i + j)
        add(f, "whole", "table", [], "every")
    for i, f in enumerate(files):
        n = len(INFO_FILES[f][1])
        for j, s in enumerate(INFO_REORDER[:8]):
            add(f, "whole", "info", [s], i + j + 1)
            add(f, "whole", "table-pre", [s], i + j + 2)
            for m in ("chunk:first", "chunk:last", "cat"):
                add(f, m, "table", [s], i + j)
        for a in range(n):                       # every single row
            add(f, "whole", "table", ["pick:%d" % a], i + a)
        for j in range(4):
            add(f, "whole", "table", ["perm:%d" % j], i + j)
    for i, f in enumerate(("flag", "optint", "sparse")):
        n = len(INFO_FILES[f][1])
        for j, ch in enumerate(pairs):
            add(f, "whole", "table", ch, i + j)
        for a in range(n):                       # every ordered pair of rows
            for b in range(n):
                if a != b:
                    add(f, "whole", "table", ["pick:%d:%d" % (a, b)], a + b)
    for j, tr in enumerate(itertools.permutations(range(len(INFO_FILES["flag"][1])), 3)):
        add("flag", "whole", "table", ["pick:%d:%d:%d" % tr], j)      # every ordered triple of distinct rows
    for j, ch in enumerate(itertools.product(triple, repeat=3)):
        add("sparse", "whole", "table", ch, j)
    for j, ch in enumerate(pairs):
        add("sparse", "cat", "table", ch, j)
        add("sparse", "whole", "info", ch, j + 1)
    for a in range(len(INFO_FILES["sparse"][1])):
        add("sparse", "whole", "info", ["pick:%d" % a], a + 1)
    return out, 90         # the plan takes about 55 s


def run_info(col, tmp, tier):
    cases, seconds = plan_info(tier)
    info = {"files": {f: {"keys": list(v[0]), "records": len(v[1])} for f, v in INFO_FILES.items()}, "seconds": seconds,
            "selections": {"reordering": list(INFO_REORDER), "file_order": list(INFO_CONTROLS), "chain_links": list(INFO_CHAIN),
                           "quick": "one key read first per case (rotating); every single row of 2 files; chains of 2 links (1 file)",
                           "thorough": "every key read first (4 files); every single row; every ordered pair of rows (3 "
                                       "files), every ordered triple (1 file), 4 seeded permutations per file, chains of "
                                       "2 links (3 files) and of 3 links (1 file)"},
            "modes": ["whole", "chunk:first", "chunk:last", "cat (concatenation of all chunks)"],
            "where": ["table (t[rows].info.K)", "info (t.info[rows].K)", "table-pre (t.info.K read before t[rows])"],
            "planned": len(cases), "evaluated": 0, "skipped": 0, "cut": 0}
    t0 = time.time()
    for i, case in enumerate(cases):
        if time.time() - t0 > seconds:
            info["cut"] = len(cases) - i
            col.exhaustive = False
            break
        try:
            fails = info_eval(tmp, case)
        except Exception as e:   # harness problem: a failure of its own class, never silently
            import traceback
            col.case(case, contract="vcf-info")
            col.fail("vcf-info:harness-exception:%s" % type(e).__name__, case, traceback.format_exc()[-500:])
            continue
        if fails is None:
            info["skipped"] += 1
            continue
        col.case(case, nontrivial=bool(case["chain"]), contract="vcf-info:%s:%s" % (case["mode"].split(":")[0], case["where"]))
        info["evaluated"] += 1
        for sig, msg in fails:
            col.fail(sig, case, msg)
    info["wall_s"] = round(time.time() - t0, 1)
    return info


def run(tier="quick", seed=0):
    col = Collector(PID, tier, seed,
                    "every program (sequence of public ops: len, get f, t[slice|mask|int list], t[i], concatenate tu/ut/tt/tut, "
                    "swap, replace(f=array), replace(f=t.f+1), t.f=array, tolist, iter, str, write) of the stated lengths "
                    "(plus the 4-op family [X, swap, Y, concatenate] with state on both operands) over the "
                    "stated alphabet, run in lock-step on lazy=True and lazy=False reads of the same file; every step and a "
                    "final full observation (len, every field, tolist, written bytes) compared; per format x {whole read, "
                    "chunked read}; longer programs sampled with the seed.  Retained tables: programs with keep "
                    "(retain the current table) / swapk (go on with the retained one) - t1 made by replace / assignment of "
                    "f1, retained, then replace f2 / index / concatenate / write of tables derived from it and assignments "
                    "to either, chains of 3 replaces - over ordered pairs / triples of replaceable fields; every retained "
                    "table gets the full observation after the last op.  Second file: pairs of files of one format "
                    "with different header / comment lines read one after the other in this process (read, one "
                    "read_chunk, all read_chunks, two open readers interleaved; both orders), programs of at most "
                    "one op (two, thorough) on the table read second / the table read first, the header observed "
                    "through the written bytes.  Formats that the reader's lazy/eager decision reads eagerly (gff, "
                    "gff3, gtf, multi-line fasta): the same program families, default / lazy=True read against the "
                    "lazy=False read.  Read/write/read: s = t[rows]; get A; write (the program goes on if the write "
                    "diverges); get B of s / of t - per field A with the full observation, per ordered pair (A, B).  "
                    "Typed VCF INFO: files whose header declares Integer / Float / Flag / String keys that some "
                    "records lack; read (whole, a chunk, the concatenated chunks) lazily and eagerly; chains of 1-3 row "
                    "selections (unsorted integer lists, reversed slices, masks) of the table / of t.info; every "
                    "declared key of the selection read, each key first in some case; both modes against a reference "
                    "parse of the INFO text this file wrote.  "
                    "distinct = distinct (format, read mode, "
                    "program); non-trivial = program of length >= 1",
                    budget_s=(66 if tier == "quick" else 585))
    import logging
    logging.getLogger("bionumpy").setLevel(logging.ERROR)   # the library logs a warning per read/write
    tasks, samples = plan(tier)
    bounds = {"formats": ALL_FORMATS, "formats_with_header_lines": ALL_HDR_FORMATS,
              "records": "file A 3, file B 2, chunked file 5 (A+B)",
              "chunk_sizes": {f: chunk_sizes(f) for f in ALL_FORMATS},
              "exhaustive": [], "sampled": [], "cut": []}
    with TmpDir() as tmp:
        r = Runner(col, tmp)
        # first of all, so that its first reads are the first reads of these buffer types in the process; the time
        # it takes is added to the budget of the other parts
        bounds["second_file"] = run_second(col, r, tier)
        col.budget_s += time.time() - col.t0
        bounds["retained"] = run_retained(col, r, tier)
        stop = False
        # the exhaustive part stops here so that the sampled part always runs
        sample_budget = 0.85 * col.budget_s + 0.15 * bounds["second_file"]["wall_s"]
        for L, fmt, mode, level in tasks:
            contract = "lockstep:%s" % ("whole" if mode == "whole" else "chunked")
            try:
                ops = r.ops(fmt, mode, level)
            except Exception as e:
                case = {"fmt": fmt, "mode": mode, "prog": []}
                col.case(case, contract="read")
                col.fail("%s:eager-read-fails:%s" % (fmt, type(e).__name__), case, str(e)[:300])
                continue
            if stop:
                bounds["cut"].append([L, fmt, mode, level])
                continue
            n0 = col.evaluations
            for prog in (pair_programs(ops) if level == "pair" else itertools.product(ops, repeat=L)):
                if redundant(prog):
                    continue
                r.evaluate(fmt, mode, [list(o) for o in prog], contract)
                if col.evaluations % 20 == 0 and (time.time() - col.t0) > sample_budget:
                    stop = True
                    col.exhaustive = False
                    break
            bounds["exhaustive"].append({"len": L, "fmt": fmt, "mode": mode, "alphabet": level, "n_ops": len(ops),
                                         "evaluated": col.evaluations - n0, "complete": not stop})
        for fmt, mode, n, maxlen in samples:
            if col.out_of_time():
                break
            try:
                wide = r.ops(fmt, mode, "wide")
            except Exception:
                continue
            n0 = col.evaluations
            for _ in range(n):
                prog = [list(col.rng.choice(wide)) for _ in range(col.rng.randint(3, maxlen))]
                r.evaluate(fmt, mode, prog, "lockstep-sampled")
            bounds["sampled"].append({"fmt": fmt, "mode": mode, "n": col.evaluations - n0, "len": "3..%d" % maxlen})
        # the parts added later run last, within their own budgets (the budget, the programs and the sampled
        # programs of the parts above are what they were)
        bounds["decision_formats"] = run_decision(col, r, tier)
        bounds["read_write_read"] = run_rwr(col, r, tier)
        bounds["vcf_info"] = run_info(col, tmp, tier)
        bounds["outcomes"] = dict(r.stats)
    col.bounds = bounds
    return col.result()


def replay(case):
    if case.get("family") == "vcf-info":
        with TmpDir() as tmp:
            fails = info_eval(tmp, case)
        if fails:
            return False, "; ".join("%s: %s" % f for f in fails)
        return True, "ok" if fails is not None else "ok (not applicable)"
    with TmpDir() as tmp:
        env = Env(tmp, case["fmt"], case["mode"])
        status, divs = run_program(env, [list(o) for o in case["prog"]])
    if "divergence" in case:   # a program that goes on after a diverging ["write", "go"]: only the recorded divergence counts
        others = [d for d in divs if [d.where, d.kind] != list(case["divergence"])]
        divs = [d for d in divs if [d.where, d.kind] == list(case["divergence"])]
        if not divs:
            return True, "ok (%s; %d other divergences of the program, reported under their own signatures)" % (status, len(others))
    if divs:
        return False, "; ".join("step %d %s %s: %s" % (d.step, d.where, d.kind, d.detail) for d in divs)
    return True, "ok (%s)" % status
