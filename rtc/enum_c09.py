"""C09 bounded stand-in: genomic arrays are exact, lossless views of dense per-base arrays.

Run-time contracts, evaluated on the real bionumpy functions, oracle = plain Python lists / dense NumPy arrays
built by this file from the records (never from the code under test):

  A  to_array          GenomicRunLengthArray(events, values).to_array() == repeat(values, run lengths), every dtype
                       the xor-accumulate expansion special-cases (bool, ints, float16/32/64)
  B  from_intervals    GenomicRunLengthArray.from_intervals(starts, ends, size, values, default) has length `size`
                       and expands to value inside the intervals / default outside: every sorted non-overlapping
                       layout (first at 0 or later, last at size or before, empty, touching), scalar and array values
  C  from_bedgraph(1)  GenomicRunLengthArray.from_bedgraph(records, size | None): same, for one contig
  D  track             Genome.get_track / GenomicArray.from_bedgraph / Genome.read_track(file) / streamed track on
                       genomes of 1..4 chromosomes: to_dict() keys in genome order, every array has the chromosome's
                       size and equals the dense array; t[chrom]; sum; get_data() back-conversion; round trip
  E  mask / pileup     Genome.get_intervals(intervals).get_mask() / .get_pileup() (overlapping, nested, unsorted,
                       touching, empty interval sets) == dense OR / dense count; back-conversion
  F  expressions       expression trees over {+,-,*,<,>,==,&,|,~, scalar operands} on tracks and masks, depth <= 2:
                       values == the same NumPy expression on the dense arrays; np.sum / .sum(); np.histogram;
                       get_data() of the result: records in genome order, non-overlapping, inside the chromosome,
                       expanding to exactly the dense result (Interval for boolean results, BedGraph otherwise)

  G  inexact floats    A, D, F again with run values that are NOT exactly summable in binary floating point (0.1, 0.7, 0.2
                       next to 1234567.891, +-inf, NaN for A): the dense expansion, get_data() and every expression result
                       are compared by float64 bit pattern (no tolerance; only np.sum of floats, whose evaluation order is not
                       prescribed, is compared to the correctly rounded sum with relative 1e-9)
  H  big coordinates   B, C, E, F on contigs of 2**31-1 .. 3e9 bases and on genomes whose concatenation is 2**31-1 .. 8.3e9
                       bases (every chromosome may be < 2**31: hg38) with a handful of intervals; the dense array is never
                       built: runs, exact sums, probed positions and short dense windows around the breakpoints are compared
                       with the piecewise constant function the records describe

  I  ignored contigs   genomes that contain IGNORED contigs of non-zero size (names with '_': the default filter of Genome.from_file;
                       chrom.sizes / .fai file, from_dict(filter_function=ignore_underscores), with_ignored_added): the genome the
                       arrays live on is the concatenation of the INCLUDED contigs only.  Masks / pileups built from intervals and
                       tracks built from a bedGraph (with and without records on the ignored contigs, which are dropped): to_dict,
                       whole-array reductions in which the default value contributes ((~m).sum(), np.sum(p == 0), np.sum(p + 1),
                       np.histogram), expressions that combine interval-built and bedGraph-built arrays, back-conversion
  (H also: genomes in which the OFFSET of a chromosome is at / beyond 2**32 - 4 x 1.5e9, 2**32 + small, 5 x 3e9 - and a big
   genome with ignored contigs)

In A-F all float values are small dyadic rationals, so sums and products are exact in every evaluation order.
"""
import itertools
import math
import operator
import os
import struct

from .common import Collector, TmpDir

PID = "C09"
NAMES = ["chr1", "chr2", "chr3", "chr4"]
NAMES_UNSORTED = ["chrB", "chrA", "chr10", "chr9"]      # genome order != alphabetical order


# --------------------------------------------------------------------------------------------- oracle side
def expand(size, recs, default=0):
    """dense list described by records (start, stop, value): value inside, default in the gaps"""
    out = [default] * size
    for s, e, v in recs:
        for x in range(s, e):
            out[x] = v
    return out


def layouts(size, touching=True):
    """every sorted, non-overlapping, non-empty-interval layout inside [0, size] (incl. the empty layout)"""
    def rec(p, first):
        yield []
        for s in range(p if (touching or first) else p + 1, size):
            for e in range(s + 1, size + 1):
                for rest in rec(e, False):
                    yield [(s, e)] + rest
    seen = set()
    for lay in rec(0, True):
        k = tuple(lay)
        if k not in seen:
            seen.add(k)
            yield lay


def has_touching(lay):
    return any(lay[i][1] == lay[i + 1][0] for i in range(len(lay) - 1))


def layout_flags(lay, size):
    if not lay:
        return "empty"
    return "%s:%s:%s" % ("first-at-0" if lay[0][0] == 0 else "first-later",
                         "last-at-size" if lay[-1][1] == size else "last-before-size",
                         "gaps" if any(lay[i][1] != lay[i + 1][0] for i in range(len(lay) - 1)) else "no-inner-gaps")


VALUE_PATTERNS = {
    # name -> (vtype, function i -> value); p1 patterns contain zeros and equal neighbours
    "int-alt": ("int", lambda i: (1, 2, 3)[i % 3]),
    "int-rep0": ("int", lambda i: (2, 2, 0, 3)[i % 4]),
    "float-alt": ("float", lambda i: (1.5, -2.0, 0.25)[i % 3]),
    "float-rep0": ("float", lambda i: (2.5, 2.5, 0.0, 1.0)[i % 4]),
    "bool-alt": ("bool", lambda i: (True, False, True, True)[i % 4]),
}


def np_values(vals, vtype):
    import numpy as np
    return np.array(vals, dtype={"int": np.int64, "float": np.float64, "bool": bool}[vtype])


def lists_equal(got, exp):
    """exact value equality of two flat lists (True == 1, 2 == 2.0 as in NumPy's ==)"""
    return len(got) == len(exp) and all(g == e for g, e in zip(got, exp))


# --------------------------------------------------------------------------------------------- A  to_array
DTYPE_PALETTES = {
    "int64": [0, (1 << 40) + 5, -3],
    "int32": [0, -1, 7],
    "uint8": [0, 255, 6],
    "bool": [False, True, True],
    "float64": [0.0, 1.5, -2.25],
    "float32": [0.0, 1.5, -2.25],
    "float16": [0.0, 1.5, -2.25],
}


def compositions(n):
    if n == 0:
        yield []
        return
    for first in range(1, n + 1):
        for rest in compositions(n - first):
            yield [first] + rest


def check_to_array(col, case):
    import numpy as np
    from bionumpy.arithmetics.intervals import GenomicRunLengthArray
    runs, vals, dt = case["runs"], case["values"], case["dtype"]
    col.case(case, contract="GenomicRunLengthArray.to_array")
    events = np.array([0] + list(itertools.accumulate(runs)), dtype=int)
    values = np.array(vals, dtype=dt)
    exp = [v for v, n in zip(values.tolist(), runs) for _ in range(n)]
    sig = "to_array:" + ("float" if dt.startswith("float") else "bool" if dt == "bool" else "int")
    rla = col.guarded(lambda: GenomicRunLengthArray(events, values), sig + ":construct", case)
    if rla is None:
        return
    got = col.guarded(lambda: rla.to_array(), sig, case)
    if got is None:
        return
    col.check(len(rla) == sum(runs), sig + ":wrong-length", case, "len %r expected %r" % (len(rla), sum(runs)))
    col.check(lists_equal(np.asarray(got).tolist(), exp), sig + ":wrong-dense", case,
              "got %r expected %r" % (np.asarray(got).tolist(), exp))
    col.check(np.asarray(got).dtype == values.dtype, sig + ":dtype-changed", case,
              "got %r expected %r" % (np.asarray(got).dtype, values.dtype))


def gen_to_array(tier):
    max_n = 5 if tier == "quick" else 7
    for dt, pal in DTYPE_PALETTES.items():
        yield {"kind": "to_array", "runs": [], "values": [], "dtype": dt}
        for n in range(1, max_n + 1):
            for runs in compositions(n):
                k = len(runs)
                for pname, f in (("alt", lambda i: pal[i % 3]), ("rep", lambda i: pal[(i // 2) % 3]),
                                 ("alt2", lambda i: pal[(i + 1) % 3])):
                    yield {"kind": "to_array", "runs": runs, "values": [f(i) for i in range(k)], "dtype": dt}


# --------------------------------------------------------------------------------------------- B  from_intervals
FI_MODES = {
    # name: (array?, vtype, value(s), default)
    "scalar-True": (False, "bool", True, False),
    "scalar-int": (False, "int", 3, 0),
    "scalar-float": (False, "float", 2.5, 0),
    "scalar-int-default5": (False, "int", 1, 5),
    "array-int-alt": (True, "int", "int-alt", 0),
    "array-int-rep0": (True, "int", "int-rep0", 0),
    "array-float-alt": (True, "float", "float-alt", 0),
    "array-bool": (True, "bool", "bool-alt", False),
}


def check_from_intervals(col, case):
    import numpy as np
    from bionumpy.arithmetics.intervals import GenomicRunLengthArray
    lay, size, mode = [tuple(x) for x in case["layout"]], case["size"], case["mode"]
    is_array, vtype, v, default = FI_MODES[mode]
    col.case(case, contract="GenomicRunLengthArray.from_intervals")
    starts = np.array([s for s, _ in lay], dtype=int)
    ends = np.array([e for _, e in lay], dtype=int)
    if is_array:
        vals = [VALUE_PATTERNS[v][1](i) for i in range(len(lay))]
        values = np_values(vals, vtype)
    else:
        vals = [v] * len(lay)
        values = v
    exp = expand(size, [(s, e, x) for (s, e), x in zip(lay, vals)], default)
    cls = ("array-values" if is_array else "scalar-values") + (":default-nonzero" if default not in (0, False) else "")
    if has_touching(lay):
        cls += ":touching"
    # exceptions: one signature per (value mode, exception type); touching layouts of the scalar mode apart (they are
    # the only ones that reach the run-length constructor with an empty run)
    sig = "from_intervals:" + ("array-values" if is_array else "scalar-values" + (":touching" if has_touching(lay) else ""))
    rla = col.guarded(lambda: GenomicRunLengthArray.from_intervals(starts, ends, size, values=values, default_value=default),
                      sig, case)
    if rla is None:
        return
    got = col.guarded(lambda: np.asarray(rla.to_array()).tolist(), sig + ":to_array", case)
    if got is None:
        return
    fl = layout_flags(lay, size)
    col.check(len(rla) == size, "from_intervals:wrong-length:%s:%s" % (cls, fl), case, "len %r size %r" % (len(rla), size))
    col.check(lists_equal(got, exp), "from_intervals:wrong-dense:%s:%s" % (cls, fl), case, "got %r expected %r" % (got, exp))
    # the public run view (starts, ends, values) denotes the same array
    runs = col.guarded(lambda: list(zip(np.asarray(rla.starts).tolist(), np.asarray(rla.ends).tolist(),
                                        np.asarray(rla.values).tolist())), sig + ":runs", case)
    if runs is not None:
        ok = all(a < b for a, b, _ in runs) and all(runs[i][1] == runs[i + 1][0] for i in range(len(runs) - 1)) and \
            (not runs or (runs[0][0] == 0 and runs[-1][1] == size)) and lists_equal(expand(size, runs, None), exp)
        col.check(ok, "from_intervals:runs-do-not-tile:%s:%s" % (cls, fl), case, "runs %r expected dense %r" % (runs, exp))


def gen_from_intervals(tier):
    max_size = 6 if tier == "quick" else 8
    for size in range(1, max_size + 1):
        for lay in layouts(size):
            for mode in FI_MODES:
                if FI_MODES[mode][0] and not lay:
                    # empty array of values: still a legal call; keep one representative
                    if mode != "array-int-alt":
                        continue
                yield {"kind": "from_intervals", "size": size, "layout": lay, "mode": mode}


# --------------------------------------------------------------------------------------------- C  from_bedgraph, one contig
def check_rla_from_bedgraph(col, case):
    import numpy as np
    from bionumpy.datatypes import BedGraph
    from bionumpy.arithmetics.intervals import GenomicRunLengthArray
    lay, size, pat, size_arg = [tuple(x) for x in case["layout"]], case["size"], case["pattern"], case["size_arg"]
    vtype, f = VALUE_PATTERNS[pat]
    col.case(case, contract="GenomicRunLengthArray.from_bedgraph")
    vals = [f(i) for i in range(len(lay))]
    n = size if size_arg == "size" else lay[-1][1]
    exp = expand(n, [(s, e, x) for (s, e), x in zip(lay, vals)], 0)
    bg = BedGraph(["c"] * len(lay), np.array([s for s, _ in lay], dtype=int), np.array([e for _, e in lay], dtype=int),
                  np_values(vals, vtype))
    sig = "rla_from_bedgraph:%s" % ("size-given" if size_arg == "size" else "size-None")
    rla = col.guarded(lambda: GenomicRunLengthArray.from_bedgraph(bg, size if size_arg == "size" else None), sig, case)
    if rla is None:
        return
    got = col.guarded(lambda: np.asarray(rla.to_array()).tolist(), sig + ":to_array", case)
    if got is None:
        return
    fl = layout_flags(lay, n)
    col.check(len(rla) == n, "rla_from_bedgraph:wrong-length:%s" % fl, case, "len %r expected %r" % (len(rla), n))
    col.check(lists_equal(got, exp), "rla_from_bedgraph:wrong-dense:%s" % fl, case, "got %r expected %r" % (got, exp))


def gen_rla_from_bedgraph(tier):
    max_size = 5 if tier == "quick" else 7
    for size in range(1, max_size + 1):
        for lay in layouts(size):
            for pat in VALUE_PATTERNS:
                yield {"kind": "rla_from_bedgraph", "size": size, "layout": lay, "pattern": pat, "size_arg": "size"}
                if lay and pat in ("int-alt", "float-rep0"):
                    yield {"kind": "rla_from_bedgraph", "size": size, "layout": lay, "pattern": pat, "size_arg": "none"}


# --------------------------------------------------------------------------------------------- genome-level helpers
def make_genome(genome):
    import bionumpy as bnp
    return bnp.Genome.from_dict({n: s for n, s in genome})


def dense_genome(genome, recs, default=0):
    """{name: dense list} for records (chrom, start, stop, value)"""
    return {n: expand(s, [(a, b, v) for c, a, b, v in recs if c == n], default) for n, s in genome}


def chrom_strings(col_chrom):
    try:
        out = col_chrom.tolist()
        if all(isinstance(x, str) for x in out):
            return out
    except Exception:
        pass
    return [c.to_string() for c in col_chrom]


def check_to_dict(col, arr, genome, dense, sig, case, what="to_dict", eq=None):
    """arr.to_dict(): keys = chromosomes in genome order, each value has the chromosome size and equals dense
    (eq: the equality of two flat lists; default lists_equal, the float scopes G pass bits_equal)"""
    eq = eq or lists_equal
    import numpy as np
    d = col.guarded(lambda: arr.to_dict(), sig + ":" + what, case)
    if d is None:
        return False
    ok = col.check(list(d.keys()) == [n for n, _ in genome], sig + ":" + what + ":keys-not-genome-order", case,
                   "keys %r genome %r" % (list(d.keys()), genome))
    if not ok:
        return False
    good = True
    for n, s in genome:
        got = np.asarray(d[n]).tolist()
        good &= col.check(len(got) == s, sig + ":wrong-length", case, "%s: len %r size %r" % (n, len(got), s))
        good &= col.check(eq(got, dense[n]), sig + ":wrong-dense", case,
                          "%s: got %r expected %r" % (n, got, dense[n]))
    return good


def check_histogram(col, arr, genome, dense, sig, case, kws=({"bins": 4, "range": (-2, 4)},)):
    """np.histogram on the genomic array == np.histogram on the dense concatenated array (counts and edges)"""
    import numpy as np
    flat = np.array([x for n, _ in genome for x in dense[n]])
    if flat.dtype == bool:
        flat = flat.astype(int)     # NumPy's histogram of booleans is the histogram of 0/1
    for kw in kws:
        h = col.guarded(lambda: np.histogram(arr, **kw), sig + ":histogram", case)
        if h is None:
            continue
        eh = np.histogram(flat, **kw)
        gc, ge, ee = np.asarray(h[0]), np.asarray(h[1], dtype=float), np.asarray(eh[1], dtype=float)
        col.check(lists_equal(gc.tolist(), eh[0].tolist()), sig + ":histogram:wrong-counts", case,
                  "%r: got %r expected %r" % (kw, gc.tolist(), eh[0].tolist()))
        col.check(ge.shape == ee.shape and bool(np.allclose(ge, ee, rtol=1e-12, atol=1e-12)), sig + ":histogram:wrong-edges", case,
                  "%r: got %r expected %r" % (kw, h[1], eh[1]))


def check_backconversion(col, arr, genome, dense, sig, case, is_bool=None, data=None, eq=None):
    """get_data(): records in genome order, non-overlapping, inside the chromosome, expanding to `dense`.
    Boolean arrays give intervals (expand: True inside, False outside), others give bedGraph records."""
    import numpy as np
    eq = eq or lists_equal
    if data is None:
        data = col.guarded(lambda: arr.get_data(), sig + ":get_data", case)
        if data is None:
            return None
    if is_bool is None:
        is_bool = (arr.dtype == bool)

    def rows():
        chroms = chrom_strings(data.chromosome)
        starts, stops = np.asarray(data.start).tolist(), np.asarray(data.stop).tolist()
        # interval records (no value column) mean True inside; bedGraph records carry their value
        vals = np.asarray(data.value).tolist() if hasattr(data, "value") else [True] * len(starts)
        return list(zip(chroms, starts, stops, vals))
    rs = col.guarded(rows, sig + ":get_data:rows", case)
    if rs is None:
        return None
    if not is_bool:
        col.check(hasattr(data, "value"), sig + ":get_data:values-lost", case, "got %r for a non-boolean array" % type(data).__name__)
    order = {n: i for i, (n, _) in enumerate(genome)}
    sizes = dict(genome)
    ok = all(c in order for c, _, _, _ in rs)
    col.check(ok, sig + ":get_data:unknown-chromosome", case, "rows %r" % (rs[:6],))
    if not ok:
        return data
    in_order = all((order[rs[i][0]], rs[i][1]) <= (order[rs[i + 1][0]], rs[i + 1][1]) for i in range(len(rs) - 1))
    col.check(in_order, sig + ":get_data:not-in-genome-order", case, "rows %r" % (rs[:8],))
    no_overlap = all(rs[i][0] != rs[i + 1][0] or rs[i][2] <= rs[i + 1][1] for i in range(len(rs) - 1))
    col.check(no_overlap, sig + ":get_data:overlapping-records", case, "rows %r" % (rs[:8],))
    inside = all(0 <= a <= b <= sizes[c] for c, a, b, _ in rs)
    col.check(inside, sig + ":get_data:record-outside-chromosome", case, "rows %r sizes %r" % (rs[:8], sizes))
    if inside:
        back = dense_genome(genome, rs, False if is_bool else 0)
        same = all(eq(back[n], dense[n]) for n, _ in genome)
        col.check(same, sig + ":get_data:expands-to-different-array", case, "rows %r expand to %r expected %r" % (rs[:8], back, dense))
    return data


# --------------------------------------------------------------------------------------------- D  tracks
def build_bedgraph(recs, vtype):
    import numpy as np
    from bionumpy.datatypes import BedGraph
    return BedGraph([c for c, _, _, _ in recs], np.array([a for _, a, _, _ in recs], dtype=int),
                    np.array([b for _, _, b, _ in recs], dtype=int), np_values([v for _, _, _, v in recs], vtype))


def bedgraph_text(recs, vtype):
    def fmt(v):
        if vtype == "float":
            return repr(float(v))
        return str(int(v))
    return "".join("%s\t%d\t%d\t%s\n" % (c, a, b, fmt(v)) for c, a, b, v in recs)


def check_track(col, case, tmp=None):
    import numpy as np
    from bionumpy.genomic_data import GenomicArray
    genome = [tuple(g) for g in case["genome"]]
    recs = [tuple(r) for r in case["records"]]
    vtype, route = case["vtype"], case["route"]
    dense = dense_genome(genome, recs, 0)
    col.case(case, contract="track:" + route)
    g = make_genome(genome)
    sig = "track:%s" % route
    if route == "get_track":
        t = col.guarded(lambda: g.get_track(build_bedgraph(recs, vtype)), sig, case)
    elif route == "from_bedgraph":
        t = col.guarded(lambda: GenomicArray.from_bedgraph(build_bedgraph(recs, vtype), g.get_genome_context()), sig, case)
    elif route == "file":
        path = os.path.join(tmp, "t.bdg")
        with open(path, "w") as f:
            f.write(bedgraph_text(recs, vtype))
        t = col.guarded(lambda: g.read_track(path), sig, case)
    elif route == "stream":
        return check_track_stream(col, case, g, genome, recs, vtype, dense, sig)
    else:
        raise ValueError(route)
    if t is None:
        return
    if not check_to_dict(col, t, genome, dense, sig, case):
        return
    light = case.get("light", False)     # 3-4 chromosomes, quick tier: per-chromosome views on every 4th case only
    for n, s in ([] if light else genome):
        got = col.guarded(lambda: np.asarray(t[n].to_array()).tolist(), sig + ":getitem-chromosome", case)
        if got is not None:
            col.check(lists_equal(got, dense[n]), sig + ":getitem-chromosome:wrong-dense", case,
                      "%s: got %r expected %r" % (n, got, dense[n]))
    total = sum(sum(dense[n]) for n, _ in genome)
    got = col.guarded(lambda: (np.sum(t), t.sum()), sig + ":sum", case)
    if got is not None:
        col.check(got[0] == total and got[1] == total, "track:sum:wrong", case, "got %r expected %r" % (got, total))
    check_histogram(col, t, genome, dense, "track", case)
    data = check_backconversion(col, t, genome, dense, sig, case)
    if light:
        return
    if data is not None and route == "get_track" and not (t.dtype == bool):
        # round trip: the bedGraph given back builds the same array again
        t2 = col.guarded(lambda: g.get_track(data), "track:roundtrip", case)
        if t2 is not None:
            check_to_dict(col, t2, genome, dense, "track:roundtrip", case)
    # per-chromosome run-length array -> bedGraph of one chromosome
    for n, s in genome:
        bg = col.guarded(lambda: t[n].to_bedgraph(n), sig + ":to_bedgraph", case)
        if bg is not None:
            check_backconversion(col, None, [(n, s)], {n: dense[n]}, "track:to_bedgraph", case, is_bool=False, data=bg)


def check_track_stream(col, case, g, genome, recs, vtype, dense, sig):
    """lazy (one chromosome at a time) array: observed through get_data() and np.histogram"""
    import numpy as np
    from bionumpy.streams import NpDataclassStream
    from bionumpy.computation_graph import compute
    split = case.get("split")

    def chunks():
        # no empty chunks (grouping a stream with an empty chunk is a streaming matter, not C09): an empty
        # bedGraph is the stream without chunks
        if not recs:
            return NpDataclassStream([])
        bg = build_bedgraph(recs, vtype)
        if split is None or not (0 < split < len(recs)):
            return NpDataclassStream([bg])
        return NpDataclassStream([bg[:split], bg[split:]])
    data = col.guarded(lambda: compute(g.get_track(chunks()).get_data()), sig, case)
    if data is not None:
        check_backconversion(col, None, genome, dense, sig, case, is_bool=False, data=data)
    flat = [x for n, _ in genome for x in dense[n]]
    h = col.guarded(lambda: compute(np.histogram(g.get_track(chunks()), bins=4, range=(-2, 4))), sig + ":histogram", case)
    if h is not None:
        exp = np.histogram(np.array(flat), bins=4, range=(-2, 4))
        col.check(lists_equal(np.asarray(h[0]).tolist(), exp[0].tolist()), sig + ":histogram:wrong-counts", case,
                  "got %r expected %r" % (np.asarray(h[0]).tolist(), exp[0].tolist()))
    # an operation on the lazy array, then back-conversion
    d2 = col.guarded(lambda: compute((g.get_track(chunks()) + 1).get_data()), sig + ":add-scalar", case)
    if d2 is not None:
        dense1 = {n: [x + 1 for x in dense[n]] for n, _ in genome}
        check_backconversion(col, None, genome, dense1, sig + ":add-scalar", case, is_bool=False, data=d2)
    d3 = col.guarded(lambda: compute((g.get_track(chunks()) > 1).get_data()), sig + ":gt-scalar", case)
    if d3 is not None:
        dense2 = {n: [x > 1 for x in dense[n]] for n, _ in genome}
        check_backconversion(col, None, genome, dense2, sig + ":gt-scalar", case, is_bool=True, data=d3)


def chrom_classes(size):
    """representative layouts of one chromosome: empty, full, head, tail, interior, two with gap, two touching"""
    out = [[], [(0, size)]]
    if size >= 2:
        out += [[(0, size - 1)], [(1, size)], [(0, 1), (1, size)]]
    if size >= 3:
        out += [[(1, size - 1)], [(0, 1), (2, size)]]
    if size >= 4:
        out += [[(1, 2), (3, size)]]
    return out


def records_for(names, lays, pattern):
    f = VALUE_PATTERNS[pattern][1]
    recs, i = [], 0
    for n, lay in zip(names, lays):
        for s, e in lay:
            recs.append((n, s, e, f(i)))
            i += 1
    return recs


def gen_tracks(tier):
    quick = tier == "quick"
    # 1 chromosome: every layout
    for size in range(1, (5 if quick else 7) + 1):
        for lay in layouts(size):
            for pat in VALUE_PATTERNS:
                recs = records_for(NAMES, [lay], pat)
                vt = VALUE_PATTERNS[pat][0]
                yield {"kind": "track", "genome": [(NAMES[0], size)], "records": recs, "vtype": vt, "route": "get_track"}
                if size <= 4 and pat in ("int-rep0", "float-alt"):
                    yield {"kind": "track", "genome": [(NAMES[0], size)], "records": recs, "vtype": vt, "route": "file"}
                    yield {"kind": "track", "genome": [(NAMES[0], size)], "records": recs, "vtype": vt, "route": "stream"}
                if size <= 3 and pat == "int-alt":
                    yield {"kind": "track", "genome": [(NAMES[0], size)], "records": recs, "vtype": vt, "route": "from_bedgraph"}
    # 2 chromosomes: every pair of layouts
    for sizes in ([(1, 1), (2, 3), (3, 2), (3, 3)] if quick else [(1, 1), (1, 3), (2, 3), (3, 2), (3, 3), (4, 3), (3, 4), (4, 4)]):
        genome = list(zip(NAMES, sizes))
        for l1 in layouts(sizes[0]):
            for l2 in layouts(sizes[1]):
                for pat in (("int-alt", "float-rep0") if quick else ("int-alt", "int-rep0", "float-alt", "float-rep0", "bool-alt")):
                    recs = records_for(NAMES, [l1, l2], pat)
                    vt = VALUE_PATTERNS[pat][0]
                    yield {"kind": "track", "genome": genome, "records": recs, "vtype": vt, "route": "get_track"}
                    if sizes in ((2, 3), (3, 2)) and pat == "int-alt":
                        yield {"kind": "track", "genome": genome, "records": recs, "vtype": vt, "route": "stream",
                               "split": len(l1) if (len(l1) + len(l2)) % 2 else 1}
                    if sizes == (3, 2) and pat == "float-rep0":
                        yield {"kind": "track", "genome": genome, "records": recs, "vtype": vt, "route": "file"}
    # 3 and 4 chromosomes: every combination of layout classes; names whose genome order is not alphabetical too
    for names, sizes in ((NAMES, (3, 3, 3)), (NAMES_UNSORTED, (3, 2, 1, 3)), (NAMES, (2, 1, 4, 2))) if quick else \
            ((NAMES, (3, 3, 3)), (NAMES_UNSORTED, (3, 2, 1, 3)), (NAMES, (2, 1, 4, 2)), (NAMES, (4, 3, 3, 4)), (NAMES_UNSORTED, (1, 4, 4))):
        genome = list(zip(names, sizes))
        for k, lays in enumerate(itertools.product(*[chrom_classes(s) for s in sizes])):
            pat = ("int-alt", "float-rep0", "int-rep0", "float-alt")[k % 4]
            recs = records_for(names, lays, pat)
            yield {"kind": "track", "genome": genome, "records": recs, "vtype": VALUE_PATTERNS[pat][0], "route": "get_track",
                   "light": bool(quick and k % 4 != 0)}
            if k % 9 == 0:
                yield {"kind": "track", "genome": genome, "records": recs, "vtype": VALUE_PATTERNS[pat][0], "route": "stream",
                       "split": max(1, len(recs) // 2)}


# --------------------------------------------------------------------------------------------- E  mask / pileup
def build_intervals(ivs):
    import numpy as np
    from bionumpy.datatypes import Interval
    if not ivs:
        return Interval.empty()
    return Interval([c for c, _, _ in ivs], np.array([a for _, a, _ in ivs], dtype=int), np.array([b for _, _, b in ivs], dtype=int))


def dense_mask(genome, ivs):
    return {n: [any(c == n and a <= x < b for c, a, b in ivs) for x in range(s)] for n, s in genome}


def dense_pileup(genome, ivs):
    return {n: [sum(1 for c, a, b in ivs if c == n and a <= x < b) for x in range(s)] for n, s in genome}


def check_cover(col, case):
    import numpy as np
    genome = [tuple(g) for g in case["genome"]]
    ivs = [tuple(r) for r in case["intervals"]]
    what = case["what"]
    col.case(case, contract="GenomicIntervals." + what)
    g = make_genome(genome)
    sig = "intervals:" + what
    if what == "get_mask":
        dense = dense_mask(genome, ivs)
        arr = col.guarded(lambda: g.get_intervals(build_intervals(ivs)).get_mask(), sig, case)
    else:
        dense = dense_pileup(genome, ivs)
        arr = col.guarded(lambda: g.get_intervals(build_intervals(ivs)).get_pileup(), sig, case)
    if arr is None:
        return
    if what == "get_mask":
        col.check(arr.dtype == bool, sig + ":mask-not-boolean", case, "dtype %r" % (arr.dtype,))
    if not check_to_dict(col, arr, genome, dense, sig, case):
        return
    total = sum(sum(dense[n]) for n, _ in genome)
    got = col.guarded(lambda: (np.sum(arr), arr.sum()), sig + ":sum", case)
    if got is not None:
        col.check(got[0] == total and got[1] == total, sig + ":sum:wrong", case, "got %r expected %r" % (got, total))
    if what == "get_pileup":
        check_histogram(col, arr, genome, dense, sig, case)
    data = check_backconversion(col, arr, genome, dense, sig, case)
    if data is not None and what == "get_mask" and arr.dtype == bool:
        # intervals -> mask -> intervals -> mask is the identity on the dense array
        from bionumpy.genomic_data import GenomicIntervals
        m2 = col.guarded(lambda: GenomicIntervals.from_track(arr).get_mask(), "intervals:from_track:get_mask", case)
        if m2 is not None:
            check_to_dict(col, m2, genome, dense, "intervals:from_track:get_mask", case)


def gen_cover(tier):
    quick = tier == "quick"
    genomes = [[("chr1", 4)], [("chr1", 3), ("chr2", 2)], [("chrB", 2), ("chrA", 1), ("chr10", 2)]] if quick else \
        [[("chr1", 5)], [("chr1", 3), ("chr2", 3)], [("chrB", 2), ("chrA", 1), ("chr10", 2)], [("chr1", 2), ("chr2", 1), ("chr3", 2), ("chr4", 2)]]
    for genome in genomes:
        allivs = [(n, a, b) for n, s in genome for a in range(s) for b in range(a + 1, s + 1)]
        sets = [[]] + [[x] for x in allivs] + [[x, y] for x in allivs for y in allivs]
        sets += [list(reversed(c)) for c in itertools.combinations_with_replacement(allivs, 3)]
        if not quick and len(allivs) <= 12:
            sets += [[c[1], c[3], c[0], c[2]] for c in itertools.combinations(allivs, 4)]
        for ivs in sets:
            for what in ("get_mask", "get_pileup"):
                yield {"kind": "cover", "genome": genome, "intervals": ivs, "what": what}


# --------------------------------------------------------------------------------------------- F  expressions
BINOPS = {"add": operator.add, "sub": operator.sub, "mul": operator.mul, "lt": operator.lt, "gt": operator.gt,
          "eq": operator.eq, "and": operator.and_, "or": operator.or_}
ARITH, CMP, LOGIC = ("add", "sub", "mul"), ("lt", "gt", "eq"), ("and", "or")
SCALARS1 = (2, 0.5, 0)
SCALARS2 = (2, 0.5)


def L(name):
    return ["leaf", name]


def S(v):
    return ["scalar", v]


def depth1_exprs():
    """-> (numeric exprs, boolean exprs) of depth exactly 1"""
    num_leaves, bool_leaves = [L("A"), L("B")], [L("M"), L("K")]
    pairs = [(x, y) for x in num_leaves for y in num_leaves]
    pairs += [(x, S(s)) for x in num_leaves for s in SCALARS1] + [(S(s), x) for x in num_leaves for s in SCALARS1]
    n1 = [[op, x, y] for op in ARITH for x, y in pairs] + [["mul", L("M"), L("A")], ["mul", L("B"), L("K")]]
    b1 = [[op, x, y] for op in CMP for x, y in pairs]
    b1 += [["not", L("M")], ["not", L("K")], ["and", L("M"), L("K")], ["or", L("M"), L("K")], ["and", L("K"), L("M")],
           ["or", L("K"), L("M")], ["eq", L("M"), L("K")], ["and", L("M"), S(True)], ["or", S(False), L("K")]]
    return n1, b1


def depth2_exprs():
    """generator of every depth-2 expression of the typed grammar (at least one operand of depth 1)"""
    n1, b1 = depth1_exprs()
    n0, b0 = [L("A"), L("B")], [L("M"), L("K")]
    sc = [S(s) for s in SCALARS2]
    for op in ARITH + CMP:
        for x in n1:
            for y in n1 + n0 + sc:
                yield [op, x, y]
        for x in n0 + sc:
            for y in n1:
                yield [op, x, y]
    for op in LOGIC:
        for x in b1:
            for y in b1 + b0:
                yield [op, x, y]
        for x in b0:
            for y in b1:
                yield [op, x, y]
    for x in b1:
        yield ["not", x]
    for x in b1[:12]:
        for y in n0:
            yield ["mul", x, y]
            yield ["mul", y, x]


def expr_str(e):
    if e[0] == "leaf":
        return e[1]
    if e[0] == "scalar":
        return repr(e[1])
    if e[0] == "not":
        return "~(%s)" % expr_str(e[1])
    sym = {"add": "+", "sub": "-", "mul": "*", "lt": "<", "gt": ">", "eq": "==", "and": "&", "or": "|"}[e[0]]
    return "(%s %s %s)" % (expr_str(e[1]), sym, expr_str(e[2]))


def operand_kind(e):
    return "scalar" if e[0] == "scalar" else "array"


def root_sig(e):
    if e[0] == "not":
        return "not"
    return "%s:%s,%s" % (e[0], operand_kind(e[1]), operand_kind(e[2]))


class ExprEnv:
    """leaves of the expressions on both sides: genomic arrays (bionumpy) and dense concatenated arrays (NumPy)"""

    def __init__(self, col, leafcase):
        import numpy as np
        if "contigs" in leafcase:       # scope I: genome with ignored contigs; the arrays live on the included contigs
            self.genome = included_contigs(leafcase["contigs"])
            g = make_genome_ign(leafcase["contigs"], leafcase["route"])
        else:
            self.genome = [tuple(g) for g in leafcase["genome"]]
            g = make_genome(self.genome)
        self.g = g
        self.bnp, self.np = {}, {}
        for name in ("A", "B"):
            recs = [tuple(r) for r in leafcase[name]]
            vt = leafcase[name + "_type"]
            self.bnp[name] = g.get_track(build_bedgraph(recs, vt))
            d = dense_genome(self.genome, recs, 0)
            self.np[name] = np_values([x for n, _ in self.genome for x in d[n]], vt)
        for name in ("M", "K"):
            ivs = [tuple(r) for r in leafcase[name]]
            self.bnp[name] = g.get_intervals(build_intervals(ivs)).get_mask()
            d = dense_mask(self.genome, ivs)
            self.np[name] = np.array([x for n, _ in self.genome for x in d[n]], dtype=bool)
        if "contigs" in leafcase:       # P: pileup of the intervals of K and M together (any order, overlapping)
            ivs = [tuple(r) for r in leafcase["K"]] + [tuple(r) for r in leafcase["M"]]
            self.bnp["P"] = g.get_intervals(build_intervals(ivs)).get_pileup()
            d = dense_pileup(self.genome, ivs)
            self.np["P"] = np.array([x for n, _ in self.genome for x in d[n]], dtype=np.int64)
        self.cache = {}
        self.bad = set()

    def check_leaves(self, col, leafcase, prefix="expr", eq=None, kind=None):
        for name in ("A", "B", "M", "K", "P"):
            if name not in self.bnp:
                continue
            case = dict(leafcase, kind=kind or prefix, expr=L(name))
            dense = self.split(self.np[name].tolist())
            if not check_to_dict(col, self.bnp[name], self.genome, dense,
                                 prefix + ":leaf:" + ("track" if name in "AB" else "mask" if name in "MK" else "pileup"), case, eq=eq):
                self.bad.add(name)

    def split(self, flat):
        out, p = {}, 0
        for n, s in self.genome:
            out[n] = flat[p:p + s]
            p += s
        return out

    def eval(self, e):
        """-> (genomic value, numpy value); raises whatever the operation raises; caches sub-expressions"""
        if e[0] == "leaf":
            return self.bnp[e[1]], self.np[e[1]]
        if e[0] == "scalar":
            return e[1], e[1]
        key = expr_str(e)
        if key in self.cache:
            return self.cache[key]
        if e[0] == "not":
            a, b = self.eval(e[1])
            r = (operator.invert(a), operator.invert(b))
        else:
            (a1, b1), (a2, b2) = self.eval(e[1]), self.eval(e[2])
            f = BINOPS[e[0]]
            r = (f(a1, a2), f(b1, b2))
        self.cache[key] = r
        return r


def check_expr(col, env, leafcase, e, full=True, prefix="expr", kind="expr", contract="expression"):
    import numpy as np
    case = dict(leafcase, kind=kind, expr=e)
    key = expr_str(e)
    # an operand whose own value is already known to be wrong (reported at its own level) is not blamed on this operator
    if any(expr_str(x) in env.bad for x in e[1:] if x[0] != "scalar"):
        env.bad.add(key)
        return
    col.case({"leaves": leafcase, "expr": key}, contract="%s:depth%d" % (contract, expr_depth(e)))
    rs = root_sig(e)
    # operands first (sub-expression failures have been reported at their own level)
    try:
        ops = [env.eval(x) for x in e[1:]]
    except Exception:
        return
    try:
        if e[0] == "not":
            exp = operator.invert(ops[0][1])
        else:
            exp = BINOPS[e[0]](ops[0][1], ops[1][1])
    except TypeError:
        return      # not a NumPy expression (ill-typed): outside the property
    got = col.guarded(lambda: env.eval(e)[0], prefix + ":" + rs, case)
    if got is None:
        return
    genome = env.genome
    dense = env.split(np.asarray(exp).tolist())
    sig = prefix + ":" + rs
    col.check((got.dtype == bool) == (exp.dtype == bool), sig + ":boolean-ness-differs", case,
              "%s: dtype %r, NumPy gives %r" % (expr_str(e), got.dtype, exp.dtype))
    if not check_to_dict(col, got, genome, dense, sig, case):
        env.bad.add(key)
        return
    total = exp.sum()
    s = col.guarded(lambda: (np.sum(got), got.sum()), prefix + ":sum", case)
    if s is not None:
        col.check(s[0] == total and s[1] == total, prefix + ":sum:wrong:" + ("bool" if exp.dtype == bool else "numeric"), case,
                  "%s: got %r expected %r" % (expr_str(e), s, total))
    if not full:
        return
    if exp.dtype != bool:
        check_histogram(col, got, genome, dense, prefix, case,
                        kws=({}, {"bins": 3, "range": (-1, 4)}, {"bins": [-4, 0, 0.5, 2, 16]}))
    check_backconversion(col, got, genome, dense, prefix, case, is_bool=bool(exp.dtype == bool))


def expr_depth(e):
    if e[0] in ("leaf", "scalar"):
        return 0
    return 1 + max(expr_depth(x) for x in e[1:])


def leaf_sets(tier):
    """(A, B, M, K) leaf combinations; A int, B float (or int), chosen over the construction paths:
    first record at 0 / later, last at size / before, gaps inside, gap across the chromosome boundary, empty"""
    g2 = [("chr1", 3), ("chr2", 2)]
    a_opts = [
        [("chr1", 0, 3, 1), ("chr2", 0, 2, 2)],                      # full coverage, no gaps
        [("chr1", 1, 2, 3)],                                          # interior only, chr2 empty
        [("chr1", 0, 1, 2), ("chr1", 2, 3, 1), ("chr2", 1, 2, 3)],    # gaps, boundary gap
        [("chr1", 0, 2, 1), ("chr2", 0, 1, 1)],                      # equal values on both sides of a gap
        [("chr2", 0, 2, 2)],                                          # chr1 empty
        [],                                                           # empty bedGraph
    ]
    b_opts = [
        [("chr1", 0, 1, 0.5), ("chr1", 1, 3, 2.0), ("chr2", 0, 2, -1.5)],
        [("chr1", 2, 3, 2.5), ("chr2", 0, 1, 2.5)],                  # run across the chromosome boundary with one value
        [("chr1", 1, 3, 1.0)],
        [("chr1", 0, 3, 2.0), ("chr2", 0, 2, 2.0)],
        [],
    ]
    m_opts = [[("chr1", 1, 3), ("chr2", 0, 1)], [("chr1", 0, 3), ("chr2", 0, 2)], [], [("chr1", 0, 1), ("chr2", 1, 2)]]
    k_opts = [[("chr1", 0, 2)], [("chr2", 0, 2), ("chr1", 2, 3)], [("chr1", 1, 2), ("chr1", 0, 3)], []]
    out = []
    for i, a in enumerate(a_opts):
        for j, b in enumerate(b_opts):
            out.append({"genome": g2, "A": a, "A_type": "int", "B": b, "B_type": "float",
                        "M": m_opts[(i + j) % 4], "K": k_opts[(i + 2 * j) % 4]})
    # int x int, and other genome shapes (1, 3, 4 chromosomes; genome order not alphabetical)
    out.append({"genome": g2, "A": a_opts[2], "A_type": "int", "B": [("chr1", 0, 2, 2), ("chr2", 0, 2, 3)], "B_type": "int",
                "M": m_opts[0], "K": k_opts[1]})
    out.append({"genome": [("chr1", 5)], "A": [("chr1", 1, 2, 1), ("chr1", 2, 4, 2)], "A_type": "int",
                "B": [("chr1", 0, 2, 0.5), ("chr1", 3, 5, 1.5)], "B_type": "float", "M": [("chr1", 0, 2), ("chr1", 1, 4)], "K": [("chr1", 4, 5)]})
    out.append({"genome": [("chrB", 2), ("chrA", 1), ("chr10", 2)], "A": [("chrB", 1, 2, 1), ("chrA", 0, 1, 1), ("chr10", 0, 1, 2)],
                "A_type": "int", "B": [("chrB", 0, 2, 0.5), ("chr10", 1, 2, 1.5)], "B_type": "float",
                "M": [("chr10", 0, 2), ("chrB", 1, 2)], "K": [("chrA", 0, 1)]})
    out.append({"genome": [("chr1", 2), ("chr2", 1), ("chr3", 2), ("chr4", 1)],
                "A": [("chr1", 0, 2, 1), ("chr3", 1, 2, 2), ("chr4", 0, 1, 3)], "A_type": "int",
                "B": [("chr1", 1, 2, 0.5), ("chr2", 0, 1, 0.5), ("chr3", 0, 2, 2.0)], "B_type": "float",
                "M": [("chr2", 0, 1), ("chr3", 0, 1)], "K": [("chr1", 0, 2), ("chr4", 0, 1)]})
    return out


def run_expressions(col, tier):
    n1, b1 = depth1_exprs()
    d1 = n1 + b1
    sets = leaf_sets(tier)
    d2 = None
    # depth 2: exhaustive over the typed grammar on a few leaf sets (thorough) / a strided + seeded sample (quick)
    deep = [2, 7, 12, 31, 33] if tier == "quick" else [2, 7, 12, 23, 31, 33]
    per_set = 500 if tier == "quick" else None
    for idx, leafcase in enumerate(sets):
        if col.out_of_time():
            return
        env = col.guarded(lambda: ExprEnv(col, leafcase), "expr:leaves", dict(leafcase, kind="expr", expr=L("A")))
        if env is None:
            continue
        env.check_leaves(col, leafcase)
        for e in d1:
            safely(col, lambda c: check_expr(col, env, leafcase, e, full=True), dict(leafcase, kind="expr", expr=e), nocol=True)
        if idx in deep:
            if d2 is None:
                d2 = list(depth2_exprs())
            if per_set is None:
                chosen = range(len(d2))
            else:
                stride = max(1, len(d2) // (per_set // 2))
                chosen = sorted(set(list(range(idx % stride, len(d2), stride)) +
                                    [col.rng.randrange(len(d2)) for _ in range(per_set // 2)]))
            for n, i in enumerate(chosen):
                safely(col, lambda c: check_expr(col, env, leafcase, d2[i], full=(n % 4 == 0)),
                       dict(leafcase, kind="expr", expr=d2[i]), nocol=True)
                if n % 200 == 0 and col.out_of_time():
                    return


# --------------------------------------------------------------------------------------------- G  floats that are not exactly summable
# Scopes A-F use small dyadic rationals only; here the run values are ordinary decimal fractions of very different
# magnitude (0.1 next to 1234567.891), +-inf and (run-length level only) NaN.  "Exact" is equality of the float64 bit
# patterns, never a tolerance: the dense expansion has to reproduce every run value bit for bit and every gap as 0.
def fbits(x):
    """float64 bit pattern of a number; the only identifications are the ones NumPy's == makes for results of
    operations: every NaN is one class, -0.0 is 0.0"""
    x = float(x)
    if x != x:
        return "nan"
    if x == 0:
        return 0
    return struct.unpack("<Q", struct.pack("<d", x))[0]


def bits_equal(got, exp):
    return len(got) == len(exp) and all(fbits(g) == fbits(e) for g, e in zip(got, exp))


INF = float("inf")
FBIT_PALETTES = [["0.1", "1234567.891", "0.7"], ["0.2", "inf", "0.001"], ["nan", "17.17", "-inf"], ["0.3", "-0.1", "2.3"]]
FBIT_UINT = {"float64": "uint64", "float32": "uint32", "float16": "uint16"}


def check_to_array_bits(col, case):
    """GenomicRunLengthArray(events, values).to_array() repeats the bit pattern of every run value (strict: NaN payload
    and sign of zero included - nothing is computed here, the values are only copied)"""
    import numpy as np
    from bionumpy.arithmetics.intervals import GenomicRunLengthArray
    runs, dt = case["runs"], case["dtype"]
    col.case(case, contract="GenomicRunLengthArray.to_array:float-bits")
    events = np.array([0] + list(itertools.accumulate(runs)), dtype=int)
    with np.errstate(over="ignore"):        # 1234567.891 is inf in float16: still a value to be copied
        values = np.array([float(v) for v in case["values"]], dtype=dt)
    u = FBIT_UINT[dt]
    exp = [b for b, n in zip(values.view(u).tolist(), runs) for _ in range(n)]
    sig = "to_array:float-bits"
    rla = col.guarded(lambda: GenomicRunLengthArray(events, values), sig + ":construct", case)
    if rla is None:
        return
    got = col.guarded(lambda: np.asarray(rla.to_array()), sig, case)
    if got is None:
        return
    col.check(len(got) == sum(runs), sig + ":wrong-length", case, "len %r expected %r" % (len(got), sum(runs)))
    if not col.check(got.dtype == values.dtype, sig + ":dtype-changed", case, "got %r expected %r" % (got.dtype, values.dtype)):
        return
    col.check(got.view(u).tolist() == exp, sig + ":not-bit-exact", case,
              "got %r (bits %r) expected %r (bits %r)" % (got.tolist(), got.view(u).tolist(),
                                                          [v for v, n in zip(values.tolist(), runs) for _ in range(n)], exp))


def gen_to_array_bits(tier):
    quick = tier == "quick"
    max_n = 5 if quick else 7
    for dt in FBIT_UINT:
        for pal in (FBIT_PALETTES[:3] if quick else FBIT_PALETTES):
            for n in range(1, max_n + 1):
                for runs in compositions(n):
                    k = len(runs)
                    for f in ((lambda i: pal[i % 3]), (lambda i: pal[(i // 2) % 3]), (lambda i: pal[(i + 1) % 3])):
                        yield {"kind": "to_array_bits", "runs": runs, "values": [f(i) for i in range(k)], "dtype": dt}


FX_PATTERNS = {
    # name -> (finite?, i -> value): neighbours differ by orders of magnitude, so no running sum reproduces them
    "fx-mixed": (True, lambda i: (0.1, 1234567.891, 0.7, 2.3)[i % 4]),
    "fx-small": (True, lambda i: (0.2, 0.001, 17.17, 0.3)[i % 4]),
    "fx-neg": (True, lambda i: (-0.1, 0.7, -1234.5678, 0.1)[i % 4]),
    "fx-inf": (False, lambda i: (0.1, INF, 0.7, -INF)[i % 4]),
}
FX_HIST = ({"bins": [-2000, 0, 0.1, 0.7, 10, 1e7]}, {"bins": 5, "range": (0, 2.5)})


def fx_records(names, lays, pattern):
    f = FX_PATTERNS[pattern][1]
    recs, i = [], 0
    for n, lay in zip(names, lays):
        for s, e in lay:
            recs.append((n, s, e, f(i)))
            i += 1
    return recs


def approx_sum_ok(got, dense_flat):
    """np.sum of floats has no prescribed evaluation order: relative 1e-9 against the correctly rounded sum"""
    exp = math.fsum(dense_flat)
    scale = math.fsum(abs(x) for x in dense_flat)
    return all(abs(float(g) - exp) <= 1e-9 * scale + 1e-300 for g in got)


def check_ftrack(col, case, tmp=None):
    """bedGraph track with inexact float values -> genomic array: every observation of the dense array is bit-exact"""
    import numpy as np
    from bionumpy.genomic_data import GenomicArray
    genome = [tuple(g) for g in case["genome"]]
    recs = [tuple(r) for r in case["records"]]
    route, finite = case["route"], all(abs(r[3]) != INF for r in recs)
    dense = dense_genome(genome, recs, 0.0)
    col.case(case, contract="float-track:" + route)
    g = make_genome(genome)
    sig = "float-track:%s" % route
    if route == "stream":
        return check_ftrack_stream(col, case, g, genome, recs, dense, sig)
    if route == "get_track":
        t = col.guarded(lambda: g.get_track(build_bedgraph(recs, "float")), sig, case)
    elif route == "from_bedgraph":
        t = col.guarded(lambda: GenomicArray.from_bedgraph(build_bedgraph(recs, "float"), g.get_genome_context()), sig, case)
    elif route == "file":
        path = os.path.join(tmp, "f.bdg")
        with open(path, "w") as f:
            f.write(bedgraph_text(recs, "float"))
        t = col.guarded(lambda: g.read_track(path), sig, case)
    else:
        raise ValueError(route)
    if t is None:
        return
    if recs:
        col.check(t.dtype == np.float64, sig + ":dtype-changed", case, "dtype %r" % (t.dtype,))
    if not check_to_dict(col, t, genome, dense, sig, case, eq=bits_equal):
        return
    light = case.get("light", False)     # quick tier, 2-4 chromosomes: per-chromosome views, histogram, round trip on every 4th case
    flat = [x for n, _ in genome for x in dense[n]]
    if finite:
        got = col.guarded(lambda: (np.sum(t), t.sum()), sig + ":sum", case)
        if got is not None:
            col.check(approx_sum_ok(got, flat), "float-track:sum:wrong", case, "got %r expected %r" % (got, math.fsum(flat)))
        if not light:
            check_histogram(col, t, genome, dense, "float-track", case, kws=FX_HIST)
    data = check_backconversion(col, t, genome, dense, sig, case, eq=bits_equal)
    if light:
        return
    if data is not None and route == "get_track" and recs:
        t2 = col.guarded(lambda: g.get_track(data), "float-track:roundtrip", case)
        if t2 is not None:
            check_to_dict(col, t2, genome, dense, "float-track:roundtrip", case, eq=bits_equal)
    for n, s in genome:
        rla = col.guarded(lambda: t[n], sig + ":getitem-chromosome", case)
        if rla is None:
            continue
        got = col.guarded(lambda: np.asarray(rla.to_array()).tolist(), sig + ":getitem-chromosome", case)
        if got is not None:
            col.check(bits_equal(got, dense[n]), sig + ":getitem-chromosome:wrong-dense", case,
                      "%s: got %r expected %r" % (n, got, dense[n]))
        bg = col.guarded(lambda: rla.to_bedgraph(n), sig + ":to_bedgraph", case)
        if bg is not None:
            check_backconversion(col, None, [(n, s)], {n: dense[n]}, "float-track:to_bedgraph", case, is_bool=False, data=bg,
                                 eq=bits_equal)


def check_ftrack_stream(col, case, g, genome, recs, dense, sig):
    import numpy as np
    from bionumpy.streams import NpDataclassStream
    from bionumpy.computation_graph import compute
    split = case.get("split")

    def chunks():
        if not recs:
            return NpDataclassStream([])
        bg = build_bedgraph(recs, "float")
        if split is None or not (0 < split < len(recs)):
            return NpDataclassStream([bg])
        return NpDataclassStream([bg[:split], bg[split:]])
    data = col.guarded(lambda: compute(g.get_track(chunks()).get_data()), sig, case)
    if data is not None:
        check_backconversion(col, None, genome, dense, sig, case, is_bool=False, data=data, eq=bits_equal)
    d2 = col.guarded(lambda: compute((g.get_track(chunks()) * 3).get_data()), sig + ":mul-scalar", case)
    if d2 is not None:
        check_backconversion(col, None, genome, {n: [x * 3 for x in dense[n]] for n, _ in genome}, sig + ":mul-scalar", case,
                             is_bool=False, data=d2, eq=bits_equal)
    d3 = col.guarded(lambda: compute((g.get_track(chunks()) > 0.5).get_data()), sig + ":gt-scalar", case)
    if d3 is not None:
        check_backconversion(col, None, genome, {n: [x > 0.5 for x in dense[n]] for n, _ in genome}, sig + ":gt-scalar", case,
                             is_bool=True, data=d3)


def gen_ftracks(tier):
    quick = tier == "quick"
    pats = list(FX_PATTERNS)
    for size in range(1, (4 if quick else 6) + 1):
        for lay in layouts(size):
            for pat in (pats if size < (4 if quick else 6) else ("fx-mixed", "fx-inf")):
                recs = fx_records(NAMES, [lay], pat)
                base = {"kind": "ftrack", "genome": [(NAMES[0], size)], "records": recs}
                yield dict(base, route="get_track")
                if FX_PATTERNS[pat][0] and size <= 4 and (not quick or pat == "fx-mixed"):
                    yield dict(base, route="file")
                if size <= 3 and pat in ("fx-mixed", "fx-inf"):
                    yield dict(base, route="stream")
                if size <= 3 and pat == "fx-mixed":
                    yield dict(base, route="from_bedgraph")
    for sizes in ([(3, 2), (2, 3)] if quick else [(3, 2), (2, 3), (3, 3), (4, 3)]):
        genome = list(zip(NAMES, sizes))
        k = 0
        for l1 in layouts(sizes[0]):
            for l2 in layouts(sizes[1]):
                for pat in ((("fx-mixed", "fx-inf") if sizes == (3, 2) else ("fx-mixed",)) if quick else
                            (pats if sizes != (4, 3) else ("fx-mixed", "fx-inf"))):
                    k += 1
                    recs = fx_records(NAMES, [l1, l2], pat)
                    yield {"kind": "ftrack", "genome": genome, "records": recs, "route": "get_track",
                           "light": bool((quick or sizes == (4, 3)) and k % 4)}
                    if sizes == (3, 2) and pat == "fx-mixed" and not (quick and k % 4 == 1):
                        yield {"kind": "ftrack", "genome": genome, "records": recs, "route": "file", "light": quick}
                        yield {"kind": "ftrack", "genome": genome, "records": recs, "route": "stream",
                               "split": len(l1) if (len(l1) + len(l2)) % 2 else 1}
    for names, sizes in ((NAMES_UNSORTED, (3, 2, 3)),) if quick else ((NAMES_UNSORTED, (3, 2, 3)), (NAMES, (2, 4, 1, 3))):
        genome = list(zip(names, sizes))
        for k, lays in enumerate(itertools.product(*[chrom_classes(s) for s in sizes])):
            if quick and k % 2:
                continue
            pat = pats[(k // 2 if quick else k) % len(pats)]
            yield {"kind": "ftrack", "genome": genome, "records": fx_records(names, lays, pat), "route": "get_track",
                   "light": bool(k % 8 if quick else (len(sizes) == 4 and k % 4))}


# expressions over float tracks with inexact values: the same IEEE operation on the same operands gives the same bits,
# whether it is done on the run values or on the dense array
FX_SCALARS = (3, 0.1, 0.7)


def fexpr_list():
    A, B = L("A"), L("B")
    sc = [S(s) for s in FX_SCALARS]
    pairs = [(x, y) for x in (A, B) for y in (A, B)] + [(x, s) for x in (A, B) for s in sc] + [(s, x) for x in (A, B) for s in sc]
    d1 = [[op, x, y] for op in ARITH + CMP for x, y in pairs] + [["mul", L("M"), A], ["mul", B, L("K")]]
    d2 = [["add", ["mul", A, S(3)], B], ["gt", ["add", A, S(0.1)], B], ["mul", ["gt", A, S(0.1)], B], ["sub", ["mul", A, B], A],
          ["and", ["gt", A, S(0.2)], L("M")], ["or", ["eq", A, S(0.7)], ["lt", B, S(0.1)]], ["not", ["lt", A, B]],
          ["sub", ["add", A, B], B], ["mul", ["add", A, S(0.1)], S(3)], ["eq", ["add", A, A], ["mul", A, S(2)]]]
    return d1, d2


def fexpr_leaf_sets(tier):
    g2 = [("chr1", 4), ("chr2", 3)]
    a_opts = [
        [("chr1", 0, 1, 0.1), ("chr1", 1, 3, 1234567.891), ("chr1", 3, 4, 0.7), ("chr2", 0, 3, 2.3)],     # no gaps at all
        [("chr1", 1, 2, 1234567.891), ("chr1", 2, 3, 0.7), ("chr2", 1, 2, 0.2)],                          # gaps everywhere
        [("chr1", 0, 2, 0.1), ("chr2", 2, 3, 17.17)],
        [("chr1", 1, 3, INF), ("chr1", 3, 4, 0.1), ("chr2", 0, 1, -INF), ("chr2", 1, 3, 0.3)],
        [("chr1", 3, 4, 0.001), ("chr2", 0, 1, 123456.789)],                                              # run across the boundary
        [],
    ]
    b_opts = [
        [("chr1", 0, 4, 0.2), ("chr2", 0, 3, 0.7)],
        [("chr1", 2, 4, 0.001), ("chr2", 0, 2, 123456.789)],
        [("chr1", 0, 1, -0.1), ("chr1", 2, 3, 0.1), ("chr2", 1, 3, INF)],
    ]
    m_opts = [[("chr1", 1, 3), ("chr2", 0, 1)], [("chr1", 0, 4), ("chr2", 0, 3)], [("chr1", 0, 1), ("chr2", 2, 3)]]
    k_opts = [[("chr1", 0, 2)], [("chr2", 0, 3), ("chr1", 3, 4)], []]
    out = []
    for i, a in enumerate(a_opts):
        for j, b in enumerate(b_opts):
            if tier == "quick" and j != i % 3:
                continue
            out.append({"genome": g2, "A": a, "A_type": "float", "B": b, "B_type": "float",
                        "M": m_opts[(i + j) % 3], "K": k_opts[(i + 2 * j) % 3]})
    out.append({"genome": [("chr1", 6)], "A": [("chr1", 1, 2, 0.1), ("chr1", 2, 4, 1234567.891), ("chr1", 4, 5, 0.7)], "A_type": "float",
                "B": [("chr1", 0, 2, 0.3), ("chr1", 3, 6, 0.2)], "B_type": "float", "M": [("chr1", 0, 2), ("chr1", 1, 4)], "K": [("chr1", 5, 6)]})
    out.append({"genome": [("chrB", 2), ("chrA", 1), ("chr10", 3)],
                "A": [("chrB", 1, 2, 0.7), ("chrA", 0, 1, 1234567.891), ("chr10", 0, 1, 0.1), ("chr10", 2, 3, 0.2)], "A_type": "float",
                "B": [("chrB", 0, 2, 0.1), ("chr10", 1, 3, 17.17)], "B_type": "float", "M": [("chr10", 0, 2), ("chrB", 1, 2)], "K": [("chrA", 0, 1)]})
    return out


def check_fexpr(col, env, leafcase, e, full=True):
    import numpy as np
    case = dict(leafcase, kind="fexpr", expr=e)
    key = expr_str(e)
    if any(expr_str(x) in env.bad for x in e[1:] if x[0] != "scalar"):
        env.bad.add(key)
        return
    col.case({"leaves": leafcase, "expr": key, "scope": "inexact floats"}, contract="float-expression:depth%d" % expr_depth(e))
    rs = root_sig(e)
    with np.errstate(all="ignore"):         # inf - inf, inf * 0: NaN on both sides
        try:
            ops = [env.eval(x) for x in e[1:]]
        except Exception:
            return
        try:
            exp = operator.invert(ops[0][1]) if e[0] == "not" else BINOPS[e[0]](ops[0][1], ops[1][1])
        except TypeError:
            return
        got = col.guarded(lambda: env.eval(e)[0], "fexpr:" + rs, case)
    if got is None:
        return
    genome, sig = env.genome, "fexpr:" + rs
    flat = np.asarray(exp).tolist()
    dense = env.split(flat)
    col.check((got.dtype == bool) == (exp.dtype == bool), sig + ":boolean-ness-differs", case,
              "%s: dtype %r, NumPy gives %r" % (key, got.dtype, exp.dtype))
    if not check_to_dict(col, got, genome, dense, sig, case, eq=bits_equal):
        env.bad.add(key)
        return
    if exp.dtype == bool or all(x == x and abs(x) != INF for x in flat):
        s = col.guarded(lambda: (np.sum(got), got.sum()), "fexpr:sum", case)
        if s is not None:
            ok = (s[0] == sum(flat) and s[1] == sum(flat)) if exp.dtype == bool else approx_sum_ok(s, flat)
            col.check(ok, "fexpr:sum:wrong:" + ("bool" if exp.dtype == bool else "numeric"), case,
                      "%s: got %r expected %r" % (key, s, math.fsum(flat)))
    if full and all(x == x for x in flat):
        check_backconversion(col, got, genome, dense, "fexpr", case, is_bool=bool(exp.dtype == bool), eq=bits_equal)


def run_fexpressions(col, tier):
    d1, d2 = fexpr_list()
    for leafcase in fexpr_leaf_sets(tier):
        if col.out_of_time():
            return
        env = col.guarded(lambda: ExprEnv(col, leafcase), "fexpr:leaves", dict(leafcase, kind="fexpr", expr=L("A")))
        if env is None:
            continue
        env.check_leaves(col, leafcase, prefix="fexpr", eq=bits_equal)
        for e in d1 + d2:       # operands before the expressions that use them
            safely(col, lambda c: check_fexpr(col, env, leafcase, e), dict(leafcase, kind="fexpr", expr=e), nocol=True)


# --------------------------------------------------------------------------------------------- H  coordinates beyond 32 bits
# A contig, or a genome whose chromosomes are concatenated into one run-length array, of 2**31 .. 2**32+ bases with a
# handful of intervals.  The dense array is never built: the oracle is the piecewise constant function of the records
# (evaluated in plain Python at one position per segment between consecutive breakpoints); observed are the runs
# (starts, ends, values), exact sums, single positions and short dense windows around every breakpoint.
P31, P32 = 2 ** 31, 2 ** 32
HG38 = [("chr1", 248956422), ("chr2", 242193529), ("chr3", 198295559), ("chr4", 190214555), ("chr5", 181538259),
        ("chr6", 170805979), ("chr7", 159345973), ("chr8", 145138636), ("chr9", 138394717), ("chr10", 133797422),
        ("chr11", 135086622), ("chr12", 133275309), ("chr13", 114364328), ("chr14", 107043718), ("chr15", 101991189),
        ("chr16", 90338345), ("chr17", 83257441), ("chr18", 80373285), ("chr19", 58617616), ("chr20", 64444167),
        ("chr21", 46709983), ("chr22", 50818468), ("chrX", 156040895), ("chrY", 57227415), ("chrM", 16569)]


def size_class(n):
    return "lt2p31" if n < P31 else ("lt2p32" if n < P32 else "ge2p32")


def merge_runs(runs):
    """maximal runs of a tiling [(start, stop, value)]: empty runs dropped, equal neighbours joined"""
    out = []
    for s, e, v in runs:
        if e <= s:
            continue
        if out and out[-1][1] == s and fbits(out[-1][2]) == fbits(v):
            out[-1][1] = e
        else:
            out.append([s, e, v])
    return [tuple(r) for r in out]


def pw_runs(size, breakpoints, f):
    """maximal runs of the function f on [0, size) that is constant between consecutive breakpoints"""
    bps = sorted({0, size} | {b for b in breakpoints if 0 < b < size})
    return merge_runs([(a, b, f(a)) for a, b in zip(bps, bps[1:])])


def runs_equal(a, b):
    return len(a) == len(b) and all(x[0] == y[0] and x[1] == y[1] and fbits(x[2]) == fbits(y[2]) for x, y in zip(a, b))


def tiles(runs, size):
    return bool(runs) and runs[0][0] == 0 and runs[-1][1] == size and all(a < b for a, b, _ in runs) and \
        all(runs[i][1] == runs[i + 1][0] for i in range(len(runs) - 1))


def probes_of(size, breakpoints, limit=10):
    ps = sorted({p for b in breakpoints for p in (b - 1, b) if 0 <= p < size} | {0, size - 1})
    if len(ps) > limit:
        ps = ps[:limit // 2] + ps[-(limit - limit // 2):]
    return ps


def check_rla_pw(col, rla, size, f, bps, sig, cls, case, windows=True):
    """one run-length array of length `size` against the piecewise constant function f with breakpoints bps"""
    import numpy as np
    exp = pw_runs(size, bps, f)
    if not col.check(len(rla) == size, sig + ":wrong-length:" + cls, case, "len %r size %r" % (len(rla), size)):
        return False
    runs = col.guarded(lambda: list(zip(np.asarray(rla.starts).tolist(), np.asarray(rla.ends).tolist(),
                                        np.asarray(rla.values).tolist())), sig + ":runs:" + cls, case)
    if runs is None:
        return False
    ok = col.check(tiles(runs, size) and runs_equal(merge_runs(runs), exp), sig + ":runs-wrong:" + cls, case,
                   "runs %r expected (maximal) %r" % (runs[:12], exp[:12]))
    for p in probes_of(size, bps):
        got = col.guarded(lambda: rla[p], sig + ":probe:" + cls, case)
        if got is not None:
            ok &= col.check(fbits(got) == fbits(f(p)), sig + ":probe-wrong:" + cls, case, "[%d] = %r expected %r" % (p, got, f(p)))
    if windows:
        for b in sorted({0, size} | set(bps))[:8]:
            lo, hi = max(0, b - 3), min(size, b + 3)
            got = col.guarded(lambda: np.asarray(rla[lo:hi].to_array()).tolist(), sig + ":window:" + cls, case)
            if got is not None:
                want = [f(p) for p in range(lo, hi)]
                ok &= col.check(bits_equal(got, want), sig + ":window-wrong:" + cls, case,
                                "[%d:%d].to_array() = %r expected %r" % (lo, hi, got, want))
    if all(isinstance(v, (bool, int)) for _, _, v in exp):
        total = sum((e - s) * int(v) for s, e, v in exp)
        got = col.guarded(lambda: (int(rla.sum()), int(np.sum(rla))), sig + ":sum:" + cls, case)
        if got is not None:
            ok &= col.check(got == (total, total), sig + ":sum-wrong:" + cls, case, "got %r expected %r" % (got, total))
        if all(isinstance(v, bool) for _, _, v in exp):
            got = col.guarded(lambda: int((~rla).sum()), sig + ":invert:" + cls, case)
            if got is not None:
                ok &= col.check(got == size - total, sig + ":invert-sum-wrong:" + cls, case, "got %r expected %r" % (got, size - total))
    return ok


def f_records(recs, default):
    """position -> value of the (non-overlapping) record that contains it, default in the gaps"""
    def f(p):
        for s, e, v in recs:
            if s <= p < e:
                return v
        return default
    return f


BIG_FI_MODES = {"scalar-True": (True, False), "scalar-int": (3, 0), "scalar-float": (0.1, 0.0), "scalar-int-default5": (1, 5)}
BIG_BG_PATTERNS = {"int-alt": VALUE_PATTERNS["int-alt"], "fx-mixed": ("float", FX_PATTERNS["fx-mixed"][1])}


def check_big_contig(col, case):
    import numpy as np
    from bionumpy.datatypes import BedGraph, Interval
    from bionumpy.arithmetics.intervals import GenomicRunLengthArray, get_boolean_mask, get_pileup
    api, size, ivs = case["api"], case["size"], [tuple(x) for x in case["intervals"]]
    col.case(case, contract="big-contig:" + api)
    cls = size_class(size)
    sig = "big:" + api
    bps = [p for iv in ivs for p in iv]
    starts = np.array([s for s, _ in ivs], dtype=np.int64)
    ends = np.array([e for _, e in ivs], dtype=np.int64)
    if api == "from_intervals":
        v, default = BIG_FI_MODES[case["mode"]]
        f = f_records([(s, e, v) for s, e in ivs], default)
        rla = col.guarded(lambda: GenomicRunLengthArray.from_intervals(starts, ends, size, values=v, default_value=default),
                          sig + ":" + cls, case)
    elif api == "from_bedgraph":
        vtype, pf = BIG_BG_PATTERNS[case["pattern"]]
        vals = [pf(i) for i in range(len(ivs))]
        f = f_records([(s, e, x) for (s, e), x in zip(ivs, vals)], 0)
        bg = BedGraph(["c"] * len(ivs), starts, ends, np_values(vals, vtype))
        rla = col.guarded(lambda: GenomicRunLengthArray.from_bedgraph(bg, size), sig + ":" + cls, case)
    elif api in ("get_boolean_mask", "get_pileup"):
        if api == "get_boolean_mask":
            def f(p):
                return any(s <= p < e for s, e in ivs)
        else:
            def f(p):
                return sum(1 for s, e in ivs if s <= p < e)
        iv = Interval(["c"] * len(ivs), starts, ends) if ivs else Interval.empty()
        fn = get_boolean_mask if api == "get_boolean_mask" else get_pileup
        rla = col.guarded(lambda: fn(iv, size), sig + ":" + cls, case)
    else:
        raise ValueError(api)
    if rla is None:
        return
    if api in ("get_boolean_mask",) or (api == "from_intervals" and case["mode"] == "scalar-True"):
        col.check(rla.dtype == bool, sig + ":not-boolean:" + cls, case, "dtype %r" % (rla.dtype,))
    check_rla_pw(col, rla, size, f, bps, sig, cls, case)


BIG_SIZES = (P31 - 1, P31, P31 + 1, P32 - 1, P32, P32 + 7, 3_000_001_000)


def big_candidates(size):
    c = [(0, 7), (10, 20), (size - 30, size - 12), (size - 9, size)]
    for m in (P31, P32):
        c += [(m - 40, m - 25), (m - 5, m + 5), (m + 8, m + 20)]
    return sorted({(s, e) for s, e in c if 0 <= s < e <= size})


def subsets_upto(items, k):
    for n in range(k + 1):
        for c in itertools.combinations(items, n):
            yield list(c)


def gen_big_contig(tier):
    quick = tier == "quick"
    for size in BIG_SIZES:
        cand = big_candidates(size)
        for lay in subsets_upto(cand, 2 if quick else 3):
            if any(lay[i][1] >= lay[i + 1][0] for i in range(len(lay) - 1)):
                continue            # sorted, non-overlapping, not touching (touching: the known small-scope finding)
            for mode in BIG_FI_MODES:
                yield {"kind": "big_contig", "api": "from_intervals", "size": size, "intervals": lay, "mode": mode}
            for pat in BIG_BG_PATTERNS:
                yield {"kind": "big_contig", "api": "from_bedgraph", "size": size, "intervals": lay, "pattern": pat}
        # touching records are legal in a bedGraph
        for m in (P31, P32):
            if m + 9 <= size:
                for pat in BIG_BG_PATTERNS:
                    yield {"kind": "big_contig", "api": "from_bedgraph", "size": size, "pattern": pat,
                           "intervals": [(0, 4), (4, 9), (m - 6, m), (m, m + 9)]}
        # any order, overlapping, nested, duplicated
        cover = cand + [(5, 15)] + [(m - 2, m + 12) for m in (P31, P32) if m + 12 <= size]
        for k, ivs in enumerate(subsets_upto(cover, 2 if quick else 3)):
            if k % 2:
                ivs = ivs[::-1]
            for api in ("get_boolean_mask", "get_pileup"):
                yield {"kind": "big_contig", "api": api, "size": size, "intervals": ivs}
        yield {"kind": "big_contig", "api": "get_pileup", "size": size, "intervals": [cand[-1], cand[-1], cand[0]]}


# ---- genomes whose concatenation does not fit 32 bits
BIG_GENOMES = {
    "2x2^30-1": [("chr1", 2 ** 30), ("chr2", 2 ** 30 - 1)],                       # total 2**31 - 1: the last size that fits
    "2x2^30": [("chr1", 2 ** 30), ("chr2", 2 ** 30)],                              # total 2**31
    "2x2e9": [("chr1", 2_000_000_000), ("chr2", 2_000_000_000)],                   # second offset in (2**31, 2**32)
    "3e9+small+2^32": [("chrB", 3_000_000_000), ("chrA", 16569), ("chr10", 2 ** 32)],    # single contigs >= 2**31, 2**32
    "hg38": HG38,                                                                   # every contig < 2**31, total 3.09e9
    # the OFFSET of a chromosome in the concatenation is at / beyond 2**32 (every genome above keeps all offsets below 2**32)
    "4x1.5e9": [("chr%d" % i, 1_500_000_000) for i in (1, 2, 3, 4)],                # offsets 0, 1.5e9, 3e9, 4.5e9: every contig < 2**31
    "2^32+1000+5000": [("chr1", 2 ** 32), ("chr2", 1000), ("chr3", 5000)],          # offsets exactly 2**32 and 2**32 + 1000
    "2^32-1+1000+5000": [("chrB", 2 ** 32 - 1), ("chrA", 1000), ("chr10", 5000)],   # offset 2**32 - 1: chrA straddles 2**32
    "5x3e9": [("chr%d" % i, 3_000_000_000) for i in (1, 2, 3, 4, 5)],               # offsets up to 12e9 (beyond 2**33)
}
# a big genome with ignored contigs (names with '_'): the arrays live on chr1 + chr2 only
BIG_CONTIGS = {"2x2e9+alts": [("chr1", 2_000_000_000), ("chr1_KI270706v1_random", 175_055), ("chr2", 2_000_000_000),
                              ("chrUn_GL000195v1", 300_000_000)]}
BIG_GENOMES["2x2e9+alts"] = [(n, s) for n, s in BIG_CONTIGS["2x2e9+alts"] if "_" not in n]
BIG_HOT = {"hg38": ("chr1", "chr17", "chrX", "chrM")}      # chromosomes that get intervals (chr17.. lie beyond 2**31)


def genome_candidates(gname, per_chrom=4):
    out = []
    for n, s in BIG_GENOMES[gname]:
        if n not in BIG_HOT.get(gname, [n]):
            continue
        c = [(0, 10), (5, 30), (s - 10, s), (s // 2, s // 2 + 100), (s - 50, s - 20)][:per_chrom]
        out += [(n, a, b) for a, b in c]
    return out


def f_genome(kind, items):
    """(chrom, pos) -> value of the genome-wide array described by intervals / records"""
    if kind == "mask":
        return lambda c, p: any(n == c and a <= p < b for n, a, b in items)
    if kind == "pileup":
        return lambda c, p: sum(1 for n, a, b in items if n == c and a <= p < b)
    return lambda c, p: next((v for n, a, b, v in items if n == c and a <= p < b), 0)


def check_genome_pw(col, arr, genome, f, bps, sig, cls, case, is_bool, per_chrom=True):
    """a genome-wide array against f(chrom, pos): sums, get_data() records, per-chromosome runs, probed positions"""
    import numpy as np
    exp = {n: pw_runs(s, bps.get(n, []), lambda p: f(n, p)) for n, s in genome}
    ok = True
    if all(isinstance(v, (bool, int)) for n, _ in genome for _, _, v in exp[n]):
        total = sum((e - s) * int(v) for n, _ in genome for s, e, v in exp[n])
        got = col.guarded(lambda: (int(arr.sum()), int(np.sum(arr))), sig + ":sum:" + cls, case)
        if got is not None:
            ok &= col.check(got == (total, total), sig + ":sum-wrong:" + cls, case, "got %r expected %r" % (got, total))
        if is_bool:
            size = sum(s for _, s in genome)
            got = col.guarded(lambda: int((~arr).sum()), sig + ":invert:" + cls, case)
            if got is not None:
                ok &= col.check(got == size - total, sig + ":invert-sum-wrong:" + cls, case, "got %r expected %r" % (got, size - total))
    data = col.guarded(lambda: arr.get_data(), sig + ":get_data:" + cls, case)
    rows = None
    if data is not None:
        def get_rows():
            chroms = chrom_strings(data.chromosome)
            vals = np.asarray(data.value).tolist() if hasattr(data, "value") else [True] * len(chroms)
            return list(zip(chroms, np.asarray(data.start).tolist(), np.asarray(data.stop).tolist(), vals))
        rows = col.guarded(get_rows, sig + ":get_data:rows:" + cls, case)
    if rows is not None:
        if not is_bool:
            ok &= col.check(hasattr(data, "value"), sig + ":get_data:values-lost:" + cls, case, "got %r" % type(data).__name__)
        order = {n: i for i, (n, _) in enumerate(genome)}
        sizes = dict(genome)
        wf = all(c in order and 0 <= a <= b <= sizes[c] for c, a, b, _ in rows) and \
            all(order[x[0]] < order[y[0]] or (x[0] == y[0] and x[2] <= y[1]) for x, y in zip(rows, rows[1:]))
        ok &= col.check(wf, sig + ":get_data:records-not-ordered-disjoint-inside:" + cls, case, "rows %r" % (rows[:10],))
        if wf:
            for n, s in genome:
                tiled, p = [], 0
                for _, a, b, v in (r for r in rows if r[0] == n):
                    tiled += [(p, a, False if is_bool else 0), (a, b, v)]
                    p = b
                tiled.append((p, s, False if is_bool else 0))
                ok &= col.check(runs_equal(merge_runs(tiled), exp[n]), sig + ":get_data:runs-wrong:" + cls, case,
                                "%s: records %r expected (maximal runs) %r" % (n, [r for r in rows if r[0] == n][:10], exp[n][:10]))
    if per_chrom:
        for n, s in genome:
            if len(genome) > 6 and not bps.get(n) and n != genome[-1][0]:
                continue        # many chromosomes: the ones with records, and the last one
            rla = col.guarded(lambda: arr[n], sig + ":getitem-chromosome:" + cls, case)
            if rla is not None:
                ok &= check_rla_pw(col, rla, s, lambda p: f(n, p), bps.get(n, []), sig + ":getitem-chromosome", cls, case,
                                   windows=bool(bps.get(n)))
    return ok


def bps_of(items):
    out = {}
    for it in items:
        out.setdefault(it[0], []).extend([it[1], it[2]])
    return out


BIG_EXPRS = {
    # name: (on genomic arrays, on the values at one position, boolean result?)   M, K masks; P pileup of M's intervals; T track
    "M&K": (lambda M, K, P, T: M & K, lambda m, k, p, t: m and k, True),
    "M|K": (lambda M, K, P, T: M | K, lambda m, k, p, t: m or k, True),
    "~M": (lambda M, K, P, T: ~M, lambda m, k, p, t: not m, True),
    "~M&K": (lambda M, K, P, T: ~M & K, lambda m, k, p, t: (not m) and k, True),
    "P*2": (lambda M, K, P, T: P * 2, lambda m, k, p, t: p * 2, False),
    "P+T": (lambda M, K, P, T: P + T, lambda m, k, p, t: p + t, False),
    "T*3": (lambda M, K, P, T: T * 3, lambda m, k, p, t: t * 3, False),
    "T*K": (lambda M, K, P, T: T * K, lambda m, k, p, t: t * k, False),
    "T>1": (lambda M, K, P, T: T > 1, lambda m, k, p, t: t > 1, True),
    "(P>1)|K": (lambda M, K, P, T: (P > 1) | K, lambda m, k, p, t: (p > 1) or k, True),
    "P==T": (lambda M, K, P, T: P == T, lambda m, k, p, t: p == t, True),
    "T-T": (lambda M, K, P, T: T - T, lambda m, k, p, t: t - t, False),
}


_BIG_GENOME_OBJECTS = {}


def big_genome_object(gname):
    """the Genome objects of the 5 big genomes are built once (25 chromosome names are slow to encode)"""
    if gname not in _BIG_GENOME_OBJECTS:
        _BIG_GENOME_OBJECTS[gname] = make_genome_ign(BIG_CONTIGS[gname], "dict") if gname in BIG_CONTIGS else \
            make_genome(BIG_GENOMES[gname])
    return _BIG_GENOME_OBJECTS[gname]


def big_genome_class(gname):
    """size class of the concatenation; the genomes added later (a chromosome offset at / beyond 2**32, ignored contigs)
    are classes of their own"""
    genome = BIG_GENOMES[gname]
    cls = size_class(sum(s for _, s in genome))
    if any(o >= P32 for o in itertools.accumulate(s for _, s in genome[:-1])):
        cls += ":chromosome-offset-ge2p32"
    if gname in BIG_CONTIGS:
        cls += ":ignored-contigs"
    return cls


def check_big_genome(col, case):
    import numpy as np
    gname, what = case["genome"], case["what"]
    genome = BIG_GENOMES[gname]
    cls = big_genome_class(gname)
    col.case(case, contract="big-genome:" + what)
    g = col.guarded(lambda: big_genome_object(gname), "big:genome:construct:" + cls, case)
    if g is None:
        return
    sig = "big:genome:" + what
    ivs = [tuple(x) for x in case.get("intervals", [])]
    if what in ("get_mask", "get_pileup"):
        fn = (lambda: g.get_intervals(build_intervals(ivs)).get_mask()) if what == "get_mask" else \
            (lambda: g.get_intervals(build_intervals(ivs)).get_pileup())
        arr = col.guarded(fn, sig + ":" + cls, case)
        if arr is None:
            return
        if what == "get_mask":
            col.check(arr.dtype == bool, sig + ":mask-not-boolean:" + cls, case, "dtype %r" % (arr.dtype,))
        f = f_genome("mask" if what == "get_mask" else "pileup", ivs)
        ok = check_genome_pw(col, arr, genome, f, bps_of(ivs), sig, cls, case, is_bool=(what == "get_mask"))
        if ok and what == "get_mask" and arr.dtype == bool and case.get("roundtrip", True):
            from bionumpy.genomic_data import GenomicIntervals
            m2 = col.guarded(lambda: GenomicIntervals.from_track(arr).get_mask(), "big:genome:from_track:get_mask:" + cls, case)
            if m2 is not None:
                check_genome_pw(col, m2, genome, f, bps_of(ivs), "big:genome:from_track:get_mask", cls, case, is_bool=True, per_chrom=False)
        return
    recs = [tuple(x) for x in case.get("records", [])]
    vtype = case.get("vtype", "int")
    if what == "get_track":
        arr = col.guarded(lambda: g.get_track(build_bedgraph(recs, vtype)), sig + ":" + cls, case)
        if arr is not None:
            check_genome_pw(col, arr, genome, f_genome("track", recs), bps_of(recs), sig, cls, case, is_bool=False)
        return
    if what == "expr":
        ivs2 = [tuple(x) for x in case["intervals2"]]
        leaves = col.guarded(lambda: (g.get_intervals(build_intervals(ivs)).get_mask(), g.get_intervals(build_intervals(ivs2)).get_mask(),
                                      g.get_intervals(build_intervals(ivs)).get_pileup(), g.get_track(build_bedgraph(recs, vtype))),
                             "big:genome:expr:leaves:" + cls, case)
        if leaves is None:
            return
        fm, fk, fp, ft = f_genome("mask", ivs), f_genome("mask", ivs2), f_genome("pileup", ivs), f_genome("track", recs)
        bps = bps_of(ivs + ivs2 + recs)
        on_arrays, on_values, is_bool = BIG_EXPRS[case["expr"]]
        got = col.guarded(lambda: on_arrays(*leaves), "big:genome:expr:%s:%s" % (case["expr"], cls), case)
        if got is not None:
            col.check((got.dtype == bool) == is_bool, "big:genome:expr:%s:boolean-ness-differs:%s" % (case["expr"], cls), case,
                      "dtype %r" % (got.dtype,))
            check_genome_pw(col, got, genome, lambda c, p: on_values(fm(c, p), fk(c, p), fp(c, p), ft(c, p)), bps,
                            "big:genome:expr:" + case["expr"], cls, case, is_bool=is_bool, per_chrom=False)
        return
    raise ValueError(what)


def big_record_sets(gname):
    """sorted, non-overlapping bedGraph records over the genome (first at 0 / later, last at the very end / before)"""
    genome = BIG_GENOMES[gname]
    hot = [(n, s) for n, s in genome if n in BIG_HOT.get(gname, [n])]
    (n0, s0), (n1, s1) = hot[0], hot[-1]
    for vtype, v in (("int", (1, 2, 3, 2)), ("float", (0.1, 1234567.891, 0.7, 2.3))):
        yield vtype, [(n0, 0, 10, v[0]), (n0, 10, 25, v[1]), (n1, s1 // 2, s1 // 2 + 7, v[2]), (n1, s1 - 5, s1, v[3])]
        yield vtype, [(n0, 3, 8, v[0]), (n0, s0 - 4, s0, v[1]), (n1, 0, 6, v[2]), (n1, s1 - 20, s1 - 10, v[3])]
        yield vtype, [(n1, s1 - 9, s1 - 2, v[1])]
        yield vtype, [(n, s // 3, s // 3 + 11, v[i % 4]) for i, (n, s) in enumerate(hot)]
    yield "int", []


def gen_big_genome(tier):
    quick = tier == "quick"
    for gname in BIG_GENOMES:
        many = len(BIG_GENOMES[gname]) >= 4
        cand = genome_candidates(gname, (2 if many else 3) if quick else (3 if many else 5))
        for k, ivs in enumerate(subsets_upto(cand, 2 if quick else 3)):
            if k % 2:
                ivs = ivs[::-1]
            if not quick and len(ivs) == 3 and k % 3:
                continue
            yield {"kind": "big_genome", "genome": gname, "what": "get_mask", "intervals": ivs, "roundtrip": not (quick and k % 4)}
            yield {"kind": "big_genome", "genome": gname, "what": "get_pileup", "intervals": ivs}
        rsets = list(big_record_sets(gname))
        for vtype, recs in rsets:
            yield {"kind": "big_genome", "genome": gname, "what": "get_track", "records": recs, "vtype": vtype}
        full = genome_candidates(gname, 5)
        combos = [(full[0:2] + full[-2:], full[1:3] + full[-1:]), (full[-1:] + full[:1], full[3:5]), ([], full[2:4])]
        for ci, (ivs, ivs2) in enumerate(combos if not quick else combos[:1]):
            for ri, (vtype, recs) in enumerate(rsets):
                if ri % 4 != ci or (quick and ri == 8):
                    continue
                for name in BIG_EXPRS:
                    yield {"kind": "big_genome", "genome": gname, "what": "expr", "expr": name, "intervals": ivs, "intervals2": ivs2,
                           "records": recs, "vtype": vtype}


# --------------------------------------------------------------------------------------------- I  genomes with ignored contigs
# Genome.from_file ignores (by default) every contig whose name contains '_' (alt / random / unplaced contigs of the UCSC
# chrom.sizes files).  The genome the arrays live on is then the concatenation of the INCLUDED contigs in file order: its
# length is the sum of their sizes, records on ignored contigs are dropped.  Oracle: dense per-chromosome lists of the
# included contigs only.
IGN_GENOMES = {
    # name -> contigs in file order
    "alt-in-the-middle": [("chr1", 3), ("chr1_KI270706v1_random", 4), ("chr2", 2)],
    "alt-first-and-last": [("chrUn_GL000195v1", 1), ("chr1", 3), ("chr2", 2), ("chr2_alt", 5)],
    "one-included": [("chr1_alt", 2), ("chr1", 4), ("chrUn_x", 3)],
    "order-not-alphabetical": [("chrB", 2), ("chrB_alt", 4), ("chrA", 1), ("chr10", 2), ("chrUn_1", 1), ("chrUn_2", 2)],
    "four-included": [("chr1", 2), ("chr2", 1), ("chr2_alt", 7), ("chr3", 2), ("chr4", 1), ("chr4_alt", 1)],
    "nothing-ignored": [("chr1", 3), ("chr2", 2)],
}
IGN_ROUTES = ("chrom.sizes", "fai", "dict", "dict+ignored-added")


def no_underscore(name):
    return "_" not in name


def included_contigs(contigs):
    return [(n, s) for n, s in (tuple(c) for c in contigs) if no_underscore(n)]


def make_genome_ign(contigs, route):
    """a Genome over `contigs` (file order) in which the names with '_' are ignored"""
    import bionumpy as bnp
    contigs = [tuple(c) for c in contigs]
    if route in ("chrom.sizes", "fai"):
        with TmpDir() as tmp:
            if route == "chrom.sizes":
                path, text = os.path.join(tmp, "genome.chrom.sizes"), "".join("%s\t%d\n" % c for c in contigs)
            else:       # fasta index: name, length, offset, line bases, line width
                path, text, off = os.path.join(tmp, "genome.fa.fai"), "", 0
                for n, s in contigs:
                    off += len(n) + 2
                    text += "%s\t%d\t%d\t60\t61\n" % (n, s, off)
                    off += s + (s + 59) // 60
            with open(path, "w") as f:
                f.write(text)
            return bnp.Genome.from_file(path)       # default filter: names with '_' are ignored
    g = bnp.Genome.from_dict(dict(contigs), filter_function=no_underscore)
    if route == "dict+ignored-added":
        g = g.with_ignored_added(["scaffold9"])     # one more ignored name (size 0)
    elif route != "dict":
        raise ValueError(route)
    return g


def is_ignored_name(name):
    return not no_underscore(name) or name == "scaffold9"


IGN_VIEWS = {
    # derived whole-genome arrays: name -> (on the genomic array, on one dense value)
    "get_mask": [("x", None, None), ("~x", operator.invert, lambda v: not v)],
    "get_pileup": [("x", None, None), ("x==0", lambda x: x == 0, lambda v: v == 0), ("x<2", lambda x: x < 2, lambda v: v < 2),
                   ("x+1", lambda x: x + 1, lambda v: v + 1), ("x*2", lambda x: x * 2, lambda v: v * 2),
                   ("x>0", lambda x: x > 0, lambda v: v > 0)],
}


def check_ign_cover(col, case):
    """mask / pileup of intervals on a genome with ignored contigs, and the whole-array reductions of derived arrays in
    which the default value (the positions outside every interval) does / does not contribute"""
    import numpy as np
    contigs = [tuple(c) for c in case["contigs"]]
    genome = included_contigs(contigs)
    ivs = [tuple(r) for r in case["intervals"]]
    what, route = case["what"], case["route"]
    col.case(case, contract="ignored-contigs:GenomicIntervals." + what)
    g = col.guarded(lambda: make_genome_ign(contigs, route), "ignored-contigs:genome:" + route, case)
    if g is None:
        return
    sig = "ignored-contigs:" + ("data-on-ignored:" if any(is_ignored_name(c) for c, _, _ in ivs) else "") + what
    if what == "get_mask":
        dense = dense_mask(genome, ivs)
        arr = col.guarded(lambda: g.get_intervals(build_intervals(ivs)).get_mask(), sig, case)
    else:
        dense = dense_pileup(genome, ivs)
        arr = col.guarded(lambda: g.get_intervals(build_intervals(ivs)).get_pileup(), sig, case)
    if arr is None:
        return
    if what == "get_mask":
        col.check(arr.dtype == bool, sig + ":mask-not-boolean", case, "dtype %r" % (arr.dtype,))
    if not check_to_dict(col, arr, genome, dense, sig, case):
        return
    light = case.get("light", False)    # quick tier: the derived arrays are observed through their reductions only on 3 of 4 cases
    for name, fa, fv in IGN_VIEWS[what]:
        if fa is None:
            r, d, vsig = arr, dense, sig
        else:
            vsig = sig + (":default-contributes" if fv(False if what == "get_mask" else 0) else ":default-is-zero")
            r = col.guarded(lambda: fa(arr), vsig, case)
            if r is None:
                continue
            d = {n: [fv(x) for x in dense[n]] for n, _ in genome}
            if not light and not check_to_dict(col, r, genome, d, vsig, case):
                continue
        is_bool = all(isinstance(x, bool) for n, _ in genome for x in d[n])
        total = sum(sum(d[n]) for n, _ in genome)
        got = col.guarded(lambda: (np.sum(r), r.sum()), vsig + ":sum", case)
        if got is not None:
            col.check(got[0] == total and got[1] == total, vsig + ":sum:wrong", case, "%s: got %r expected %r" % (name, got, total))
        if not is_bool:
            check_histogram(col, r, genome, d, vsig, case, kws=({"bins": 4, "range": (-2, 4)},) if light else ({"bins": 4, "range": (-2, 4)}, {}))
        if fa is None or not light:
            check_backconversion(col, r, genome, d, vsig, case, is_bool=is_bool)


def gen_ign_cover(tier):
    quick = tier == "quick"
    k = 0
    for gname, contigs in IGN_GENOMES.items():
        inc = included_contigs(contigs)
        ign = [c for c in contigs if not no_underscore(c[0])]
        allivs = [(n, a, b) for n, s in inc for a in range(s) for b in range(a + 1, s + 1)]
        pairs = [[x, y] for x in allivs for y in allivs]
        triples = [list(reversed(c)) for c in itertools.combinations_with_replacement(allivs, 3)]
        sets = [[]] + [[x] for x in allivs] + (pairs[::5] + triples[::23] if quick else pairs + triples[::3])
        for ivs in sets:
            k += 1
            route = IGN_ROUTES[k % 4]
            if k % 3 == 0 and (ign or route == "dict+ignored-added"):
                # intervals on ignored contigs, anywhere in the list: dropped
                extra = [(n, 0, s) for n, s in ign[:1]] + [(n, s - 1, s) for n, s in ign[1:]]
                if route == "dict+ignored-added":
                    extra.append(("scaffold9", 0, 0))
                ivs = list(ivs)
                for j, x in enumerate(extra):
                    ivs.insert((k + j) % (len(ivs) + 1), x)
            for what in ("get_mask", "get_pileup"):
                yield {"kind": "ign_cover", "genome": gname, "contigs": contigs, "route": route, "intervals": ivs, "what": what,
                       "light": bool(quick and k % 4)}


def ign_exprs():
    """-> (depth 1, depth 2): the depth-1 grammar of F over tracks A, B and masks M, K, plus the pileup P: comparisons and
    arithmetic with scalars (the default value 0 contributes), interval-built with bedGraph-built operands"""
    n1, b1 = depth1_exprs()
    A, B, M, K, P = L("A"), L("B"), L("M"), L("K"), L("P")
    p1 = [[op, P, S(v)] for op in ARITH + CMP for v in (0, 1, 2)] + [["sub", S(1), P], ["lt", S(1), P]]
    p1 += [[op, x, y] for op in ARITH + CMP for x, y in ((P, A), (A, P), (P, B), (P, P))]
    p1 += [["mul", P, M], ["mul", K, P]]
    d2 = [["and", ["gt", A, S(0)], M], ["and", M, ["gt", A, S(0)]], ["or", ["eq", P, S(0)], K], ["add", ["mul", P, S(2)], A],
          ["not", ["eq", P, S(0)]], ["not", ["and", M, K]], ["mul", ["not", M], A], ["eq", ["add", P, S(1)], A],
          ["lt", ["sub", A, P], S(1)], ["and", ["not", M], ["not", K]], ["or", ["not", M], ["gt", B, S(0)]],
          ["add", ["add", P, S(1)], ["mul", A, S(2)]], ["mul", ["eq", P, S(0)], B], ["not", ["not", M]]]
    return n1 + b1 + p1, d2


def ign_leaf_sets(tier):
    quick = tier == "quick"
    out = []
    for gi, (gname, contigs) in enumerate(IGN_GENOMES.items()):
        inc = included_contigs(contigs)
        ign = [c for c in contigs if not no_underscore(c[0])]
        (f, fs), (l, ls) = inc[0], inc[-1]
        variants = [
            # 0: everything covered, runs up to the very end of the genome
            {"A": [(n, 0, s, 1 + i % 3) for i, (n, s) in enumerate(inc)], "B": [(n, s - 1, s, 0.5 * (i + 1)) for i, (n, s) in enumerate(inc)],
             "M": [(n, 0, 1) for n, s in inc], "K": [(l, 0, ls)]},
            # 1: gaps, one value across the chromosome boundaries, overlapping intervals in reverse genome order
            {"A": [(f, fs - 1, fs, 3)], "B": [(n, 0, s, 2.0) for n, s in inc],
             "M": [(n, s - 1, s) for n, s in reversed(inc)] + [(f, 0, fs)], "K": []},
            # 2: (almost) empty
            {"A": [], "B": [(l, 0, 1, -1.5)], "M": [], "K": [(f, 0, 1), (l, ls - 1, ls)]},
        ]
        if ign:
            # 3: like 0, with records on the ignored contigs in the bedGraph and in the interval sets (dropped)
            variants.append({"A": [(n, 0, s, 1 + i % 3 if no_underscore(n) else 7) for i, (n, s) in enumerate(contigs)],
                             "B": [(n, s - 1, s, 0.5 * (i + 1)) for i, (n, s) in enumerate(contigs)],
                             "M": [(n, 0, 1 if no_underscore(n) else s) for n, s in contigs], "K": [(ign[0][0], 0, 1), (l, 0, ls)]})
        chosen = range(len(variants))
        if quick:
            chosen = [(0, 3), (1,), (2,), (3, 1), (0,), (0,)][gi % 6]
        for vi in chosen:
            if vi < len(variants):
                out.append(dict(variants[vi], A_type="int", B_type="float", genome=gname, contigs=contigs,
                                route=IGN_ROUTES[(gi + vi) % 4]))
    return out


def run_ign_expressions(col, tier):
    d1, d2 = ign_exprs()
    for leafcase in ign_leaf_sets(tier):
        if col.out_of_time():
            return
        on_ign = any(is_ignored_name(r[0]) for k in "ABMK" for r in leafcase[k])
        prefix = "ignored-contigs:" + ("data-on-ignored:" if on_ign else "") + "expr"
        env = col.guarded(lambda: ExprEnv(col, leafcase), prefix + ":leaves", dict(leafcase, kind="ign_expr", expr=L("A")))
        if env is None:
            continue
        env.check_leaves(col, leafcase, prefix=prefix, kind="ign_expr")
        for n, e in enumerate(d1 + d2):     # operands before the expressions that use them
            safely(col, lambda c: check_expr(col, env, leafcase, e, full=(tier != "quick" or n % 2 == 0 or e[0] == "not"),
                                             prefix=prefix, kind="ign_expr", contract="ignored-contigs:expression"),
                   dict(leafcase, kind="ign_expr", expr=e), nocol=True)


# --------------------------------------------------------------------------------------------- driver
CHECKERS = {"to_array": check_to_array, "from_intervals": check_from_intervals, "rla_from_bedgraph": check_rla_from_bedgraph,
            "cover": check_cover, "to_array_bits": check_to_array_bits, "big_contig": check_big_contig, "big_genome": check_big_genome,
            "ign_cover": check_ign_cover}


def safely(col, fn, case, *args, nocol=False):
    """safety net: a result so malformed that the comparison code itself raises is a failure of the case, not a crash"""
    if nocol:
        return col.guarded(lambda: fn(case), "%s:malformed-result" % case["kind"], case)
    return col.guarded(lambda: fn(col, case, *args), "%s:malformed-result" % case["kind"], case)


def run(tier="quick", seed=0):
    quick = tier == "quick"
    # budget: the scopes G, H and I (added later) cost about 10 s each in the quick tier
    col = Collector(PID, tier, seed, budget_s=95 if quick else None, rule=
                    "exhaustive over: run-length arrays (every composition of n<=%d x 3 value patterns x 7 dtypes); every sorted "
                    "non-overlapping interval layout on sizes 1..%d x 8 value modes (from_intervals) and x 5 value patterns "
                    "(from_bedgraph, size given / None); bedGraph tracks on 1 chromosome (every layout), 2 chromosomes (every pair "
                    "of layouts), 3-4 chromosomes (every combination of 2..8 layout classes per chromosome) by get_track / file / "
                    "stream; interval multisets of <=3 (thorough: 4) intervals for mask and pileup; every depth-1 expression of the "
                    "typed grammar on %d leaf sets, depth-2 expressions %s. distinct = distinct (input, operation); every case "
                    "builds an array from records and compares with an independently expanded dense array. "
                    "Floats that are not exactly summable (decimal fractions of different magnitude, +-inf, NaN at run-length "
                    "level), compared by float64 bit pattern: run-length arrays (compositions of n<=%d x 3 patterns x %d palettes x "
                    "float16/32/64), bedGraph tracks on 1 chromosome (every layout, size<=%d), 2 chromosomes (every pair of layouts), "
                    "3-4 chromosomes (layout classes) by get_track / from_bedgraph / file / stream, %d expressions (depth 1: every "
                    "{+,-,*,<,>,==} over two tracks and 3 scalars; 10 of depth 2) on %d leaf sets. Coordinates beyond 32 bits (dense "
                    "array never built; runs, exact sums, probed positions and short windows against the piecewise constant function "
                    "of the records): contigs of %d sizes around 2**31 and 2**32 x every set of <=%d non-touching intervals out of <=10 "
                    "candidates at 0, the size and the powers of two x 4 scalar value modes (from_intervals), 2 value patterns "
                    "(from_bedgraph), any-order overlapping sets (get_boolean_mask, get_pileup); 5 genomes whose concatenation is "
                    "2**31-1 .. 8.3e9 bases (incl. hg38 sizes): mask / pileup of every set of <=%d candidate intervals, 9 bedGraph "
                    "tracks, 12 expressions over masks, pileup and track; 4 more genomes in which a chromosome OFFSET is at / beyond "
                    "2**32 (4 x 1.5e9, 2**32 + 1000 + 5000, 2**32-1 + 1000 + 5000, 5 x 3e9) and one with ignored contigs. "
                    "Genomes with ignored contigs of non-zero size (%d contig lists: ignored first / in the middle / last, 1..4 "
                    "included; built from a chrom.sizes file, a .fai file, from_dict with the no-underscore filter, "
                    "with_ignored_added): mask and pileup of interval multisets of <=3 intervals (with / without intervals on the "
                    "ignored contigs) with the reductions, histograms and back-conversions of x, ~x, x==0, x<2, x+1, x*2, x>0; "
                    "%d expressions (depth 1 of the typed grammar over tracks, masks and the pileup; 14 of depth 2) on %d leaf sets"
                    % (5 if quick else 7, 6 if quick else 8, len(leaf_sets(tier)),
                       "sampled (stride + seed) on 5 leaf sets" if quick else "exhaustive on 6 leaf sets",
                       5 if quick else 7, 3 if quick else 4, 4 if quick else 6, sum(len(x) for x in fexpr_list()),
                       len(fexpr_leaf_sets(tier)), len(BIG_SIZES), 2 if quick else 3, 2 if quick else 3,
                       len(IGN_GENOMES), sum(len(x) for x in ign_exprs()), len(ign_leaf_sets(tier))))
    col.bounds = {"to_array": {"n": "0..%d" % (5 if quick else 7), "dtypes": list(DTYPE_PALETTES)},
                  "from_intervals": {"size": "1..%d" % (6 if quick else 8), "modes": list(FI_MODES)},
                  "rla_from_bedgraph": {"size": "1..%d" % (5 if quick else 7), "patterns": list(VALUE_PATTERNS), "size_arg": ["size", "None"]},
                  "track": {"chromosomes": "1..4", "chromosome size": "1..%d" % (5 if quick else 7), "routes": ["get_track", "from_bedgraph", "file", "stream"]},
                  "cover": {"chromosomes": "1..%d" % (3 if quick else 4), "intervals": "0..%d, any order, overlapping allowed" % (3 if quick else 4)},
                  "expr": {"depth": 2, "ops": list(BINOPS) + ["not"], "scalars": list(SCALARS1) + [True, False],
                           "reductions": ["np.sum", ".sum()", "np.histogram (default, bins+range, explicit edges)"],
                           "depth2": "sampled" if quick else "exhaustive over the typed grammar"},
                  "inexact floats": {"values": sorted({v for p in FBIT_PALETTES for v in p}) + ["-1234.5678", "123456.789"],
                                     "to_array n": "1..%d" % (5 if quick else 7), "dtypes": list(FBIT_UINT),
                                     "track chromosomes": "1..%d" % (3 if quick else 4), "track chromosome size": "1..%d" % (4 if quick else 6),
                                     "routes": ["get_track", "from_bedgraph", "file (finite values)", "stream"],
                                     "expr": {"depth": 2, "scalars": list(FX_SCALARS), "equality": "float64 bit pattern (NaN = NaN, -0.0 = 0.0)"}},
                  "big coordinates": {"contig sizes": list(BIG_SIZES), "intervals per contig": "0..%d" % (2 if quick else 3),
                                      "genomes": {k: sum(s for _, s in v) for k, v in BIG_GENOMES.items()},
                                      "intervals per genome": "0..%d" % (2 if quick else 3), "expressions": list(BIG_EXPRS),
                                      "not in scope": "from_intervals with an array of values (raises on every input, known finding)"},
                  "ignored contigs": {"contig lists (file order)": {k: [list(c) for c in v] for k, v in IGN_GENOMES.items()},
                                      "ignored": "names containing '_' (default of Genome.from_file), plus one name added by with_ignored_added",
                                      "routes": list(IGN_ROUTES), "intervals": "0..3 on the included contigs (every pair; triples strided by 3, quick: pairs by 5, triples by 23), "
                                      "every 3rd set with intervals on the ignored contigs", "views": {k: [v[0] for v in vs] for k, vs in IGN_VIEWS.items()},
                                      "expr leaves": "A int track, B float track, M, K masks, P pileup of the intervals of K and M",
                                      "big": {k: [list(c) for c in v] for k, v in BIG_CONTIGS.items()}}}
    with TmpDir() as tmp:
        for gen in (gen_to_array, gen_from_intervals, gen_rla_from_bedgraph, gen_to_array_bits, gen_big_contig, gen_big_genome,
                    gen_ign_cover):
            for case in gen(tier):
                safely(col, CHECKERS[case["kind"]], case)
            if col.out_of_time():
                return col.result()
        run_ign_expressions(col, tier)
        for n, case in enumerate(gen_ftracks(tier)):
            safely(col, check_ftrack, case, tmp)
            if n % 100 == 0 and col.out_of_time():
                return col.result()
        run_fexpressions(col, tier)
        for n, case in enumerate(gen_tracks(tier)):
            safely(col, check_track, case, tmp)
            if n % 100 == 0 and col.out_of_time():
                return col.result()
        for n, case in enumerate(gen_cover(tier)):
            safely(col, check_cover, case)
            if n % 100 == 0 and col.out_of_time():
                return col.result()
        run_expressions(col, tier)
        if quick:
            col.exhaustive = False      # depth-2 expressions are sampled in the quick tier
    return col.result()


def replay(case):
    col = Collector(PID, "quick", 0, "replay")
    kind = case.get("kind")
    with TmpDir() as tmp:
        if kind == "track":
            check_track(col, case, tmp)
        elif kind == "ftrack":
            check_ftrack(col, case, tmp)
        elif kind == "fexpr":
            import numpy as np
            leafcase = {k: v for k, v in case.items() if k not in ("kind", "expr")}
            env = col.guarded(lambda: ExprEnv(col, leafcase), "fexpr:leaves", case)
            if env is not None:
                env.check_leaves(col, leafcase, prefix="fexpr", eq=bits_equal)
                if case["expr"][0] != "leaf":
                    # operands first: an expression whose operand is wrong is reported at the operand
                    for sub in [x for x in case["expr"][1:] if x[0] not in ("leaf", "scalar")] + [case["expr"]]:
                        check_fexpr(col, env, leafcase, sub)
        elif kind == "ign_expr":
            leafcase = {k: v for k, v in case.items() if k not in ("kind", "expr")}
            on_ign = any(is_ignored_name(r[0]) for k in "ABMK" for r in leafcase[k])
            prefix = "ignored-contigs:" + ("data-on-ignored:" if on_ign else "") + "expr"
            env = col.guarded(lambda: ExprEnv(col, leafcase), prefix + ":leaves", case)
            if env is not None:
                env.check_leaves(col, leafcase, prefix=prefix, kind="ign_expr")
                if case["expr"][0] != "leaf":
                    for sub in [x for x in case["expr"][1:] if x[0] not in ("leaf", "scalar")] + [case["expr"]]:
                        check_expr(col, env, leafcase, sub, full=True, prefix=prefix, kind="ign_expr",
                                   contract="ignored-contigs:expression")
        elif kind == "expr":
            leafcase = {k: v for k, v in case.items() if k not in ("kind", "expr")}
            env = col.guarded(lambda: ExprEnv(col, leafcase), "expr:leaves", case)
            if env is not None:
                env.check_leaves(col, leafcase)
                if case["expr"][0] != "leaf":
                    check_expr(col, env, leafcase, case["expr"], full=True)
        elif kind in CHECKERS:
            CHECKERS[kind](col, case)
        else:
            return False, "unknown case kind %r" % (kind,)
    if col.failures:
        return False, "; ".join(f["signature"] + ": " + f["message"] for f in col.failures)
    return True, "ok"
