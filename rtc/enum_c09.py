"""C09 bounded stand-in: genomic arrays are exact, lossless views of dense per-base arrays.

Run-time contracts, evaluated on the real bionumpy functions, oracle = plain Python lists / dense NumPy arrays
built by this file from the records (never from the code under test):

  A  to_array          GenomicRunLengthArray(events, values).to_array() == repeat(values, run lengths), every dtype
                       the xor-accumulate expansion special-cases (bool, ints, float16/32/64)
  B  from_intervals    GenomicRunLengthArray.from_intervals(starts, ends, size, values, default) has length `size`
                       and expands to value inside the intervals / default outside: every sorted non-overlapping
                       layout (first at 0 or later, last at size or before, empty, touching), scalar and array values
  C  from_bedgraph(1)  GenomicRunLengthArray.from_bedgraph(records, size | None): same, for one contig
  D  track             Genome.get_track / GenomicArray.from_bedgraph / Genome.read_track(file) / streamed track on
                       genomes of 1..4 chromosomes: to_dict() keys in genome order, every array has the chromosome's
                       size and equals the dense array; t[chrom]; sum; get_data() back-conversion; round trip
  E  mask / pileup     Genome.get_intervals(intervals).get_mask() / .get_pileup() (overlapping, nested, unsorted,
                       touching, empty interval sets) == dense OR / dense count; back-conversion
  F  expressions       expression trees over {+,-,*,<,>,==,&,|,~, scalar operands} on tracks and masks, depth <= 2:
                       values == the same NumPy expression on the dense arrays; np.sum / .sum(); np.histogram;
                       get_data() of the result: records in genome order, non-overlapping, inside the chromosome,
                       expanding to exactly the dense result (Interval for boolean results, BedGraph otherwise)

All float values are small dyadic rationals, so sums and products are exact in every evaluation order.
"""
import itertools
import operator
import os

from .common import Collector, TmpDir

PID = "C09"
NAMES = ["chr1", "chr2", "chr3", "chr4"]
NAMES_UNSORTED = ["chrB", "chrA", "chr10", "chr9"]      # genome order != alphabetical order


# --------------------------------------------------------------------------------------------- oracle side
def expand(size, recs, default=0):
    """dense list described by records (start, stop, value): value inside, default in the gaps"""
    out = [default] * size
    for s, e, v in recs:
        for x in range(s, e):
            out[x] = v
    return out


def layouts(size, touching=True):
    """every sorted, non-overlapping, non-empty-interval layout inside [0, size] (incl. the empty layout)"""
    def rec(p, first):
        yield []
        for s in range(p if (touching or first) else p + 1, size):
            for e in range(s + 1, size + 1):
                for rest in rec(e, False):
                    yield [(s, e)] + rest
    seen = set()
    for lay in rec(0, True):
        k = tuple(lay)
        if k not in seen:
            seen.add(k)
            yield lay


def has_touching(lay):
    return any(lay[i][1] == lay[i + 1][0] for i in range(len(lay) - 1))


def layout_flags(lay, size):
    if not lay:
        return "empty"
    return "%s:%s:%s" % ("first-at-0" if lay[0][0] == 0 else "first-later",
                         "last-at-size" if lay[-1][1] == size else "last-before-size",
                         "gaps" if any(lay[i][1] != lay[i + 1][0] for i in range(len(lay) - 1)) else "no-inner-gaps")


VALUE_PATTERNS = {
    # name -> (vtype, function i -> value); p1 patterns contain zeros and equal neighbours
    "int-alt": ("int", lambda i: (1, 2, 3)[i % 3]),
    "int-rep0": ("int", lambda i: (2, 2, 0, 3)[i % 4]),
    "float-alt": ("float", lambda i: (1.5, -2.0, 0.25)[i % 3]),
    "float-rep0": ("float", lambda i: (2.5, 2.5, 0.0, 1.0)[i % 4]),
    "bool-alt": ("bool", lambda i: (True, False, True, True)[i % 4]),
}


def np_values(vals, vtype):
    import numpy as np
    return np.array(vals, dtype={"int": np.int64, "float": np.float64, "bool": bool}[vtype])


def lists_equal(got, exp):
    """exact value equality of two flat lists (True == 1, 2 == 2.0 as in NumPy's ==)"""
    return len(got) == len(exp) and all(g == e for g, e in zip(got, exp))


# --------------------------------------------------------------------------------------------- A  to_array
DTYPE_PALETTES = {
    "int64": [0, (1 << 40) + 5, -3],
    "int32": [0, -1, 7],
    "uint8": [0, 255, 6],
    "bool": [False, True, True],
    "float64": [0.0, 1.5, -2.25],
    "float32": [0.0, 1.5, -2.25],
    "float16": [0.0, 1.5, -2.25],
}


def compositions(n):
    if n == 0:
        yield []
        return
    for first in range(1, n + 1):
        for rest in compositions(n - first):
            yield [first] + rest


def check_to_array(col, case):
    import numpy as np
    from bionumpy.arithmetics.intervals import GenomicRunLengthArray
    runs, vals, dt = case["runs"], case["values"], case["dtype"]
    col.case(case, contract="GenomicRunLengthArray.to_array")
    events = np.array([0] + list(itertools.accumulate(runs)), dtype=int)
    values = np.array(vals, dtype=dt)
    exp = [v for v, n in zip(values.tolist(), runs) for _ in range(n)]
    sig = "to_array:" + ("float" if dt.startswith("float") else "bool" if dt == "bool" else "int")
    rla = col.guarded(lambda: GenomicRunLengthArray(events, values), sig + ":construct", case)
    if rla is None:
        return
    got = col.guarded(lambda: rla.to_array(), sig, case)
    if got is None:
        return
    col.check(len(rla) == sum(runs), sig + ":wrong-length", case, "len %r expected %r" % (len(rla), sum(runs)))
    col.check(lists_equal(np.asarray(got).tolist(), exp), sig + ":wrong-dense", case,
              "got %r expected %r" % (np.asarray(got).tolist(), exp))
    col.check(np.asarray(got).dtype == values.dtype, sig + ":dtype-changed", case,
              "got %r expected %r" % (np.asarray(got).dtype, values.dtype))


def gen_to_array(tier):
    max_n = 5 if tier == "quick" else 7
    for dt, pal in DTYPE_PALETTES.items():
        yield {"kind": "to_array", "runs": [], "values": [], "dtype": dt}
        for n in range(1, max_n + 1):
            for runs in compositions(n):
                k = len(runs)
                for pname, f in (("alt", lambda i: pal[i % 3]), ("rep", lambda i: pal[(i // 2) % 3]),
                                 ("alt2", lambda i: pal[(i + 1) % 3])):
                    yield {"kind": "to_array", "runs": runs, "values": [f(i) for i in range(k)], "dtype": dt}


# --------------------------------------------------------------------------------------------- B  from_intervals
FI_MODES = {
    # name: (array?, vtype, value(s), default)
    "scalar-True": (False, "bool", True, False),
    "scalar-int": (False, "int", 3, 0),
    "scalar-float": (False, "float", 2.5, 0),
    "scalar-int-default5": (False, "int", 1, 5),
    "array-int-alt": (True, "int", "int-alt", 0),
    "array-int-rep0": (True, "int", "int-rep0", 0),
    "array-float-alt": (True, "float", "float-alt", 0),
    "array-bool": (True, "bool", "bool-alt", False),
}


def check_from_intervals(col, case):
    import numpy as np
    from bionumpy.arithmetics.intervals import GenomicRunLengthArray
    lay, size, mode = [tuple(x) for x in case["layout"]], case["size"], case["mode"]
    is_array, vtype, v, default = FI_MODES[mode]
    col.case(case, contract="GenomicRunLengthArray.from_intervals")
    starts = np.array([s for s, _ in lay], dtype=int)
    ends = np.array([e for _, e in lay], dtype=int)
    if is_array:
        vals = [VALUE_PATTERNS[v][1](i) for i in range(len(lay))]
        values = np_values(vals, vtype)
    else:
        vals = [v] * len(lay)
        values = v
    exp = expand(size, [(s, e, x) for (s, e), x in zip(lay, vals)], default)
    cls = ("array-values" if is_array else "scalar-values") + (":default-nonzero" if default not in (0, False) else "")
    if has_touching(lay):
        cls += ":touching"
    # exceptions: one signature per (value mode, exception type); touching layouts of the scalar mode apart (they are
    # the only ones that reach the run-length constructor with an empty run)
    sig = "from_intervals:" + ("array-values" if is_array else "scalar-values" + (":touching" if has_touching(lay) else ""))
    rla = col.guarded(lambda: GenomicRunLengthArray.from_intervals(starts, ends, size, values=values, default_value=default),
                      sig, case)
    if rla is None:
        return
    got = col.guarded(lambda: np.asarray(rla.to_array()).tolist(), sig + ":to_array", case)
    if got is None:
        return
    fl = layout_flags(lay, size)
    col.check(len(rla) == size, "from_intervals:wrong-length:%s:%s" % (cls, fl), case, "len %r size %r" % (len(rla), size))
    col.check(lists_equal(got, exp), "from_intervals:wrong-dense:%s:%s" % (cls, fl), case, "got %r expected %r" % (got, exp))
    # the public run view (starts, ends, values) denotes the same array
    runs = col.guarded(lambda: list(zip(np.asarray(rla.starts).tolist(), np.asarray(rla.ends).tolist(),
                                        np.asarray(rla.values).tolist())), sig + ":runs", case)
    if runs is not None:
        ok = all(a < b for a, b, _ in runs) and all(runs[i][1] == runs[i + 1][0] for i in range(len(runs) - 1)) and \
            (not runs or (runs[0][0] == 0 and runs[-1][1] == size)) and lists_equal(expand(size, runs, None), exp)
        col.check(ok, "from_intervals:runs-do-not-tile:%s:%s" % (cls, fl), case, "runs %r expected dense %r" % (runs, exp))


def gen_from_intervals(tier):
    max_size = 6 if tier == "quick" else 8
    for size in range(1, max_size + 1):
        for lay in layouts(size):
            for mode in FI_MODES:
                if FI_MODES[mode][0] and not lay:
                    # empty array of values: still a legal call; keep one representative
                    if mode != "array-int-alt":
                        continue
                yield {"kind": "from_intervals", "size": size, "layout": lay, "mode": mode}


# --------------------------------------------------------------------------------------------- C  from_bedgraph, one contig
def check_rla_from_bedgraph(col, case):
    import numpy as np
    from bionumpy.datatypes import BedGraph
    from bionumpy.arithmetics.intervals import GenomicRunLengthArray
    lay, size, pat, size_arg = [tuple(x) for x in case["layout"]], case["size"], case["pattern"], case["size_arg"]
    vtype, f = VALUE_PATTERNS[pat]
    col.case(case, contract="GenomicRunLengthArray.from_bedgraph")
    vals = [f(i) for i in range(len(lay))]
    n = size if size_arg == "size" else lay[-1][1]
    exp = expand(n, [(s, e, x) for (s, e), x in zip(lay, vals)], 0)
    bg = BedGraph(["c"] * len(lay), np.array([s for s, _ in lay], dtype=int), np.array([e for _, e in lay], dtype=int),
                  np_values(vals, vtype))
    sig = "rla_from_bedgraph:%s" % ("size-given" if size_arg == "size" else "size-None")
    rla = col.guarded(lambda: GenomicRunLengthArray.from_bedgraph(bg, size if size_arg == "size" else None), sig, case)
    if rla is None:
        return
    got = col.guarded(lambda: np.asarray(rla.to_array()).tolist(), sig + ":to_array", case)
    if got is None:
        return
    fl = layout_flags(lay, n)
    col.check(len(rla) == n, "rla_from_bedgraph:wrong-length:%s" % fl, case, "len %r expected %r" % (len(rla), n))
    col.check(lists_equal(got, exp), "rla_from_bedgraph:wrong-dense:%s" % fl, case, "got %r expected %r" % (got, exp))


def gen_rla_from_bedgraph(tier):
    max_size = 5 if tier == "quick" else 7
    for size in range(1, max_size + 1):
        for lay in layouts(size):
            for pat in VALUE_PATTERNS:
                yield {"kind": "rla_from_bedgraph", "size": size, "layout": lay, "pattern": pat, "size_arg": "size"}
                if lay and pat in ("int-alt", "float-rep0"):
                    yield {"kind": "rla_from_bedgraph", "size": size, "layout": lay, "pattern": pat, "size_arg": "none"}


# --------------------------------------------------------------------------------------------- genome-level helpers
def make_genome(genome):
    import bionumpy as bnp
    return bnp.Genome.from_dict({n: s for n, s in genome})


def dense_genome(genome, recs, default=0):
    """{name: dense list} for records (chrom, start, stop, value)"""
    return {n: expand(s, [(a, b, v) for c, a, b, v in recs if c == n], default) for n, s in genome}


def chrom_strings(col_chrom):
    try:
        out = col_chrom.tolist()
        if all(isinstance(x, str) for x in out):
            return out
    except Exception:
        pass
    return [c.to_string() for c in col_chrom]


def check_to_dict(col, arr, genome, dense, sig, case, what="to_dict"):
    """arr.to_dict(): keys = chromosomes in genome order, each value has the chromosome size and equals dense"""
    import numpy as np
    d = col.guarded(lambda: arr.to_dict(), sig + ":" + what, case)
    if d is None:
        return False
    ok = col.check(list(d.keys()) == [n for n, _ in genome], sig + ":" + what + ":keys-not-genome-order", case,
                   "keys %r genome %r" % (list(d.keys()), genome))
    if not ok:
        return False
    good = True
    for n, s in genome:
        got = np.asarray(d[n]).tolist()
        good &= col.check(len(got) == s, sig + ":wrong-length", case, "%s: len %r size %r" % (n, len(got), s))
        good &= col.check(lists_equal(got, dense[n]), sig + ":wrong-dense", case,
                          "%s: got %r expected %r" % (n, got, dense[n]))
    return good


def check_histogram(col, arr, genome, dense, sig, case, kws=({"bins": 4, "range": (-2, 4)},)):
    """np.histogram on the genomic array == np.histogram on the dense concatenated array (counts and edges)"""
    import numpy as np
    flat = np.array([x for n, _ in genome for x in dense[n]])
    if flat.dtype == bool:
        flat = flat.astype(int)     # NumPy's histogram of booleans is the histogram of 0/1
    for kw in kws:
        h = col.guarded(lambda: np.histogram(arr, **kw), sig + ":histogram", case)
        if h is None:
            continue
        eh = np.histogram(flat, **kw)
        gc, ge, ee = np.asarray(h[0]), np.asarray(h[1], dtype=float), np.asarray(eh[1], dtype=float)
        col.check(lists_equal(gc.tolist(), eh[0].tolist()), sig + ":histogram:wrong-counts", case,
                  "%r: got %r expected %r" % (kw, gc.tolist(), eh[0].tolist()))
        col.check(ge.shape == ee.shape and bool(np.allclose(ge, ee, rtol=1e-12, atol=1e-12)), sig + ":histogram:wrong-edges", case,
                  "%r: got %r expected %r" % (kw, h[1], eh[1]))


def check_backconversion(col, arr, genome, dense, sig, case, is_bool=None, data=None):
    """get_data(): records in genome order, non-overlapping, inside the chromosome, expanding to `dense`.
    Boolean arrays give intervals (expand: True inside, False outside), others give bedGraph records."""
    import numpy as np
    if data is None:
        data = col.guarded(lambda: arr.get_data(), sig + ":get_data", case)
        if data is None:
            return None
    if is_bool is None:
        is_bool = (arr.dtype == bool)

    def rows():
        chroms = chrom_strings(data.chromosome)
        starts, stops = np.asarray(data.start).tolist(), np.asarray(data.stop).tolist()
        # interval records (no value column) mean True inside; bedGraph records carry their value
        vals = np.asarray(data.value).tolist() if hasattr(data, "value") else [True] * len(starts)
        return list(zip(chroms, starts, stops, vals))
    rs = col.guarded(rows, sig + ":get_data:rows", case)
    if rs is None:
        return None
    if not is_bool:
        col.check(hasattr(data, "value"), sig + ":get_data:values-lost", case, "got %r for a non-boolean array" % type(data).__name__)
    order = {n: i for i, (n, _) in enumerate(genome)}
    sizes = dict(genome)
    ok = all(c in order for c, _, _, _ in rs)
    col.check(ok, sig + ":get_data:unknown-chromosome", case, "rows %r" % (rs[:6],))
    if not ok:
        return data
    in_order = all((order[rs[i][0]], rs[i][1]) <= (order[rs[i + 1][0]], rs[i + 1][1]) for i in range(len(rs) - 1))
    col.check(in_order, sig + ":get_data:not-in-genome-order", case, "rows %r" % (rs[:8],))
    no_overlap = all(rs[i][0] != rs[i + 1][0] or rs[i][2] <= rs[i + 1][1] for i in range(len(rs) - 1))
    col.check(no_overlap, sig + ":get_data:overlapping-records", case, "rows %r" % (rs[:8],))
    inside = all(0 <= a <= b <= sizes[c] for c, a, b, _ in rs)
    col.check(inside, sig + ":get_data:record-outside-chromosome", case, "rows %r sizes %r" % (rs[:8], sizes))
    if inside:
        back = dense_genome(genome, rs, False if is_bool else 0)
        same = all(lists_equal(back[n], dense[n]) for n, _ in genome)
        col.check(same, sig + ":get_data:expands-to-different-array", case, "rows %r expand to %r expected %r" % (rs[:8], back, dense))
    return data


# --------------------------------------------------------------------------------------------- D  tracks
def build_bedgraph(recs, vtype):
    import numpy as np
    from bionumpy.datatypes import BedGraph
    return BedGraph([c for c, _, _, _ in recs], np.array([a for _, a, _, _ in recs], dtype=int),
                    np.array([b for _, _, b, _ in recs], dtype=int), np_values([v for _, _, _, v in recs], vtype))


def bedgraph_text(recs, vtype):
    def fmt(v):
        if vtype == "float":
            return repr(float(v))
        return str(int(v))
    return "".join("%s\t%d\t%d\t%s\n" % (c, a, b, fmt(v)) for c, a, b, v in recs)


def check_track(col, case, tmp=None):
    import numpy as np
    from bionumpy.genomic_data import GenomicArray
    genome = [tuple(g) for g in case["genome"]]
    recs = [tuple(r) for r in case["records"]]
    vtype, route = case["vtype"], case["route"]
    dense = dense_genome(genome, recs, 0)
    col.case(case, contract="track:" + route)
    g = make_genome(genome)
    sig = "track:%s" % route
    if route == "get_track":
        t = col.guarded(lambda: g.get_track(build_bedgraph(recs, vtype)), sig, case)
    elif route == "from_bedgraph":
        t = col.guarded(lambda: GenomicArray.from_bedgraph(build_bedgraph(recs, vtype), g.get_genome_context()), sig, case)
    elif route == "file":
        path = os.path.join(tmp, "t.bdg")
        with open(path, "w") as f:
            f.write(bedgraph_text(recs, vtype))
        t = col.guarded(lambda: g.read_track(path), sig, case)
    elif route == "stream":
        return check_track_stream(col, case, g, genome, recs, vtype, dense, sig)
    else:
        raise ValueError(route)
    if t is None:
        return
    if not check_to_dict(col, t, genome, dense, sig, case):
        return
    light = case.get("light", False)     # 3-4 chromosomes, quick tier: per-chromosome views on every 4th case only
    for n, s in ([] if light else genome):
        got = col.guarded(lambda: np.asarray(t[n].to_array()).tolist(), sig + ":getitem-chromosome", case)
        if got is not None:
            col.check(lists_equal(got, dense[n]), sig + ":getitem-chromosome:wrong-dense", case,
                      "%s: got %r expected %r" % (n, got, dense[n]))
    total = sum(sum(dense[n]) for n, _ in genome)
    got = col.guarded(lambda: (np.sum(t), t.sum()), sig + ":sum", case)
    if got is not None:
        col.check(got[0] == total and got[1] == total, "track:sum:wrong", case, "got %r expected %r" % (got, total))
    check_histogram(col, t, genome, dense, "track", case)
    data = check_backconversion(col, t, genome, dense, sig, case)
    if light:
        return
    if data is not None and route == "get_track" and not (t.dtype == bool):
        # round trip: the bedGraph given back builds the same array again
        t2 = col.guarded(lambda: g.get_track(data), "track:roundtrip", case)
        if t2 is not None:
            check_to_dict(col, t2, genome, dense, "track:roundtrip", case)
    # per-chromosome run-length array -> bedGraph of one chromosome
    for n, s in genome:
        bg = col.guarded(lambda: t[n].to_bedgraph(n), sig + ":to_bedgraph", case)
        if bg is not None:
            check_backconversion(col, None, [(n, s)], {n: dense[n]}, "track:to_bedgraph", case, is_bool=False, data=bg)


def check_track_stream(col, case, g, genome, recs, vtype, dense, sig):
    """lazy (one chromosome at a time) array: observed through get_data() and np.histogram"""
    import numpy as np
    from bionumpy.streams import NpDataclassStream
    from bionumpy.computation_graph import compute
    split = case.get("split")

    def chunks():
        # no empty chunks (grouping a stream with an empty chunk is a streaming matter, not C09): an empty
        # bedGraph is the stream without chunks
        if not recs:
            return NpDataclassStream([])
        bg = build_bedgraph(recs, vtype)
        if split is None or not (0 < split < len(recs)):
            return NpDataclassStream([bg])
        return NpDataclassStream([bg[:split], bg[split:]])
    data = col.guarded(lambda: compute(g.get_track(chunks()).get_data()), sig, case)
    if data is not None:
        check_backconversion(col, None, genome, dense, sig, case, is_bool=False, data=data)
    flat = [x for n, _ in genome for x in dense[n]]
    h = col.guarded(lambda: compute(np.histogram(g.get_track(chunks()), bins=4, range=(-2, 4))), sig + ":histogram", case)
    if h is not None:
        exp = np.histogram(np.array(flat), bins=4, range=(-2, 4))
        col.check(lists_equal(np.asarray(h[0]).tolist(), exp[0].tolist()), sig + ":histogram:wrong-counts", case,
                  "got %r expected %r" % (np.asarray(h[0]).tolist(), exp[0].tolist()))
    # an operation on the lazy array, then back-conversion
    d2 = col.guarded(lambda: compute((g.get_track(chunks()) + 1).get_data()), sig + ":add-scalar", case)
    if d2 is not None:
        dense1 = {n: [x + 1 for x in dense[n]] for n, _ in genome}
        check_backconversion(col, None, genome, dense1, sig + ":add-scalar", case, is_bool=False, data=d2)
    d3 = col.guarded(lambda: compute((g.get_track(chunks()) > 1).get_data()), sig + ":gt-scalar", case)
    if d3 is not None:
        dense2 = {n: [x > 1 for x in dense[n]] for n, _ in genome}
        check_backconversion(col, None, genome, dense2, sig + ":gt-scalar", case, is_bool=True, data=d3)


def chrom_classes(size):
    """representative layouts of one chromosome: empty, full, head, tail, interior, two with gap, two touching"""
    out = [[], [(0, size)]]
    if size >= 2:
        out += [[(0, size - 1)], [(1, size)], [(0, 1), (1, size)]]
    if size >= 3:
        out += [[(1, size - 1)], [(0, 1), (2, size)]]
    if size >= 4:
        out += [[(1, 2), (3, size)]]
    return out


def records_for(names, lays, pattern):
    f = VALUE_PATTERNS[pattern][1]
    recs, i = [], 0
    for n, lay in zip(names, lays):
        for s, e in lay:
            recs.append((n, s, e, f(i)))
            i += 1
    return recs


def gen_tracks(tier):
    quick = tier == "quick"
    # 1 chromosome: every layout
    for size in range(1, (5 if quick else 7) + 1):
        for lay in layouts(size):
            for pat in VALUE_PATTERNS:
                recs = records_for(NAMES, [lay], pat)
                vt = VALUE_PATTERNS[pat][0]
                yield {"kind": "track", "genome": [(NAMES[0], size)], "records": recs, "vtype": vt, "route": "get_track"}
                if size <= 4 and pat in ("int-rep0", "float-alt"):
                    yield {"kind": "track", "genome": [(NAMES[0], size)], "records": recs, "vtype": vt, "route": "file"}
                    yield {"kind": "track", "genome": [(NAMES[0], size)], "records": recs, "vtype": vt, "route": "stream"}
                if size <= 3 and pat == "int-alt":
                    yield {"kind": "track", "genome": [(NAMES[0], size)], "records": recs, "vtype": vt, "route": "from_bedgraph"}
    # 2 chromosomes: every pair of layouts
    for sizes in ([(1, 1), (2, 3), (3, 2), (3, 3)] if quick else [(1, 1), (1, 3), (2, 3), (3, 2), (3, 3), (4, 3), (3, 4), (4, 4)]):
        genome = list(zip(NAMES, sizes))
        for l1 in layouts(sizes[0]):
            for l2 in layouts(sizes[1]):
                for pat in (("int-alt", "float-rep0") if quick else ("int-alt", "int-rep0", "float-alt", "float-rep0", "bool-alt")):
                    recs = records_for(NAMES, [l1, l2], pat)
                    vt = VALUE_PATTERNS[pat][0]
                    yield {"kind": "track", "genome": genome, "records": recs, "vtype": vt, "route": "get_track"}
                    if sizes in ((2, 3), (3, 2)) and pat == "int-alt":
                        yield {"kind": "track", "genome": genome, "records": recs, "vtype": vt, "route": "stream",
                               "split": len(l1) if (len(l1) + len(l2)) % 2 else 1}
                    if sizes == (3, 2) and pat == "float-rep0":
                        yield {"kind": "track", "genome": genome, "records": recs, "vtype": vt, "route": "file"}
    # 3 and 4 chromosomes: every combination of layout classes; names whose genome order is not alphabetical too
    for names, sizes in ((NAMES, (3, 3, 3)), (NAMES_UNSORTED, (3, 2, 1, 3)), (NAMES, (2, 1, 4, 2))) if quick else \
            ((NAMES, (3, 3, 3)), (NAMES_UNSORTED, (3, 2, 1, 3)), (NAMES, (2, 1, 4, 2)), (NAMES, (4, 3, 3, 4)), (NAMES_UNSORTED, (1, 4, 4))):
        genome = list(zip(names, sizes))
        for k, lays in enumerate(itertools.product(*[chrom_classes(s) for s in sizes])):
            pat = ("int-alt", "float-rep0", "int-rep0", "float-alt")[k % 4]
            recs = records_for(names, lays, pat)
            yield {"kind": "track", "genome": genome, "records": recs, "vtype": VALUE_PATTERNS[pat][0], "route": "get_track",
                   "light": bool(quick and k % 4 != 0)}
            if k % 9 == 0:
                yield {"kind": "track", "genome": genome, "records": recs, "vtype": VALUE_PATTERNS[pat][0], "route": "stream",
                       "split": max(1, len(recs) // 2)}


# --------------------------------------------------------------------------------------------- E  mask / pileup
def build_intervals(ivs):
    import numpy as np
    from bionumpy.datatypes import Interval
    if not ivs:
        return Interval.empty()
    return Interval([c for c, _, _ in ivs], np.array([a for _, a, _ in ivs], dtype=int), np.array([b for _, _, b in ivs], dtype=int))


def dense_mask(genome, ivs):
    return {n: [any(c == n and a <= x < b for c, a, b in ivs) for x in range(s)] for n, s in genome}


def dense_pileup(genome, ivs):
    return {n: [sum(1 for c, a, b in ivs if c == n and a <= x < b) for x in range(s)] for n, s in genome}


def check_cover(col, case):
    import numpy as np
    genome = [tuple(g) for g in case["genome"]]
    ivs = [tuple(r) for r in case["intervals"]]
    what = case["what"]
    col.case(case, contract="GenomicIntervals." + what)
    g = make_genome(genome)
    sig = "intervals:" + what
    if what == "get_mask":
        dense = dense_mask(genome, ivs)
        arr = col.guarded(lambda: g.get_intervals(build_intervals(ivs)).get_mask(), sig, case)
    else:
        dense = dense_pileup(genome, ivs)
        arr = col.guarded(lambda: g.get_intervals(build_intervals(ivs)).get_pileup(), sig, case)
    if arr is None:
        return
    if what == "get_mask":
        col.check(arr.dtype == bool, sig + ":mask-not-boolean", case, "dtype %r" % (arr.dtype,))
    if not check_to_dict(col, arr, genome, dense, sig, case):
        return
    total = sum(sum(dense[n]) for n, _ in genome)
    got = col.guarded(lambda: (np.sum(arr), arr.sum()), sig + ":sum", case)
    if got is not None:
        col.check(got[0] == total and got[1] == total, sig + ":sum:wrong", case, "got %r expected %r" % (got, total))
    if what == "get_pileup":
        check_histogram(col, arr, genome, dense, sig, case)
    data = check_backconversion(col, arr, genome, dense, sig, case)
    if data is not None and what == "get_mask" and arr.dtype == bool:
        # intervals -> mask -> intervals -> mask is the identity on the dense array
        from bionumpy.genomic_data import GenomicIntervals
        m2 = col.guarded(lambda: GenomicIntervals.from_track(arr).get_mask(), "intervals:from_track:get_mask", case)
        if m2 is not None:
            check_to_dict(col, m2, genome, dense, "intervals:from_track:get_mask", case)


def gen_cover(tier):
    quick = tier == "quick"
    genomes = [[("chr1", 4)], [("chr1", 3), ("chr2", 2)], [("chrB", 2), ("chrA", 1), ("chr10", 2)]] if quick else \
        [[("chr1", 5)], [("chr1", 3), ("chr2", 3)], [("chrB", 2), ("chrA", 1), ("chr10", 2)], [("chr1", 2), ("chr2", 1), ("chr3", 2), ("chr4", 2)]]
    for genome in genomes:
        allivs = [(n, a, b) for n, s in genome for a in range(s) for b in range(a + 1, s + 1)]
        sets = [[]] + [[x] for x in allivs] + [[x, y] for x in allivs for y in allivs]
        sets += [list(reversed(c)) for c in itertools.combinations_with_replacement(allivs, 3)]
        if not quick and len(allivs) <= 12:
            sets += [[c[1], c[3], c[0], c[2]] for c in itertools.combinations(allivs, 4)]
        for ivs in sets:
            for what in ("get_mask", "get_pileup"):
                yield {"kind": "cover", "genome": genome, "intervals": ivs, "what": what}


# --------------------------------------------------------------------------------------------- F  expressions
BINOPS = {"add": operator.add, "sub": operator.sub, "mul": operator.mul, "lt": operator.lt, "gt": operator.gt,
          "eq": operator.eq, "and": operator.and_, "or": operator.or_}
ARITH, CMP, LOGIC = ("add", "sub", "mul"), ("lt", "gt", "eq"), ("and", "or")
SCALARS1 = (2, 0.5, 0)
SCALARS2 = (2, 0.5)


def L(name):
    return ["leaf", name]


def S(v):
    return ["scalar", v]


def depth1_exprs():
    """-> (numeric exprs, boolean exprs) of depth exactly 1"""
    num_leaves, bool_leaves = [L("A"), L("B")], [L("M"), L("K")]
    pairs = [(x, y) for x in num_leaves for y in num_leaves]
    pairs += [(x, S(s)) for x in num_leaves for s in SCALARS1] + [(S(s), x) for x in num_leaves for s in SCALARS1]
    n1 = [[op, x, y] for op in ARITH for x, y in pairs] + [["mul", L("M"), L("A")], ["mul", L("B"), L("K")]]
    b1 = [[op, x, y] for op in CMP for x, y in pairs]
    b1 += [["not", L("M")], ["not", L("K")], ["and", L("M"), L("K")], ["or", L("M"), L("K")], ["and", L("K"), L("M")],
           ["or", L("K"), L("M")], ["eq", L("M"), L("K")], ["and", L("M"), S(True)], ["or", S(False), L("K")]]
    return n1, b1


def depth2_exprs():
    """generator of every depth-2 expression of the typed grammar (at least one operand of depth 1)"""
    n1, b1 = depth1_exprs()
    n0, b0 = [L("A"), L("B")], [L("M"), L("K")]
    sc = [S(s) for s in SCALARS2]
    for op in ARITH + CMP:
        for x in n1:
            for y in n1 + n0 + sc:
                yield [op, x, y]
        for x in n0 + sc:
            for y in n1:
                yield [op, x, y]
    for op in LOGIC:
        for x in b1:
            for y in b1 + b0:
                yield [op, x, y]
        for x in b0:
            for y in b1:
                yield [op, x, y]
    for x in b1:
        yield ["not", x]
    for x in b1[:12]:
        for y in n0:
            yield ["mul", x, y]
            yield ["mul", y, x]


def expr_str(e):
    if e[0] == "leaf":
        return e[1]
    if e[0] == "scalar":
        return repr(e[1])
    if e[0] == "not":
        return "~(%s)" % expr_str(e[1])
    sym = {"add": "+", "sub": "-", "mul": "*", "lt": "<", "gt": ">", "eq": "==", "and": "&", "or": "|"}[e[0]]
    return "(%s %s %s)" % (expr_str(e[1]), sym, expr_str(e[2]))


def operand_kind(e):
    return "scalar" if e[0] == "scalar" else "array"


def root_sig(e):
    if e[0] == "not":
        return "not"
    return "%s:%s,%s" % (e[0], operand_kind(e[1]), operand_kind(e[2]))


class ExprEnv:
    """leaves of the expressions on both sides: genomic arrays (bionumpy) and dense concatenated arrays (NumPy)"""

    def __init__(self, col, leafcase):
        import numpy as np
        self.genome = [tuple(g) for g in leafcase["genome"]]
        g = make_genome(self.genome)
        self.g = g
        self.bnp, self.np = {}, {}
        for name in ("A", "B"):
            recs = [tuple(r) for r in leafcase[name]]
            vt = leafcase[name + "_type"]
            self.bnp[name] = g.get_track(build_bedgraph(recs, vt))
            d = dense_genome(self.genome, recs, 0)
            self.np[name] = np_values([x for n, _ in self.genome for x in d[n]], vt)
        for name in ("M", "K"):
            ivs = [tuple(r) for r in leafcase[name]]
            self.bnp[name] = g.get_intervals(build_intervals(ivs)).get_mask()
            d = dense_mask(self.genome, ivs)
            self.np[name] = np.array([x for n, _ in self.genome for x in d[n]], dtype=bool)
        self.cache = {}
        self.bad = set()

    def check_leaves(self, col, leafcase):
        for name in ("A", "B", "M", "K"):
            case = dict(leafcase, kind="expr", expr=L(name))
            dense = self.split(self.np[name].tolist())
            if not check_to_dict(col, self.bnp[name], self.genome, dense,
                                 "expr:leaf:" + ("track" if name in "AB" else "mask"), case):
                self.bad.add(name)

    def split(self, flat):
        out, p = {}, 0
        for n, s in self.genome:
            out[n] = flat[p:p + s]
            p += s
        return out

    def eval(self, e):
        """-> (genomic value, numpy value); raises whatever the operation raises; caches sub-expressions"""
        if e[0] == "leaf":
            return self.bnp[e[1]], self.np[e[1]]
        if e[0] == "scalar":
            return e[1], e[1]
        key = expr_str(e)
        if key in self.cache:
            return self.cache[key]
        if e[0] == "not":
            a, b = self.eval(e[1])
            r = (operator.invert(a), operator.invert(b))
        else:
            (a1, b1), (a2, b2) = self.eval(e[1]), self.eval(e[2])
            f = BINOPS[e[0]]
            r = (f(a1, a2), f(b1, b2))
        self.cache[key] = r
        return r


def check_expr(col, env, leafcase, e, full=True):
    import numpy as np
    case = dict(leafcase, kind="expr", expr=e)
    key = expr_str(e)
    # an operand whose own value is already known to be wrong (reported at its own level) is not blamed on this operator
    if any(expr_str(x) in env.bad for x in e[1:] if x[0] != "scalar"):
        env.bad.add(key)
        return
    col.case({"leaves": leafcase, "expr": key}, contract="expression:depth%d" % expr_depth(e))
    rs = root_sig(e)
    # operands first (sub-expression failures have been reported at their own level)
    try:
        ops = [env.eval(x) for x in e[1:]]
    except Exception:
        return
    try:
        if e[0] == "not":
            exp = operator.invert(ops[0][1])
        else:
            exp = BINOPS[e[0]](ops[0][1], ops[1][1])
    except TypeError:
        return      # not a NumPy expression (ill-typed): outside the property
    got = col.guarded(lambda: env.eval(e)[0], "expr:" + rs, case)
    if got is None:
        return
    genome = env.genome
    dense = env.split(np.asarray(exp).tolist())
    sig = "expr:" + rs
    col.check((got.dtype == bool) == (exp.dtype == bool), sig + ":boolean-ness-differs", case,
              "%s: dtype %r, NumPy gives %r" % (expr_str(e), got.dtype, exp.dtype))
    if not check_to_dict(col, got, genome, dense, sig, case):
        env.bad.add(key)
        return
    total = exp.sum()
    s = col.guarded(lambda: (np.sum(got), got.sum()), "expr:sum", case)
    if s is not None:
        col.check(s[0] == total and s[1] == total, "expr:sum:wrong:" + ("bool" if exp.dtype == bool else "numeric"), case,
                  "%s: got %r expected %r" % (expr_str(e), s, total))
    if not full:
        return
    if exp.dtype != bool:
        check_histogram(col, got, genome, dense, "expr", case,
                        kws=({}, {"bins": 3, "range": (-1, 4)}, {"bins": [-4, 0, 0.5, 2, 16]}))
    check_backconversion(col, got, genome, dense, "expr", case, is_bool=bool(exp.dtype == bool))


def expr_depth(e):
    if e[0] in ("leaf", "scalar"):
        return 0
    return 1 + max(expr_depth(x) for x in e[1:])


def leaf_sets(tier):
    """(A, B, M, K) leaf combinations; A int, B float (or int), chosen over the construction paths:
    first record at 0 / later, last at size / before, gaps inside, gap across the chromosome boundary, empty"""
    g2 = [("chr1", 3), ("chr2", 2)]
    a_opts = [
        [("chr1", 0, 3, 1), ("chr2", 0, 2, 2)],                      # full coverage, no gaps
        [("chr1", 1, 2, 3)],                                          # interior only, chr2 empty
        [("chr1", 0, 1, 2), ("chr1", 2, 3, 1), ("chr2", 1, 2, 3)],    # gaps, boundary gap
        [("chr1", 0, 2, 1), ("chr2", 0, 1, 1)],                      # equal values on both sides of a gap
        [("chr2", 0, 2, 2)],                                          # chr1 empty
        [],                                                           # empty bedGraph
    ]
    b_opts = [
        [("chr1", 0, 1, 0.5), ("chr1", 1, 3, 2.0), ("chr2", 0, 2, -1.5)],
        [("chr1", 2, 3, 2.5), ("chr2", 0, 1, 2.5)],                  # run across the chromosome boundary with one value
        [("chr1", 1, 3, 1.0)],
        [("chr1", 0, 3, 2.0), ("chr2", 0, 2, 2.0)],
        [],
    ]
    m_opts = [[("chr1", 1, 3), ("chr2", 0, 1)], [("chr1", 0, 3), ("chr2", 0, 2)], [], [("chr1", 0, 1), ("chr2", 1, 2)]]
    k_opts = [[("chr1", 0, 2)], [("chr2", 0, 2), ("chr1", 2, 3)], [("chr1", 1, 2), ("chr1", 0, 3)], []]
    out = []
    for i, a in enumerate(a_opts):
        for j, b in enumerate(b_opts):
            out.append({"genome": g2, "A": a, "A_type": "int", "B": b, "B_type": "float",
                        "M": m_opts[(i + j) % 4], "K": k_opts[(i + 2 * j) % 4]})
    # int x int, and other genome shapes (1, 3, 4 chromosomes; genome order not alphabetical)
    out.append({"genome": g2, "A": a_opts[2], "A_type": "int", "B": [("chr1", 0, 2, 2), ("chr2", 0, 2, 3)], "B_type": "int",
                "M": m_opts[0], "K": k_opts[1]})
    out.append({"genome": [("chr1", 5)], "A": [("chr1", 1, 2, 1), ("chr1", 2, 4, 2)], "A_type": "int",
                "B": [("chr1", 0, 2, 0.5), ("chr1", 3, 5, 1.5)], "B_type": "float", "M": [("chr1", 0, 2), ("chr1", 1, 4)], "K": [("chr1", 4, 5)]})
    out.append({"genome": [("chrB", 2), ("chrA", 1), ("chr10", 2)], "A": [("chrB", 1, 2, 1), ("chrA", 0, 1, 1), ("chr10", 0, 1, 2)],
                "A_type": "int", "B": [("chrB", 0, 2, 0.5), ("chr10", 1, 2, 1.5)], "B_type": "float",
                "M": [("chr10", 0, 2), ("chrB", 1, 2)], "K": [("chrA", 0, 1)]})
    out.append({"genome": [("chr1", 2), ("chr2", 1), ("chr3", 2), ("chr4", 1)],
                "A": [("chr1", 0, 2, 1), ("chr3", 1, 2, 2), ("chr4", 0, 1, 3)], "A_type": "int",
                "B": [("chr1", 1, 2, 0.5), ("chr2", 0, 1, 0.5), ("chr3", 0, 2, 2.0)], "B_type": "float",
                "M": [("chr2", 0, 1), ("chr3", 0, 1)], "K": [("chr1", 0, 2), ("chr4", 0, 1)]})
    return out


def run_expressions(col, tier):
    n1, b1 = depth1_exprs()
    d1 = n1 + b1
    sets = leaf_sets(tier)
    d2 = None
    # depth 2: exhaustive over the typed grammar on a few leaf sets (thorough) / a strided + seeded sample (quick)
    deep = [2, 7, 12, 31, 33] if tier == "quick" else [2, 7, 12, 23, 31, 33]
    per_set = 500 if tier == "quick" else None
    for idx, leafcase in enumerate(sets):
        if col.out_of_time():
            return
        env = col.guarded(lambda: ExprEnv(col, leafcase), "expr:leaves", dict(leafcase, kind="expr", expr=L("A")))
        if env is None:
            continue
        env.check_leaves(col, leafcase)
        for e in d1:
            safely(col, lambda c: check_expr(col, env, leafcase, e, full=True), dict(leafcase, kind="expr", expr=e), nocol=True)
        if idx in deep:
            if d2 is None:
                d2 = list(depth2_exprs())
            if per_set is None:
                chosen = range(len(d2))
            else:
                stride = max(1, len(d2) // (per_set // 2))
                chosen = sorted(set(list(range(idx % stride, len(d2), stride)) +
                                    [col.rng.randrange(len(d2)) for _ in range(per_set // 2)]))
            for n, i in enumerate(chosen):
                safely(col, lambda c: check_expr(col, env, leafcase, d2[i], full=(n % 4 == 0)),
                       dict(leafcase, kind="expr", expr=d2[i]), nocol=True)
                if n % 200 == 0 and col.out_of_time():
                    return


# --------------------------------------------------------------------------------------------- driver
CHECKERS = {"to_array": check_to_array, "from_intervals": check_from_intervals, "rla_from_bedgraph": check_rla_from_bedgraph,
            "cover": check_cover}


def safely(col, fn, case, *args, nocol=False):
    """safety net: a result so malformed that the comparison code itself raises is a failure of the case, not a crash"""
    if nocol:
        return col.guarded(lambda: fn(case), "%s:malformed-result" % case["kind"], case)
    return col.guarded(lambda: fn(col, case, *args), "%s:malformed-result" % case["kind"], case)


def run(tier="quick", seed=0):
    quick = tier == "quick"
    col = Collector(PID, tier, seed,
                    "exhaustive over: run-length arrays (every composition of n<=%d x 3 value patterns x 7 dtypes); every sorted "
                    "non-overlapping interval layout on sizes 1..%d x 8 value modes (from_intervals) and x 5 value patterns "
                    "(from_bedgraph, size given / None); bedGraph tracks on 1 chromosome (every layout), 2 chromosomes (every pair "
                    "of layouts), 3-4 chromosomes (every combination of 2..8 layout classes per chromosome) by get_track / file / "
                    "stream; interval multisets of <=3 (thorough: 4) intervals for mask and pileup; every depth-1 expression of the "
                    "typed grammar on %d leaf sets, depth-2 expressions %s. distinct = distinct (input, operation); every case "
                    "builds an array from records and compares with an independently expanded dense array"
                    % (5 if quick else 7, 6 if quick else 8, len(leaf_sets(tier)),
                       "sampled (stride + seed) on 5 leaf sets" if quick else "exhaustive on 6 leaf sets"))
    col.bounds = {"to_array": {"n": "0..%d" % (5 if quick else 7), "dtypes": list(DTYPE_PALETTES)},
                  "from_intervals": {"size": "1..%d" % (6 if quick else 8), "modes": list(FI_MODES)},
                  "rla_from_bedgraph": {"size": "1..%d" % (5 if quick else 7), "patterns": list(VALUE_PATTERNS), "size_arg": ["size", "None"]},
                  "track": {"chromosomes": "1..4", "chromosome size": "1..%d" % (5 if quick else 7), "routes": ["get_track", "from_bedgraph", "file", "stream"]},
                  "cover": {"chromosomes": "1..%d" % (3 if quick else 4), "intervals": "0..%d, any order, overlapping allowed" % (3 if quick else 4)},
                  "expr": {"depth": 2, "ops": list(BINOPS) + ["not"], "scalars": list(SCALARS1) + [True, False],
                           "reductions": ["np.sum", ".sum()", "np.histogram (default, bins+range, explicit edges)"],
                           "depth2": "sampled" if quick else "exhaustive over the typed grammar"}}
    with TmpDir() as tmp:
        for gen in (gen_to_array, gen_from_intervals, gen_rla_from_bedgraph):
            for case in gen(tier):
                safely(col, CHECKERS[case["kind"]], case)
            if col.out_of_time():
                return col.result()
        for n, case in enumerate(gen_tracks(tier)):
            safely(col, check_track, case, tmp)
            if n % 100 == 0 and col.out_of_time():
                return col.result()
        for n, case in enumerate(gen_cover(tier)):
            safely(col, check_cover, case)
            if n % 100 == 0 and col.out_of_time():
                return col.result()
        run_expressions(col, tier)
        if quick:
            col.exhaustive = False      # depth-2 expressions are sampled in the quick tier
    return col.result()


def replay(case):
    col = Collector(PID, "quick", 0, "replay")
    kind = case.get("kind")
    with TmpDir() as tmp:
        if kind == "track":
            check_track(col, case, tmp)
        elif kind == "expr":
            leafcase = {k: v for k, v in case.items() if k not in ("kind", "expr")}
            env = col.guarded(lambda: ExprEnv(col, leafcase), "expr:leaves", case)
            if env is not None:
                env.check_leaves(col, leafcase)
                if case["expr"][0] != "leaf":
                    check_expr(col, env, leafcase, case["expr"], full=True)
        elif kind in CHECKERS:
            CHECKERS[kind](col, case)
        else:
            return False, "unknown case kind %r" % (kind,)
    if col.failures:
        return False, "; ".join(f["signature"] + ": " + f["message"] for f in col.failures)
    return True, "ok"
