"""C15 bounded stand-in: malformed input is reported (never a table), with the right line number.

For every format F in {fastq, two-line fasta, wrapped fasta, bed3, bed6, bedGraph, narrowPeak, vcf, sam, gtf, gff,
csv table with header line (get_bufferclass_for_datatype)} a well-formed file of N records of unequal widths is
generated from the format's grammar; ONE violation is injected at record position q (every q):

  marker      FASTA/FASTQ record whose header line does not start with the record marker (replaced, dropped, other
              marker, empty line, space before it; wrapped fasta: first record only - later ones are continuation lines)
  plus        FASTQ record whose third line is not a '+' line (replaced / empty / prefixed / the line deleted)
  nonnumeric  a non-numeric value in an int / Optional[int] / float column: bad character {letter, '0'+32 image, space,
              punctuation} x placement {first, last, whole field} x column; empty field; lone sign; sign inside; float:
              lone '.', two '.', dangling / leading / non-numeric exponent
  alphabet    a character outside the alphabet of an alphabet-encoded column (strand, DNA) x placement
  colcount    a line with a different number of columns (one missing at the end / in the middle, one extra at the end /
              in the middle, blank line); SAM: fewer than the 11 mandatory columns only

and the file is read through the public API  bnp.open(path, buffer_type=.., lazy=..)  with
  {read(), read_chunks(min_chunk_size=cs)} x {eager, lazy + get_data_object()} x {plain, gzip}.
Phase A sweeps the key variants over every chunk size cs = 1 .. len+2 (quick tier: record boundaries +-1, record
lengths, 1, 2, len-1 .. len+1), A2 a letter in every numeric / alphabet column, B every variant with read() and
three chunk sizes (each record its own chunk / two records / whole file).
Phase L (before A, own time allowance): the nonnumeric class with LONG offending values - a value of every width around
and beyond 19 characters (the widest legal int64) made of digits with one bad character at each end / second / middle /
20th, 19th, 18th from the end, identifier-like tokens (k letters + t digits) and two numbers joined by a letter, in the
numeric columns (digit-matrix, signed/ragged, Optional[int] and float paths); signatures
nonnumeric:<letter|letters|punct>-<in-value-of-up-to-19-chars | before- | within- | across-last-19-chars-of-longer-value>:...

Contracts (oracle = the property statement; the expected line is computed from the generator's own bookkeeping: number
of data lines before the offending line, counted from the first data line after the header):
  reported      an exception is raised and no table containing record q was handed out before it
  line-number   a FormatException carries line_number == zero-based line of the offending line of record q
                (column-count violations are not diagnosed as such by the library: a FormatException that a misaligned
                parse produces for some other line is reported under its own signature)
  same-kind     if a violation is reported as FormatException in one configuration it is in every configuration
                (otherwise the reported line number is not "identical for every chunk size and lazy/eager")
  baseline      the well-formed file (no violation) is accepted (guards the generator, not the library)
"""
import gzip
import logging
import os
import time

from .common import Collector, TmpDir

# --------------------------------------------------------------------------------------------------------------
# well-formed generators (grammar level, unequal widths inside a column)

_SEQS = ["ACGT", "A", "GATTACA", "CC", "TGCAT", "ACGTACGTAC"]
_QUALS = ["IIII", "!", "@+I5#~A", "+@", "5555I", "ABCDEFGHIJ"]     # legal quality strings may start with '@' or '+'
_CHROMS = ["chr1", "chr2", "chr10", "chrX_alt", "c", "chr1"]
_STARTS = ["1", "300", "77777", "5", "0", "42"]
_STOPS = ["20", "4000", "88888", "6", "9", "100"]
_NAMES = ["a", "bb", "ccc", "d", "ee", "f"]
_SCORES = ["0", "10", "255", "7", "1000", "3"]
_STRANDS = ["+", "-", ".", "+", "-", "+"]
_FLOATS = ["0.5", "12.25", "3", "100.125", "7.0", "0.25"]
_FLOATS2 = ["1.5", "2e1", "30.75", "4.5e-1", "0.5", "6"]   # a float column that also holds exponent notation
_DNA = ["ACGT", "a", "GATTACA", "cc", "TgCaT", "AC"]
_SIGNED = ["-1", "300", "+5", "-77", "0", "12"]          # a column with signs takes the ragged (non digit-matrix) path


class Fmt:
    def __init__(self, name, suffix, kind, lines_per_record=1, header="", cols=None, buffer=None, delimiter="\t",
                 min_cols=None):
        self.name, self.suffix, self.kind, self.lpr, self.header = name, suffix, kind, lines_per_record, header
        self.cols, self.buffer, self.delimiter, self.min_cols = cols, buffer, delimiter, min_cols

    def buffer_type(self):
        return _buffer_type(self.buffer)


_CUSTOM = {}


def _buffer_type(key):
    if key is None:
        return None
    import bionumpy as bnp
    if key == "TwoLineFastaBuffer":
        return bnp.TwoLineFastaBuffer
    if key == "Bed6Buffer":
        return bnp.Bed6Buffer
    if key in ("csv", "csvh"):
        if key not in _CUSTOM:
            from bionumpy.bnpdataclass import bnpdataclass
            from bionumpy.encodings import DNAEncoding, StrandEncoding

            @bnpdataclass
            class TableRow:
                name: str
                seq: DNAEncoding
                count: int
                delta: int
                weight: float
                strand: StrandEncoding
            _CUSTOM[key] = bnp.get_bufferclass_for_datatype(TableRow, delimiter=",", has_header=(key == "csvh"))
        return _CUSTOM[key]
    raise KeyError(key)


def _col(attr, kind, values):
    return {"attr": attr, "kind": kind, "values": values}


_BED3 = [_col("chromosome", "str", _CHROMS), _col("start", "int", _STARTS), _col("stop", "int", _STOPS)]
# Bed6.score is Optional[int]: a lone '.' (and, by the same code, an empty field) is the documented missing value
_BED6 = _BED3 + [_col("name", "str", _NAMES), _col("score", "optint", _SCORES), _col("strand", "strand", _STRANDS)]
_GTF = [_col("chromosome", "str", _CHROMS), _col("source", "str", ["src", "s", "hav", "x", "yy", "z"]),
        _col("feature_type", "str", ["gene", "exon", "CDS", "gene", "exon", "gene"]),
        _col("start", "int", _STARTS), _col("stop", "int", _STOPS), _col("score", "str", [".", "1", ".", "22", ".", "."]),
        _col("strand", "strand", _STRANDS), _col("phase", "str", [".", "0", "1", ".", "2", "."]),
        _col("atributes", "str", ['g "1";', 'g "2"; x "y";', 'g "3";', 'a "b";', 'g "q";', 'c "d";'])]
_GFF = _GTF[:8] + [_col("atributes", "str", ["ID=g", "ID=e;P=g", "ID=c", "ID=g2;N=n", "ID=x", "ID=y"])]

FORMATS = {f.name: f for f in [
    Fmt("fastq", ".fq", "oneline", 4),
    Fmt("fasta2", ".fa", "oneline", 2, buffer="TwoLineFastaBuffer"),
    Fmt("fastaml", ".fa", "multiline", 0),
    Fmt("bed3", ".bed", "delimited", cols=_BED3),
    Fmt("bed6", ".bed", "delimited", cols=_BED6, buffer="Bed6Buffer"),
    Fmt("bdg", ".bdg", "delimited", cols=_BED3 + [_col("value", "float", _FLOATS)]),
    Fmt("narrowpeak", ".narrowPeak", "delimited",
        cols=_BED6 + [_col("signal_value", "float", _FLOATS), _col("p_value", "floatexp", _FLOATS2),
                      _col("q_value", "float", _FLOATS), _col("summit", "int", _SCORES)]),
    Fmt("vcf", ".vcf", "delimited", header="##fileformat=VCFv4.2\n#CHROM\tPOS\tID\tREF\tALT\tQUAL\tFILTER\tINFO\n",
        cols=[_col("chromosome", "str", _CHROMS), _col("position", "int", _STOPS), _col("id", "str", [".", "rs1", ".", "rs22", ".", "."]),
              _col("ref_seq", "str", ["A", "AC", "G", "T", "GGT", "C"]), _col("alt_seq", "str", ["T", "A", "GA", "C", "G", "CT"]),
              _col("quality", "str", [".", "30", ".", "9.5", ".", "."]), _col("filter", "str", ["PASS", ".", "q10", "PASS", ".", "."]),
              _col("info", "str", [".", ".", ".", ".", ".", "."])]),
    Fmt("sam", ".sam", "delimited", header="@HD\tVN:1.6\n@SQ\tSN:chr1\tLN:100000\n", min_cols=11,
        cols=[_col("name", "str", ["r1", "read2", "r", "rd4", "r5", "r6"]), _col("flag", "int", ["0", "16", "99", "4", "0", "147"]),
              _col("chromosome", "str", _CHROMS), _col("position", "int", _STOPS), _col("mapq", "int", ["60", "0", "255", "7", "30", "1"]),
              _col("cigar", "str", ["4M", "1M", "3M1I3M", "2M", "5M", "*"]), _col("next_chromosome", "str", ["=", "*", "=", "*", "=", "*"]),
              _col("next_position", "int", ["0", "120", "7", "0", "33", "0"]), _col("length", "int", ["0", "150", "33", "0", "9", "0"]),
              _col("sequence", "str", _SEQS), _col("quality", "str", _QUALS),
              _col("extra", "extra", ["NM:i:0", None, "NM:i:1\tAS:i:33", None, "XS:i:2", None])]),
    Fmt("gtf", ".gtf", "delimited", cols=_GTF),
    Fmt("gff", ".gff", "delimited", cols=_GFF),
    Fmt("csvh", ".csv", "delimited", buffer="csvh", delimiter=",", header="name,seq,count,delta,weight,strand\n",
        cols=[_col("name", "str", _NAMES), _col("seq", "dna", _DNA), _col("count", "int", _SCORES),
              _col("delta", "int", _SIGNED), _col("weight", "float", _FLOATS), _col("strand", "strand", _STRANDS)]),
]}


def good_records(fmt, n):
    """list of records; a record is a list of lines (without newline); delimited: one line"""
    recs = []
    for i in range(n):
        if fmt.name == "fastq":
            recs.append(["@r%d" % i if i != 1 else "@read1 descr", _SEQS[i], "+", _QUALS[i]])
        elif fmt.name == "fasta2":
            recs.append([">s%d" % i if i != 1 else ">seq1 descr", _SEQS[i]])
        elif fmt.name == "fastaml":
            s = _SEQS[i] * 2
            recs.append([">s%d" % i] + [s[k:k + 5] for k in range(0, len(s), 5)])
        else:
            recs.append([fmt.delimiter.join(_fields(fmt, i))])
    return recs


def _fields(fmt, i):
    return [c["values"][i] for c in fmt.cols if c["values"][i] is not None]


# --------------------------------------------------------------------------------------------------------------
# violations

def _char_class(ch, kind):
    if ch == "":
        return "empty"
    if kind in ("int", "optint", "float", "floatexp") and ch in "PQRSTUVWXY":
        return "plus32-image"            # DESIGN section 8: alphabet + 32 applied to non-letters
    if kind == "strand" and ch in "KMN":
        return "plus32-image"
    if ch.isalpha():
        return "letter"
    if ch == " ":
        return "space"
    if ch.isdigit():
        return "digit"
    return "punct"


def violations(fmt, n):
    """dict vid -> dict(vclass, sub, q -> (record lines, line offset inside the record), diagnosed, positions)"""
    out = {}

    def add(vid, vclass, sub, fn, positions=None, diagnosed=True, line_in_record=0):
        out[vid] = {"vid": vid, "vclass": vclass, "sub": sub, "fn": fn, "diagnosed": diagnosed,
                    "positions": list(range(n)) if positions is None else positions, "line_in_record": line_in_record}

    if fmt.kind == "oneline":
        add("marker|x", "marker", "replaced", lambda r: ["x" + r[0][1:]] + r[1:])
        add("marker|dropped", "marker", "dropped", lambda r: [r[0][1:]] + r[1:])
        add("marker|other", "marker", "other-marker", lambda r: [("+" if fmt.name == "fastq" else "@") + r[0][1:]] + r[1:])
        add("marker|emptyline", "marker", "empty-header-line", lambda r: [""] + r[1:])
        add("marker|space", "marker", "space-before-marker", lambda r: [" " + r[0]] + r[1:])
        if fmt.name == "fastq":
            add("plus|minus", "plus", "replaced", lambda r: r[:2] + ["-"] + r[3:], line_in_record=2)
            add("plus|emptyline", "plus", "empty-line", lambda r: r[:2] + [""] + r[3:], line_in_record=2)
            add("plus|space", "plus", "space-before-plus", lambda r: r[:2] + [" +"] + r[3:], line_in_record=2)
            add("plus|x", "plus", "letter-before-plus", lambda r: r[:2] + ["x+"] + r[3:], line_in_record=2)
            # the '+' line is missing altogether: the third line of record q is its quality line (chosen not to
            # start with '+'); everything behind it is shifted by one line
            add("plus|deleted", "plus", "deleted-line", lambda r: r[:2] + ["I" + r[3][1:]], line_in_record=2)
    elif fmt.kind == "multiline":
        add("marker|x", "marker", "replaced", lambda r: ["x" + r[0][1:]] + r[1:], positions=[0])
        add("marker|dropped", "marker", "dropped", lambda r: [r[0][1:]] + r[1:], positions=[0])
    else:
        d = fmt.delimiter
        ncols = len(fmt.cols)

        def put(ci, make):
            def fn(r, ci=ci, make=make):
                f = r[0].split(d)
                f[ci] = make(f[ci])
                return [d.join(f)]
            return fn

        for ci, c in enumerate(fmt.cols):
            kind = c["kind"]
            if kind in ("int", "optint", "float", "floatexp"):
                isint = kind in ("int", "optint")
                suffix = ""
                chars = ["x", "P", " ", ";"] + (["."] if isint else (["-", "e"] if kind == "float" else ["e"]))
                for ch in chars:
                    cc = _char_class(ch, kind) + suffix
                    if ch == "e":
                        # 'e' switches the float parser to its exponent branch: a dangling or doubled exponent marker
                        cc = "exponent-marker" + suffix
                        add("nonnumeric|%s|e|dangling" % c["attr"], "nonnumeric", cc, put(ci, lambda v: v.split("e")[0] + "e"))
                        add("nonnumeric|%s|e|leading" % c["attr"], "nonnumeric", cc, put(ci, lambda v: "e" + v.split("e")[0].replace(".", "")))
                        add("nonnumeric|%s|e|word" % c["attr"], "nonnumeric", cc, put(ci, lambda v: "twenty"))
                        add("nonnumeric|%s|e|letter-exponent" % c["attr"], "nonnumeric", cc, put(ci, lambda v: "1ex"))
                        continue
                    # '-' in a float: only in the middle/last place (a leading '-' is a sign)
                    if ch != "-":
                        add("nonnumeric|%s|%s|first" % (c["attr"], ch), "nonnumeric", cc, put(ci, lambda v, ch=ch: (ch + v if len(v) < 2 else ch + v[1:]) if v[0] not in "+-" else v[0] + ch + v[2:]))
                    add("nonnumeric|%s|%s|last" % (c["attr"], ch), "nonnumeric", cc, put(ci, lambda v, ch=ch: v + ch if len(v) < 2 else v[:-1] + ch))
                    if ch != "-" and not (kind == "optint" and ch == "."):
                        add("nonnumeric|%s|%s|only" % (c["attr"], ch), "nonnumeric", cc, put(ci, lambda v, ch=ch: ch))
                add("nonnumeric|%s|word|only" % c["attr"], "nonnumeric", "letter" + suffix, put(ci, lambda v: "ABC"))
                # values made of legal characters only that are not numbers
                add("nonnumeric|%s|-|lone-sign" % c["attr"], "nonnumeric", "lone-sign", put(ci, lambda v: "-"))
                add("nonnumeric|%s|+|lone-sign" % c["attr"], "nonnumeric", "lone-sign", put(ci, lambda v: "+"))
                add("nonnumeric|%s|-|sign-inside" % c["attr"], "nonnumeric", "sign-inside", put(ci, lambda v: "1-2"))
                if not isint:
                    add("nonnumeric|%s|-|exponent-lone-sign" % c["attr"], "nonnumeric", "lone-sign", put(ci, lambda v: "2e-"))
                    add("nonnumeric|%s|.|lone-dot" % c["attr"], "nonnumeric", "lone-decimal-point", put(ci, lambda v: "."))
                    add("nonnumeric|%s|.|two-dots" % c["attr"], "nonnumeric", "two-decimal-points", put(ci, lambda v: "1.2.3"))
                if kind != "optint":
                    add("nonnumeric|%s||only" % c["attr"], "nonnumeric", "empty" + suffix, put(ci, lambda v: ""))
            elif kind == "strand":
                for ch in ["x", "K", "1", " ", "*"]:
                    add("alphabet|%s|%s|only" % (c["attr"], ch), "alphabet", _char_class(ch, kind), put(ci, lambda v, ch=ch: ch))
            elif kind == "dna":
                for ch in ["x", "N", "1", " ", "-"]:
                    cc = _char_class(ch, kind)
                    add("alphabet|%s|%s|first" % (c["attr"], ch), "alphabet", cc, put(ci, lambda v, ch=ch: ch + v[1:]))
                    add("alphabet|%s|%s|last" % (c["attr"], ch), "alphabet", cc, put(ci, lambda v, ch=ch: v + ch if len(v) < 2 else v[:-1] + ch))
                    add("alphabet|%s|%s|only" % (c["attr"], ch), "alphabet", cc, put(ci, lambda v, ch=ch: ch))
        fixed = ncols if fmt.min_cols is None else fmt.min_cols

        def drop(k):
            def fn(r, k=k):
                f = r[0].split(d)[:fixed]      # SAM: drop the optional fields too, so that fewer than 11 remain
                del f[k]
                return [d.join(f)]
            return fn
        add("colcount|missing-last", "colcount", "missing-column", drop(fixed - 1), diagnosed=False)
        add("colcount|missing-mid", "colcount", "missing-column", drop(1), diagnosed=False)
        add("colcount|blank-line", "colcount", "blank-line", lambda r: [""], diagnosed=False)
        if fmt.min_cols is None:          # SAM has a variable number of optional columns: extra columns are legal
            add("colcount|extra-last", "colcount", "extra-column", lambda r: [r[0] + d + "zz"], diagnosed=False)
            add("colcount|extra-mid", "colcount", "extra-column",
                lambda r: [d.join(r[0].split(d)[:2] + ["7"] + r[0].split(d)[2:])], diagnosed=False)
    return out


# --------------------------------------------------------------------------------------------------------------
# phase L: non-numeric values of EVERY WIDTH with the offending character(s) at EVERY REGION of the field
#
# The violations above are one or three characters wide (a digit of a short number replaced).  A non-numeric value in
# a numeric column is just as often a long token (an identifier, a concatenation of two fields, a number with a
# stray character): the column is laid out as a right-aligned rows x width matrix, so width and the distance of the bad
# character from the END of the field are parameters of their own.  Widths sweep the neighbourhood of 19 (the most
# decimal digits an int64 holds: widest legal value) and beyond; all other characters of the value are digits.

_INT64_DIGITS = 19


def _digits(w, off=0):
    return "".join("1234567890"[(off + i) % 10] for i in range(w))


def _long_widths(full):
    return [2, 18, 19, 20, 21, 27, 40, 64] if full else [18, 19, 20, 21, 27]


def _long_positions(w, full):
    """positions of the bad character: both ends and the two sides of "19 characters from the end"; full grid:
    second, middle and 18th from the end in addition"""
    ps = {0, w - 1, w - _INT64_DIGITS - 1, w - _INT64_DIGITS}
    if full:
        ps.update((1, w // 2, w - _INT64_DIGITS + 1))
    return sorted(p for p in ps if 0 <= p < w)


def _long_region(w, first_bad, last_bad):
    """sub-class (part of the signature) of a value of width w whose non-digit characters lie in first_bad..last_bad"""
    if w <= _INT64_DIGITS:
        return "in-value-of-up-to-19-chars"
    if last_bad < w - _INT64_DIGITS:
        return "before-last-19-chars-of-longer-value"
    if first_bad >= w - _INT64_DIGITS:
        return "within-last-19-chars-of-longer-value"
    return "across-last-19-chars-of-longer-value"


_NUMERIC_KINDS = ("int", "optint", "float", "floatexp")


def _is_signed(c):
    return any(v is not None and v[:1] in ("+", "-") for v in c["values"])


def _long_key_columns():
    """(format, attr) of the key columns of phase L: the first unsigned int column of every delimited format and the
    first column (over all formats) of every other (kind, signed) combination - the layout / parsing code is shared by
    the columns of one kind"""
    keys, seen = set(), set()
    for fmt in FORMATS.values():
        have_int = False
        for c in (fmt.cols or []):
            k = (c["kind"], _is_signed(c))
            if c["kind"] not in _NUMERIC_KINDS:
                continue
            if k == ("int", False):
                if not have_int:
                    keys.add((fmt.name, c["attr"]))
                    have_int = True
            elif k not in seen:
                seen.add(k)
                keys.add((fmt.name, c["attr"]))
    return keys


def long_value_violations(fmt, n, quick):
    """same structure as violations(); vids  long|<attr>|<what>|<width>|<position>  (kept out of violations() so that
    the phases A/A2/B and their seeded sample stay what they were).
    quick: small grid in the key columns; thorough: full grid in every numeric column"""
    out = {}
    if fmt.kind != "delimited":
        return out
    d = fmt.delimiter
    keycols = _long_key_columns()

    def add(attr, ci, what, w, p, value, cc, first_bad, last_bad):
        def fn(r, ci=ci, value=value):
            f = r[0].split(d)
            f[ci] = value
            return [d.join(f)]
        vid = "long|%s|%s|%d|%d" % (attr, what, w, p)
        out[vid] = {"vid": vid, "vclass": "nonnumeric", "sub": "%s-%s" % (cc, _long_region(w, first_bad, last_bad)),
                    "fn": fn, "diagnosed": True, "positions": list(range(n)), "line_in_record": 0, "value": value,
                    "attr": attr}

    for ci, c in enumerate(fmt.cols):
        kind = c["kind"]
        if kind not in _NUMERIC_KINDS:
            continue
        attr = c["attr"]
        key = (fmt.name, attr) in keycols
        if quick and not key:
            continue
        full = not quick
        for w in _long_widths(full):
            for p in _long_positions(w, full):
                v = _digits(w)
                add(attr, ci, "char-letter", w, p, v[:p] + "x" + v[p + 1:], "letter", p, p)
        if full and key:
            for w in _long_widths(False):
                for p in _long_positions(w, False):
                    v = _digits(w)
                    add(attr, ci, "char-punct", w, p, v[:p] + ";" + v[p + 1:], "punct", p, p)
        # identifier-like tokens: k letters followed by a run of t digits (k + t wide)
        for k, t in ([(1, 18), (1, 19), (2, 19), (4, 15), (4, 19), (4, 23), (8, 36), (12, 30)] if full else
                     [(4, 23), (1, 19), (4, 15)]):
            add(attr, ci, "identifier", k + t, k, "ENSGXTRANSCR"[:k] + _digits(t, 7), "letters", 0, k - 1)
        # a number, a stray letter, a number (two values run together): bad character t characters before the end
        for t in ([1, 18, 19, 20, 21, 30] if full else [19, 20]):
            for head in ((3, 12) if full else (3,)):
                w = head + 1 + t
                add(attr, ci, "joined", w, head, _digits(head) + "x" + _digits(t, 3), "letter", head, head)
    return out


_LCACHE = {}


def _long_viols(fmt, n, quick):
    k = (fmt.name, n, quick)
    if k not in _LCACHE:
        _LCACHE[k] = long_value_violations(fmt, n, quick)
    return _LCACHE[k]


def _lookup(fmt, n, vid):
    if vid.startswith("long|"):
        for quick in (True, False):
            v = _long_viols(fmt, n, quick).get(vid)
            if v is not None:
                return v
        raise KeyError(vid)
    return _viols(fmt, n)[vid]


def representative_vids(fmt, viols, level):
    """level "key": one variant per class and column KIND (the first int column, the first float column, ... with a plain
    letter), every column-count / marker / plus variant class once.  level "column": additionally a plain letter in EVERY
    numeric / alphabet column (digit-matrix, ragged and float paths differ by column)."""
    seen, reps = set(), []
    kind_of = {c["attr"]: c["kind"] for c in (fmt.cols or [])}
    for vid, v in viols.items():
        parts = vid.split("|")
        col = parts[1] if len(parts) > 2 else ""
        if v["vclass"] in ("nonnumeric", "alphabet"):
            if not v["sub"].startswith("letter"):
                continue
            key = (v["vclass"], kind_of[col] if level == "key" else col)
        elif v["vclass"] == "colcount":
            key = (v["vclass"], v["sub"])
        else:
            key = (v["vclass"], v["sub"]) if (level == "column" or v["sub"] in ("replaced", "deleted-line")) else None
        if key is None or key in seen:
            continue
        seen.add(key)
        reps.append(vid)
    return reps


def build(fmt, n, vid=None, q=None):
    """-> (file bytes, expected zero-based line of the offending line counted from the first data line, n records)"""
    recs = good_records(fmt, n)
    expected = None
    if vid is not None:
        v = _lookup(fmt, n, vid)
        expected = sum(len(r) for r in recs[:q]) + v["line_in_record"]
        recs[q] = v["fn"](list(recs[q]))
    text = fmt.header + "".join(line + "\n" for r in recs for line in r)
    return text.encode("ascii"), expected


# --------------------------------------------------------------------------------------------------------------
# reading through the public API

def do_read(path, bt, mode, cs, lazy):
    """-> ("ok", n_records) | ("FE", line_number, n_records_delivered_before) | ("ERR", type name, n_before)"""
    import bionumpy as bnp
    from bionumpy.io.exceptions import FormatException
    n_ok = 0
    f = None

    def materialise(d):
        if hasattr(d, "get_data_object"):
            d = d.get_data_object()
        return len(d)
    try:
        f = bnp.open(path, buffer_type=bt, lazy=lazy)
        if mode == "read":
            n_ok += materialise(f.read())
        else:
            for ch in f.read_chunks(min_chunk_size=cs):
                n_ok += materialise(ch)
        return ("ok", n_ok)
    except FormatException as e:
        ln = e.line_number
        try:
            ln = int(ln)
        except Exception:
            ln = repr(ln)
        return ("FE", ln, n_ok)
    except Exception as e:
        return ("ERR", type(e).__name__, n_ok)
    finally:
        try:
            if f is not None:
                f.close()
        except Exception:
            pass


_VCACHE = {}


def _viols(fmt, n):
    k = (fmt.name, n)
    if k not in _VCACHE:
        _VCACHE[k] = violations(fmt, n)
    return _VCACHE[k]


class FileUnderTest:
    def __init__(self, col, tmp, fmt, n, vid, q):
        self.col, self.fmt, self.n, self.vid, self.q = col, fmt, n, vid, q
        self.data, self.expected = build(fmt, n, vid, q)
        self.v = _lookup(fmt, n, vid) if vid is not None else None
        base = os.path.join(tmp, "f%d" % col.evaluations)
        self.paths = {False: base + fmt.suffix, True: base + fmt.suffix + ".gz"}
        self._written = set()
        self.fe_seen = None       # first configuration that gave a FormatException
        self.nonfe_seen = None    # first configuration that raised something else
        self.local_deltas = set()  # reported - expected seen where no earlier chunk was involved
        # the violated column is a float column that, in this file, mixes values with and without an exponent marker
        self.mixed_exp = False
        if self.v is not None and self.v["vclass"] == "nonnumeric":
            attr = self.v.get("attr") or vid.split("|")[1]
            ci = [c["attr"] for c in fmt.cols].index(attr)
            if fmt.cols[ci]["kind"] in ("float", "floatexp"):
                body = self.data[len(fmt.header):].decode().split("\n")[:-1]
                vals = [ln.split(fmt.delimiter)[ci] for ln in body]
                self.mixed_exp = any("e" in x for x in vals) and not all("e" in x for x in vals)

    def path(self, gz):
        p = self.paths[gz]
        if gz not in self._written:
            if gz:
                with gzip.open(p, "wb") as f:
                    f.write(self.data)
            else:
                with open(p, "wb") as f:
                    f.write(self.data)
            self._written.add(gz)
        return p

    def cleanup(self):
        for gz in self._written:
            try:
                os.unlink(self.paths[gz])
            except OSError:
                pass

    def case(self, mode, cs, lazy, gz):
        return {"fmt": self.fmt.name, "n": self.n, "vid": self.vid, "q": self.q, "mode": mode, "cs": cs, "lazy": lazy, "gz": gz}

    def evaluate(self, mode, cs, lazy, gz):
        col, fmt, v = self.col, self.fmt, self.v
        case = self.case(mode, cs, lazy, gz)
        out = do_read(self.path(gz), fmt.buffer_type(), mode, cs, lazy)
        col.per_format[fmt.name] = col.per_format.get(fmt.name, 0) + 1
        if v is None:
            # guards the generator only: the well-formed file is accepted (how many records arrive is C01's business)
            col.case(case, contract="baseline")
            col.check(out[0] == "ok", "generator:wellformed-file-rejected:%s" % fmt.name, case,
                      "well-formed %s file: %r (data %r)" % (fmt.name, out, self.data))
            return out
        col.case(case, contract="reported")
        fam = fmt.kind
        ident = "%s:%s" % (v["vclass"], v["sub"])
        accepted = out[0] == "ok" or out[2] > self.q
        col.check(not accepted, "%s:no-error-table-delivered:%s" % (ident, fam), case,
                  "record %d of %d violates the format (%s) but %s; data %r" % (
                      self.q, self.n, self.vid,
                      "the read completed with %d records and no error" % out[1] if out[0] == "ok" else
                      "%d records were delivered before the error %r" % (out[2], out[:2]), self.data))
        if out[0] == "FE":
            col.case({"k": "line", **case}, contract="line-number")
            if out[1] != self.expected:
                delta = out[1] - self.expected if isinstance(out[1], int) else "nan"
                # read_chunks() parses one chunk ahead of the one it hands out, so "no chunk delivered yet" does not
                # mean "first chunk"; the whole-file read (evaluated first) is the reference for a chunk-local error
                first = mode == "read"
                if first:
                    self.local_deltas.add(delta)
                if not v["diagnosed"]:
                    sig = "%s:format-exception-with-other-line:%s" % (ident, fam)
                elif self.mixed_exp:
                    # one defect region: the float parser handles the rows with and without exponent separately and
                    # the error offset is relative to that subset of rows (whichever rows share a chunk)
                    sig = "nonnumeric:float-column-mixing-exponent-and-plain-values:wrong-line-number:%s" % fam
                elif first or delta in self.local_deltas:
                    # wrong in the whole-file read where no chunk offset exists (or: wrong by the same amount as there)
                    sig = "%s:wrong-line-number:%s:within-chunk" % (ident, fam)
                else:
                    sig = "%s:wrong-line-number:%s:chunk-offset:%s" % (ident, fam, "lazy" if lazy else "eager")
                col.fail(sig, case, "FormatException.line_number = %r, offending line is %r (records handed out before the error: "
                                    "%d); data %r" % (out[1], self.expected, out[2], self.data))
            if self.fe_seen is None:
                self.fe_seen = case
        elif out[0] == "ERR":
            if self.nonfe_seen is None:
                self.nonfe_seen = (case, out)
        return out

    def finish(self):
        """same-kind contract over all configurations of this file"""
        v = self.v
        if v is None or not v["diagnosed"]:
            return
        self.col.case({"k": "same-kind", "fmt": self.fmt.name, "vid": self.vid, "q": self.q, "n": self.n}, contract="same-kind")
        if self.fe_seen is not None and self.nonfe_seen is not None:
            case, out = self.nonfe_seen
            self.col.fail("%s:%s:format-exception-only-in-some-configurations:%s" % (v["vclass"], v["sub"], self.fmt.kind),
                          dict(case, other=self.fe_seen),
                          "%r here but a FormatException with a line number for %r; data %r" % (out, self.fe_seen, self.data))


# --------------------------------------------------------------------------------------------------------------

def chunk_sizes(fmt, data, n, plan):
    L = len(data) - len(fmt.header)
    if plan == "all" and L <= 110:
        return list(range(1, L + 3))
    body = data[len(fmt.header):]
    nl = [i + 1 for i, b in enumerate(body) if b == 10]
    step = max(fmt.lpr, 1)
    bounds = nl[step - 1::step] if fmt.kind != "multiline" else nl
    if plan in ("boundaries", "all"):
        # record boundaries and their neighbours, single record lengths, the smallest sizes, the whole file and beyond
        s = {1, 2, L - 1, L, L + 1}
        prev = 0
        for b in bounds:
            s.update((b - 1, b, b + 1, b - prev))
            prev = b
        if plan == "all":            # long files: every second size in addition to the boundary neighbourhoods
            s.update(range(1, L + 3, 2))
        return sorted(x for x in s if 1 <= x <= L + 2)
    # "few": every record its own chunk / about two records per chunk / everything in one chunk
    return sorted({1, min(L + 1, (bounds[min(1, len(bounds) - 1)] if bounds else L) + 1), L + 1})


def _sweep(col, tmp, fmt, n, vid, q, plan, gz_plan):
    """plan: all | boundaries | few (chunk sizes);  gz_plan: full | thin | one | none"""
    fut = FileUnderTest(col, tmp, fmt, n, vid, q)
    try:
        sizes = chunk_sizes(fmt, fut.data, n, plan)
        for lazy in (False, True):
            fut.evaluate("read", 0, lazy, False)
            for cs in sizes:
                fut.evaluate("chunks", cs, lazy, False)
        if gz_plan == "full":
            gsizes = sizes
        elif gz_plan == "thin":
            gsizes = sizes[1::3]
        elif gz_plan == "one":
            gsizes = sizes[1:2]
        else:
            gsizes = None
        if gsizes is not None:
            for lazy in (False, True):
                if gz_plan != "one" or lazy:
                    fut.evaluate("read", 0, lazy, True)
                for cs in gsizes:
                    if gz_plan != "one" or not lazy:
                        fut.evaluate("chunks", cs, lazy, True)
        fut.finish()
    finally:
        fut.cleanup()


def _sweep_long(col, tmp, fmt, n, vid, q, gz):
    """phase L: whole-file read and chunks of about two records, eager and lazy (thorough: the gzip file too)"""
    fut = FileUnderTest(col, tmp, fmt, n, vid, q)
    try:
        cs = chunk_sizes(fmt, fut.data, n, "few")[1]      # about two records per chunk
        for lazy in (False, True):
            fut.evaluate("read", 0, lazy, False)
            fut.evaluate("chunks", cs, lazy, False)
        if gz:
            fut.evaluate("read", 0, bool(q % 2), True)
        fut.finish()
    finally:
        fut.cleanup()


def run(tier="quick", seed=0):
    quick = tier == "quick"
    n = 3 if quick else 4
    col = Collector("C15", tier, seed,
                    "per format: well-formed file of N records of unequal widths, ONE violation (class x variant) injected at every "
                    "record position q; read with read() and read_chunks(cs) x {eager, lazy+materialise} x {plain, gzip}. "
                    "Phase A: key variants (one per class and column kind) x chunk sizes " +
                    ("{record boundaries +-1, record lengths, 1, 2, len-1..len+1}" if quick else "1..len+2 (all; files longer than 110 bytes: every second size + boundary neighbourhoods)") +
                    "; phase L: a non-numeric value of every width in " + str(_long_widths(not quick)) + " (digits with ONE bad character at "
                    "each end / 20th and 19th from the end" + ("" if quick else " / second / middle / 18th from the end") +
                    "; identifier-like tokens of k letters + t digits; two numbers joined by a letter) in " +
                    ("the key numeric columns (first unsigned int column of every format, first column of every other kind)" if quick
                     else "every numeric column") +
                    ", record position rotating"
                    " x {read(), read_chunks(about two records)} x {eager, lazy}" + ("" if quick else "; in the key columns also punctuation and a gzip read()") +
                    "; phase A2: a letter in every numeric/alphabet column, every marker/plus variant x boundary chunk sizes; "
                    "phase B: every variant (bad character x placement x column) x read() + 3 chunk sizes" +
                    (" (seeded sample within the time budget)" if quick else "") +
                    ". distinct = (format, violation, q, read configuration); every case but the baseline is a malformed file",
                    budget_s=52 if quick else 560)
    col.per_format = {}
    col.bounds = {"formats": sorted(FORMATS), "records_N": n, "positions_q": "0..N-1 (wrapped fasta: 0)",
                  "chunk_sizes_A": "boundaries+-1, record lengths, 1, 2, len-1..len+1" if quick else "1..len+2 (len > 110: every 2nd + boundaries+-1)",
                  "chunk_sizes_A2": "boundaries+-1, record lengths, 1, 2, len-1..len+1",
                  "chunk_sizes_B": "1, first two records + 1, len+1", "lazy": [False, True], "gzip": [False, True],
                  "long_value_widths_L": _long_widths(not quick),
                  "long_value_bad_char_positions_L": "0, w-1, w-20, w-19" + ("" if quick else ", 1, w//2, w-18"),
                  "long_value_columns_L": sorted("%s.%s" % k for k in _long_key_columns()) if quick else "every int / Optional[int] / float column",
                  "long_value_shapes_L": ["digits with one bad character " + ("x" if quick else "x or ;"),
                                          "k letters + t digits (identifier)", "digits + letter + t digits (joined)"],
                  "bad_characters": {"int": "x P ' ' ; . ABC '' - + 1-2", "float": "x P ' ' ; - ABC '' - + 1-2 . 1.2.3 2e- and exponent forms 1e e1 twenty 1ex", "strand": "x K 1 ' ' *",
                                     "dna": "x N 1 ' ' -"}, "placements": ["first", "last", "only"]}
    prev_disable = logging.root.manager.disable
    logging.disable(logging.CRITICAL)
    try:
        with TmpDir() as tmp:
            _run(col, tmp, quick, n)
    finally:
        logging.disable(prev_disable)
    col.bounds["evaluations_per_format"] = dict(col.per_format)
    col.bounds["phases_completed"] = col.phases
    return col.result()


def _run(col, tmp, quick, n):
    order = list(FORMATS.values())
    col.phases = []
    # baseline: the generator's well-formed files are accepted in the configurations used below
    for fmt in order:
        _sweep(col, tmp, fmt, n, None, None, "boundaries", "thin" if quick else "full")
    col.phases.append("baseline@%ds" % (time.time() - col.t0))
    done = set()

    # phase L: long / every-width non-numeric values (own time allowance, added to the budget of the phases below so
    # that those enumerate what they did before)
    t_l = time.time()
    allowance = 10 if quick else 60
    files_l = [(fmt, vid, q) for fmt in order for vid, v in _long_viols(fmt, n, quick).items() for q in v["positions"]]
    # every (column, value) at ONE record position, rotating over the positions
    files_l = [(fmt, vid, q) for k, (fmt, vid, q) in enumerate(files_l) if q == (k // n) % n]
    col.bounds["phase_L_files"] = len(files_l)
    complete = True
    for k, (fmt, vid, q) in enumerate(files_l):
        if time.time() - t_l > allowance:
            col.exhaustive = False
            complete = False
            break
        _sweep_long(col, tmp, fmt, n, vid, q, not quick and (fmt.name, vid.split("|")[1]) in _long_key_columns())
        col.bounds["phase_L_files_done"] = k + 1
    col.budget_s += time.time() - t_l
    if complete:
        col.phases.append("L@%ds" % (time.time() - col.t0))

    def phase(name, level, plan, gz_plan):
        for fmt in order:
            viols = _viols(fmt, n)
            for vid in representative_vids(fmt, viols, level):
                for q in viols[vid]["positions"]:
                    if (fmt.name, vid, q, plan) in done or (fmt.name, vid, q, "all") in done:
                        continue
                    if col.out_of_time():
                        return False
                    _sweep(col, tmp, fmt, n, vid, q, plan, gz_plan)
                    done.add((fmt.name, vid, q, plan))
        col.phases.append("%s@%ds" % (name, time.time() - col.t0))
        return True

    if quick:
        if not phase("A", "key", "boundaries", "thin"):
            return
    else:
        if not phase("A", "key", "all", "thin"):
            return
        if not phase("A2", "column", "boundaries", "thin"):
            return
    todo_b = [(fmt, vid, q) for fmt in order for vid, v in _viols(fmt, n).items() for q in v["positions"]
              if not any((fmt.name, vid, q, p) in done for p in ("all", "boundaries"))]
    # B1: for every format one variant of every (class, sub-class) at a rotating position, in fixed order;
    # B2: the rest (quick: a seeded sample, spread over the formats, within the remaining budget)
    seen, b1, b2 = {}, [], []
    for fmt, vid, q in todo_b:
        v = _viols(fmt, n)[vid]
        key = (fmt.name, v["vclass"], v["sub"])
        if key not in seen:
            seen[key] = (vid, v["positions"][len(seen) % len(v["positions"])])
        (b1 if seen[key] == (vid, q) else b2).append((fmt, vid, q))
    if quick:
        col.rng.shuffle(b2)
    todo_b = b1 + b2
    col.bounds["phase_B_files"] = len(todo_b)
    for k, (fmt, vid, q) in enumerate(todo_b):
        col.bounds["phase_B_files_done"] = k
        if col.out_of_time():
            return
        _sweep(col, tmp, fmt, n, vid, q, "few", "none" if quick else "one")
    col.phases.append("B@%ds" % (time.time() - col.t0))


def replay(case):
    col = Collector("C15", "quick", 0, "replay")
    col.per_format = {}
    fmt = FORMATS[case["fmt"]]
    prev_disable = logging.root.manager.disable
    logging.disable(logging.CRITICAL)
    try:
        with TmpDir() as tmp:
            fut = FileUnderTest(col, tmp, fmt, case["n"], case["vid"], case["q"])
            try:
                if case["mode"] != "read" and case["vid"] is not None:
                    # the "within-chunk" classification refers to the whole-file read of the same file
                    fut.evaluate("read", 0, case["lazy"], False)
                    col.failures.clear()
                    col._fail_sigs.clear()
                out = fut.evaluate(case["mode"], case["cs"], case["lazy"], case["gz"])
                msg = "outcome %r, expected line %r, data %r" % (out, fut.expected, fut.data)
                if "other" in case:
                    o = case["other"]
                    fut.evaluate(o["mode"], o["cs"], o["lazy"], o["gz"])
                    fut.finish()
            finally:
                fut.cleanup()
    finally:
        logging.disable(prev_disable)
    if col.failures:
        return False, "; ".join(f["signature"] + ": " + f["message"] for f in col.failures)
    return True, "ok: " + msg
