"""C03 bounded stand-in: write -> read round trip, canonical bytes, composability of writes.

Run-time contracts evaluated on the real `bnp.open(path, 'w'|'a').write(...)` / `bnp.open(path).read()`:

  canonical-bytes   one write of a table  -> file bytes == reference serialisation (rtc/refmodels/c03_formats.py:
                    TAB separated columns, one record per line / FASTA wrapped at 80 / FASTQ 4 lines, VCF POS+1;
                    float columns compared numerically), any header before the records and exactly once
  read-back         bnp.open(path).read() of that file == the table (floats to 1e-9 relative)
  pieces            the same rows written as successive write() calls of one writer / as a stream of chunks /
                    'w' then re-opened 'a' for every further piece, plain and .gz  -> same content, header once
  lazy-write        a table obtained by reading a (reference-written) file, unmodified or with one column replaced,
                    written in pieces -> reference serialisation of the (modified) table, source header once
  rechunk-stream    out.write(bnp.open(src).read_chunks(n)) -> content of src
  row-selection     a table that is a row selection of another (built or read) table - reversed, permuted, masked,
                    strided, tail / middle slice, repeated rows, empty, rotated with np.concatenate, selections of
                    selections - written once -> reference serialisation of the selected rows (Python list semantics),
                    and read back
  one-table-history ONE table object written more than once (successive writes, stream, 'w' then 'a', separate files),
                    its slices / masks as the pieces, a selection taken after a write -> every write gives the reference
                    bytes of its rows, and the object the caller holds is unchanged by the writes (frame condition:
                    deep snapshot of the columns before == after; a read table still equals its source file)
  concat-write      SEVERAL table objects - read (lazily) from files of their own, the chunks of one file as read_chunks
                    delivers them, or built - each untouched or row-selected, joined with np.concatenate and the join
                    written once / as one of several pieces / nested / row-selected again -> reference serialisation of
                    the selected rows of the tables in order (= what writing the tables one after the other gives),
                    source header once, and read back

Scope: per type a pool of K hand-built rows with field widths 1..long, every table of 0..2 rows over the pool and
3-row tables (quick: a Latin-square sample, thorough: all), every composition of the rows into pieces plus empty
pieces in front / in the middle / at the end; FASTA lengths around multiples of the line width (80, and subclasses with
widths 1, 2, 3, 7 at every length 1..2W+2); sequence alphabets; chromosome as StringEncoding; integer boundaries
10^k-1, 10^k (k<=14) and, as its own region, |v| >= 10^15-1; file suffixes and mode spellings; grouped_stream as the
stream; a seeded sample of 4..6-row tables above the bounds; float columns (BedGraph, NarrowPeak, custom float column) holding
doubles of every shape of their shortest decimal text - 1..17 significant digits x sign x positional / two-digit /
three-digit exponent up to the limits of the double range, text length 3..24 - and a seeded sample of doubles drawn by bit
pattern, plus, as its own region, values below the smallest normal double (see float_family); row selections of 3..6-row tables of every type (every
index list / mask / slice of 3-row tables) and histories of writes of one object (see derived_family, history_family).

Failure signatures name the class of the fault, found by re-running neighbouring cases (`classify_write`): a failure of
the single plain write is `canonical-bytes:<type | variant=.. | bigint | long-float | float-subnormal | delimited>` (long-float: a float whose shortest
text is longer than 16 characters, and the same table with short float values is fine), one that needs the pieces is
`pieces-differ:<mode>[:gz-only][:<type>]`, header faults are `header-not-once:<mode>[:gz-only]:<missing|repeated|..>`.
Faults that need a derived / re-used table object (the same rows as freshly built tables are fine):
`row-selection:[lazy:][empty:]<type | any-type>`, `rewrite-same-table:[lazy:][<mode>:]<type | any-type>` (any-type: the
simplest table, Interval, fails in the same history), `table-changed-by-write:[lazy:]<type>`.
Faults that need the join of several tables (every table alone and the tables written one after the other are fine):
`concat-write:<lazy|read|chunks|built>:<a>+<b>:<type | any-type>` with <a>, <b> in whole | selected | empty = the first adjacent
pair of tables whose join alone fails (see _classify_concat).
"""
import gzip
import itertools
import os

from .common import Collector, TmpDir, to_py
from .refmodels import c03_formats as ref
from .refmodels.c03_formats import SPECS

BIG = 10 ** 15 - 1

# ------------------------------------------------------------------------------------------------ field pools

IDS = ["chr1", "1", "c", "chrUn_KI270302v1", "HLA-A*01:01", "X.y|z-9", "chr10",
       "scaffold_0000000000000000000000000000001"]
NAMES = ["n1", "x", ".", "peak_0001", "a-very-long-feature-name/1", "Q", "r.2", "ab"]
STARTS = [0, 9, 99, 1000, 123456789, 10, 7, 999]
STOPS = [5, 10, 100, 99999, 2147483648, 99999999999999, 100000000000000, 1000]
SCORES = [0, 1000, 9, 10, 999, 1, 100, 65535]
STRANDS = ["+", "-", ".", "+", "-", "-", ".", "+"]
FLOATS = [[0.0, 1.0, -1.5], [0.001, 123456.789, 1e-05], [2.5e+20, -3.25e-10, 100.25], [0.1, -0.0625, 7.0],
          [1e16, 0.5, 12345678.9], [3.0, 99.99, -1.0], [6.02e23, 1.0e-300, 2.0], [-273.15, 1.5e300, 0.3]]


def _lcg_seq(n, salt, alphabet):
    x = (salt * 2654435761 + 12345) & 0xFFFFFFFF
    out = []
    for _ in range(n):
        x = (x * 1103515245 + 12345) & 0x7FFFFFFF
        out.append(alphabet[(x >> 16) % len(alphabet)])
    return "".join(out)


ALPHABETS = {"base": "ACGTacgtNnRYKM", "dna": "ACGT", "acgtn": "ACGTN", "rna": "ACGU", "aa": "ACDEFGHIKLMNPQRSTVWY"}
_width = []


def fasta_width():
    """line width of the FASTA writer: the public class attribute MultiLineFastaBuffer.n_characters_per_line (80)"""
    if not _width:
        from bionumpy.io.multiline_buffer import MultiLineFastaBuffer
        _width.append(int(MultiLineFastaBuffer.n_characters_per_line))
    return _width[0]


def fasta_lengths(tier):
    W = fasta_width()
    ls = [W, 1, W + 1, 2 * W, W - 1, 2 * W + 1] + ([2, 2 * W - 1, 3 * W, 3 * W + 1] if tier == "thorough" else [])
    return [l for l in ls if l >= 1]
FASTQ_LENGTHS = [4, 1, 80, 31, 81, 2, 100, 5]
QUAL_CHARS = "".join(chr(c) for c in range(33, 127))


def _qual(n, j):
    q = "".join(QUAL_CHARS[(i * 13 + j * 29 + (i * i) % 7) % len(QUAL_CHARS)] for i in range(n))
    if j == 1:
        q = "@" + q[1:]          # a quality line starting with the record marker is legal FASTQ
    if j == 3:
        q = "+" + q[1:]
    return q


def pool(tname, variant, tier):
    """the row pool of one type (list of rows; a row is a list of plain Python field values)"""
    n = 8
    if tname == "interval":
        return [[IDS[j], STARTS[j], STOPS[j]] for j in range(n)]
    if tname == "bed6":
        return [[IDS[j], STARTS[j], STOPS[j], NAMES[j], SCORES[j], STRANDS[j]] for j in range(n)]
    if tname == "bed12":
        extra = [[1, 4, "0", 1, [5], [0]], [20, 100, "255,0,0", 2, [10, 20], [0, 170]],
                 [0, 0, "0,0,255", 3, [1, 22, 333], [0, 10, 1000]], [99, 100, ".", 1, [98999], [0]],
                 [123456790, 123456800, "12,34,56", 2, [100, 9], [0, 99991]], [10, 11, "0", 4, [1, 1, 1, 1], [0, 2, 4, 6]],
                 [7, 9, "1", 1, [10], [0]], [999, 1000, "255,255,255", 2, [1, 0], [0, 1]]]
        return [[IDS[j], STARTS[j], STOPS[j], NAMES[j], SCORES[j], STRANDS[j]] + extra[j] for j in range(n)]
    if tname == "bedgraph":
        return [[IDS[j], STARTS[j], STOPS[j], FLOATS[j][j % 3]] for j in range(n)]
    if tname == "narrowpeak":
        summit = [2, -1, 0, 500, 10, 99, -1, 1]
        return [[IDS[j], STARTS[j], STOPS[j], NAMES[j], SCORES[j], STRANDS[j]] + FLOATS[j] + [summit[j]] for j in range(n)]
    if tname in ("fasta", "fasta2"):
        alph = ALPHABETS[variant or "base"]
        names = ["s1", "seq2 some description", "c", IDS[3], "x|y", "chr10", "A", "n 1"]
        lengths = fasta_lengths(tier) if tname == "fasta" else [4, 1, 80, 81, 200, 2]
        return [[names[j % len(names)], _lcg_seq(L, j + 1, alph)] for j, L in enumerate(lengths)]
    if tname == "fastq":
        alph = ALPHABETS[variant or "base"]
        names = ["r1", "read2 1:N:0:ACGT", "q", "SRR001666.1 071112_SLXA-EAS1_s_7:5:1:817:345 length=36", "x/1", "ab",
                 "r.7", "@odd"]
        return [[names[j], _lcg_seq(L, j + 11, alph), _qual(L, j)] for j, L in enumerate(FASTQ_LENGTHS)]
    if tname == "vcfentry":
        return pool("vcf", variant, tier)
    if tname == "vcf":
        return [["chr1", 0, ".", "A", "T", ".", "PASS", "."],
                ["2", 99, "rs1", "AC", "G,T", "30", ".", "DP=3;AF=0.5"],
                ["X", 999999, "rs123456;rs9", "G", "<DEL>", "99.5", "q10;s50", "SVTYPE=DEL;END=1000100"],
                ["chrUn_KI270302v1", 9, ".", "ACGTACGTAC", "A", "0", "LowQual", "."],
                ["MT", 16568, "id", "N", "*", "1e3", "PASS", "AC=1"],
                ["c", 9999, "a", "T", "TA,TAA,<INS>", "5", "x", "H2;NS=3;DB"],
                ["chr10", 2147483647, ".", "C", ".", ".", ".", "."],
                ["1", 10, "rs2", "g", "a", "3.14", "PASS", "AA=g"]]
    if tname == "sam":
        return [["r1", 0, "chr1", 1, 60, "4M", "=", 0, 0, "ACGT", "IIII", "NM:i:0\tXX:Z:a"],
                ["r2", 16, "*", 0, 0, "*", "*", 0, -5, "*", "*", ""],
                ["read/1", 99, "chrUn_KI270302v1", 123456789, 255, "2S10M1I3M2D5M", "chr2", 1000, 100,
                 "ACGTACGTACGTACGTACGTA", "!\"#$%&'()*+,-./01234", "NM:i:3"],
                ["q", 4095, "1", 10, 9, "1M", "=", 99, -99, "N", "~", "RG:Z:grp1\tAS:i:-10\tMD:Z:0A0"],
                ["a.b-c_d:1:2:3", 163, "X", 99999, 37, "100M", "=", 100200, 301, "A" * 7, "F" * 7, ""],
                ["r6", 256, "c", 2147483647, 1, "5H5M", "chrM", 2147483648, -2147483648, "GATTA", "AAAAA", "X0:i:1"],
                ["z", 4, "*", 0, 0, "*", "*", 0, 0, "AC", "*", "YT:Z:UU"],
                ["r8", 83, "chr10", 1000, 10, "3M", "=", 9, -1000, "TTT", "@@@", "NM:i:0"]]
    if tname == "gtf":
        return [["chr1", "src", "gene", 1, 50, ".", "+", ".", 'gene_id "g1"; transcript_id "t1";'],
                ["2", ".", "exon", 100, 200, "0.5", "-", "0", 'gene_id "g2";'],
                ["c", "HAVANA", "CDS", 9, 10, "1000", ".", "2", ""],
                ["chrUn_KI270302v1", "ensembl_havana", "start_codon", 99999, 100000, ".", "+", "1",
                 'gene_id "ENSG00000223972.5"; gene_type "transcribed_unprocessed_pseudogene"; level 2;'],
                ["X", "a", "five_prime_utr", 123456789, 2147483648, "-1.5e-3", "-", ".", "k v"],
                ["MT", "s", "transcript", 10, 99, "7", "+", ".", 'gene_id "g"; tag "a;b";'],
                ["chr10", "t", "gene", 1000, 9999, ".", ".", ".", 'x "y"'],
                ["1", "u", "exon", 7, 8, "0", "-", "0", 'gene_id "h";']]
    if tname == "custom_tsv":
        return [["a", 1, True, 0.5, [1]], ["bcd", -20, False, 2.0, [2, 30]], ["", 0, True, -1.25e-07, [100, 0, 7]],
                ["x y", 1000, False, 1e16, [9]], ["name", 99, True, 3.0, [10, 11]], ["q", -1, False, 0.001, [0]],
                ["Z9", 10, True, 123.456, [5, 5, 5, 5]], ["w", 9, False, 1.0, [99999]]]
    if tname == "custom_csv":
        return [r[:4] for r in pool("custom_tsv", None, tier)]
    raise KeyError(tname)


# ------------------------------------------------------------------------------------------------ library access

_custom = {}


def custom_types(bnp, sep):
    if sep not in _custom:
        from typing import List
        from bionumpy.bnpdataclass import bnpdataclass
        from bionumpy.io.delimited_buffers import get_bufferclass_for_datatype
        if sep == "\t":
            @bnpdataclass
            class CustomTable:
                name: str
                count: int
                flag: bool
                ratio: float
                tags: List[int]
        else:
            @bnpdataclass
            class CustomTable:
                name: str
                count: int
                flag: bool
                ratio: float
        _custom[sep] = (CustomTable, get_bufferclass_for_datatype(CustomTable, delimiter=sep, has_header=True))
    return _custom[sep]


def table_class(bnp, spec):
    if spec.cls == "custom":
        return custom_types(bnp, spec.sep)[0]
    import bionumpy.datatypes as dt
    return getattr(dt, spec.cls)


_narrow = {}


def buffer_type(bnp, spec, width=None):
    if width:
        if width not in _narrow:
            from bionumpy.io.multiline_buffer import MultiLineFastaBuffer
            _narrow[width] = type("FastaWidth%d" % width, (MultiLineFastaBuffer,), {"n_characters_per_line": width})
        return _narrow[width]
    if spec.buffer is None:
        return None
    if spec.buffer == "custom":
        return custom_types(bnp, spec.sep)[1]
    if spec.buffer == "TwoLineFastaBuffer":
        from bionumpy.io.one_line_buffer import TwoLineFastaBuffer
        return TwoLineFastaBuffer
    import bionumpy.io.delimited_buffers as db
    return getattr(db, spec.buffer)


def sequence_encoding(bnp, variant):
    if variant in (None, "base", "strenc"):
        return None
    if variant == "dna":
        return bnp.DNAEncoding
    if variant == "acgtn":
        from bionumpy.encodings import ACGTnEncoding
        return ACGTnEncoding
    if variant == "rna":
        from bionumpy.encodings.alphabet_encoding import RNAENcoding
        return RNAENcoding
    if variant == "aa":
        return bnp.AminoAcidEncoding
    raise KeyError(variant)


def build_table(bnp, spec, rows, variant, universe=None):
    """the bnpdataclass object for `rows`, built through the public constructor (universe: the identifiers of the
    StringEncoding of variant 'strenc', for tables that are to share one encoding)"""
    cls = table_class(bnp, spec)
    cols = [[r[i] for r in rows] for i in range(len(spec.fields))]
    if rows:
        enc = sequence_encoding(bnp, variant)
        for i, (fname, kind) in enumerate(spec.fields):
            if kind == "seq" and enc is not None:
                cols[i] = bnp.as_encoded_array(cols[i], enc)
            if variant == "strenc" and fname == "chromosome":
                from bionumpy.encodings.string_encodings import StringEncoding
                universe = sorted(set(IDS) | set(cols[i]) | set(universe or ()))
                cols[i] = StringEncoding(universe).encode(bnp.as_encoded_array(cols[i]))
    return cls(*cols)


def read_file(path):
    with open(path, "rb") as f:
        data = f.read()
    if path.endswith(".gz"):
        data = gzip.decompress(data) if data else b""
    return data


def cut(rows, split):
    out, a = [], 0
    for k in split:
        out.append(rows[a:a + k])
        a += k
    assert a == len(rows)
    return out


def write_pieces(bnp, path, bt, pieces, mode, wmode="w", amode="a"):
    """pieces: list of table objects.  mode: one|multi|stream|append"""
    from bionumpy.streams import NpDataclassStream
    if os.path.exists(path):
        os.unlink(path)
    if mode in ("one", "multi"):
        with bnp.open(path, wmode, buffer_type=bt) as f:
            for p in pieces:
                f.write(p)
    elif mode == "stream":
        with bnp.open(path, wmode, buffer_type=bt) as f:
            f.write(NpDataclassStream(iter(pieces)))
    elif mode == "grouped":
        from bionumpy.streams import grouped_stream
        with bnp.open(path, wmode, buffer_type=bt) as f:
            f.write(grouped_stream(iter([("g%d" % i, p) for i, p in enumerate(pieces)])))
    elif mode == "append":
        with bnp.open(path, wmode, buffer_type=bt) as f:
            f.write(pieces[0])
        for p in pieces[1:]:
            with bnp.open(path, amode, buffer_type=bt) as f:
                f.write(p)
    else:
        raise ValueError(mode)


# ------------------------------------------------------------------------------------------------ contracts

VCF_COLUMNS = b"#CHROM\tPOS\tID\tREF\tALT\tQUAL\tFILTER\tINFO"


def header_marker(spec, source_header=None):
    """(prefix, predicate-description) that identifies header lines of a written file, or None"""
    if spec.header == "vcf":
        return b"#"
    if spec.header == "columns":
        return spec.sep.join(n for n, _ in spec.fields).encode()
    if source_header:
        return source_header[:1].encode()
    return None


def region(rows):
    """integer regions with their own signature: |v| >= 10^15-1 (float log10 digit count) and v == -2^63 (abs overflows)"""
    def ints(v):
        if isinstance(v, bool):
            return []
        if isinstance(v, int):
            return [v]
        if isinstance(v, list):
            return [x for y in v for x in ints(y)]
        return []
    vals = [x for r in rows for v in r for x in ints(v)]
    if any(x == -2 ** 63 for x in vals):
        return ":int64-min"
    if any(abs(x) >= BIG for x in vals):
        return ":bigint"
    return float_region(rows)


FLOAT_REGIONS = (":float-subnormal", ":long-float")
LONG_FLOAT = 16          # characters of 'd.dddddddddddddd', a bare 15-digit mantissa


def float_region(rows):
    """float regions with their own signature: a value below the smallest normal double, and a value whose shortest
    decimal text that parses back to it (repr) is longer than LONG_FLOAT characters - 16..17 significant digits, or 15
    together with a sign / an exponent / leading zeros (up to 24 characters: '-1.2345678901234567e-100')"""
    vals = [v for r in rows for v in r if isinstance(v, float) and v == v and abs(v) != float("inf")]
    if any(len(repr(v)) > LONG_FLOAT for v in vals):
        return ":long-float"
    return ":float-subnormal" if any(0 < abs(v) < ref.MIN_NORMAL for v in vals) else ""


def _short_floats(rows):
    """the same rows with every float replaced by a short one (probe: is a failure a matter of the float values?)"""
    short = [0.5, 2.0, -1.5, 12.25]
    out, k = [], 0
    for r in rows:
        nr = []
        for v in r:
            if isinstance(v, float):
                nr.append(short[k % len(short)])
                k += 1
            else:
                nr.append(v)
        out.append(nr)
    return out


def check_content(spec, rows, data, expected_header=None, width=None):
    """-> (ok, kind, message); kind in '', 'header-missing', 'header-repeated', 'header-misplaced', 'body'.
    expected_header: exact header bytes expected (lazy path / column header); None: VCF default header (structure
    only) or no header at all."""
    marker = header_marker(spec, expected_header.decode() if expected_header else None)
    if marker is None:
        ok, msg = ref.body_matches(spec, rows, data, width or (fasta_width() if spec.layout == "fasta80" else None))
        return ok, ("" if ok else "body"), msg
    head, body = ref.split_header(spec, data, marker)
    ok, msg = ref.body_matches(spec, rows, body)
    if not ok:
        return False, "body", msg
    if spec.header == "vcf" and expected_header is None:
        n = sum(1 for l in head if l.startswith(b"#CHROM"))
        want = None
    else:
        if expected_header is None:
            expected_header = marker + b"\n"
        want = expected_header
        exp_lines = expected_header.split(b"\n")[:-1]
        n_exp = max(len(exp_lines), 1)
        n = len(head) / n_exp
    if n < 1:
        return False, "header-missing", "no header in %r" % (data[:200],)
    if n > 1:
        return False, "header-repeated", "header written %s times: %r" % (n, data[:300])
    head_bytes = b"".join(l + b"\n" for l in head)
    if data != head_bytes + body:
        return False, "header-misplaced", "header lines are not in front of the records: %r" % (data[:300],)
    if want is not None and head_bytes != want:
        return False, "header-content", "header %r expected %r" % (head_bytes, want)
    if want is None and not head[-1].startswith(VCF_COLUMNS):
        return False, "header-content", "last header line %r does not name the fixed VCF columns" % (head[-1],)
    return True, "", ""


def compare_readback(spec, rows, table):
    exp = ref.expected_columns(spec, rows)
    if len(table) != len(rows):
        return False, "%d entries read, %d written" % (len(table), len(rows))
    for fname, kind in spec.fields:
        got = to_py(getattr(table, fname))
        if isinstance(got, str):                      # 1-d EncodedArray (one character per row)
            got = list(got)
        if kind == "bool":
            got = [bool(x) for x in got]
        if not ref.column_equal(kind, got, exp[fname]):
            return False, "field %s: read %r, written %r" % (fname, got[:4], exp[fname][:4])
    return True, ""


def header_signature(mode, zpart, kind, all_empty=False):
    """header faults are a matter of the writer, not of the table type: one signature per (mode, target, kind)"""
    if all_empty and mode in ("stream", "grouped"):
        return "header-not-once:stream:%s:no-nonempty-chunk" % kind[7:]
    return "header-not-once:%s%s:%s" % (mode, zpart, kind[7:])


def _force(table, spec):
    for fname, _ in spec.fields:          # lazy tables parse on access: do it while the file is current
        getattr(table, fname)
    return table


def evaluate_write(tmp, case, tag="t"):
    """run one write case on the library; no recording.
    -> {"write": outcome, "readback": outcome or None};  outcome = (status, detail, message) with status in
    ok | exc (detail = exception type) | header (detail = missing/repeated/misplaced/content) | body | diff"""
    import traceback
    import bionumpy as bnp
    spec = SPECS[case["type"]]
    rows, variant, split, mode, gz = case["rows"], case.get("variant"), case["split"], case["mode"], case["gz"]
    bt = buffer_type(bnp, spec, case.get("width"))
    suffix = case.get("suffix") or spec.suffix
    path = os.path.join(tmp, tag + suffix + (".gz" if gz else ""))
    res = {"write": None, "readback": None}
    try:
        pieces = [build_table(bnp, spec, p, variant) for p in cut(rows, split)]
        write_pieces(bnp, path, bt, pieces, mode, case.get("wmode", "w"), case.get("amode", "a"))
        data = read_file(path)
    except Exception as e:
        res["write"] = ("exc", type(e).__name__, traceback.format_exc()[-500:])
        return res
    exp_header = header_marker(spec) + b"\n" if spec.header == "columns" else None
    ok, kind, msg = check_content(spec, rows, data, exp_header, case.get("width"))
    if not ok:
        res["write"] = ("header", kind[7:], msg) if kind.startswith("header") else ("body", "", msg)
        return res
    res["write"] = ("ok", "", "")
    if case.get("readback"):
        try:
            back = _force(bnp.open(path, buffer_type=bt).read(), spec)
            ok, msg = compare_readback(spec, rows, back)
            res["readback"] = ("ok", "", "") if ok else ("diff", "", msg)
        except Exception as e:
            res["readback"] = ("exc", type(e).__name__, traceback.format_exc()[-500:])
    return res


def _same(o1, o2):
    return o1 is not None and o2 is not None and o1[0] == o2[0] and o1[1] == o2[1]


def _label(tmp, case, key, outcome):
    """what the failure is attributable to: the integer region, the column encoding variant, or the type"""
    reg = region(case["rows"])
    if reg in FLOAT_REGIONS:
        # only if the same table with short float values is fine; otherwise it is not a matter of the float values
        plain = evaluate_write(tmp, dict(case, rows=_short_floats(case["rows"])), tag="probe")[key]
        if plain is not None and plain[0] == "ok":
            return reg[1:]
    elif reg:
        return reg[1:]
    variant = case.get("variant")
    if variant not in (None, "base"):
        base = evaluate_write(tmp, dict(case, variant=None), tag="probe")[key]
        if base is not None and base[0] == "ok":
            return "variant=" + variant        # the same rows are fine with plain text columns
    if SPECS[case["type"]].layout == "tsv" and case["mode"] == "one":
        other = "bed6" if case["type"] == "interval" else "interval"
        orows = (pool(other, None, "quick") * 2)[:len(case["rows"])]
        probe = evaluate_write(tmp, dict(case, type=other, variant=None, rows=orows, suffix=None), tag="probe")[key]
        if _same(probe, outcome):
            return "delimited"                 # the simplest delimited table fails in the same way: not this type
    return case["type"]


_memo = {}


def classify_write(tmp, case, outcome):
    """memo over (type, variant, mode, target, shape of the split, region, outcome): the probes below are deterministic
    in these for everything the enumeration varies otherwise (the field contents of the rows)"""
    key = (case["type"], case.get("variant"), case["mode"], case["gz"], tuple(min(k, 2) for k in case["split"]),
           len(case["rows"]), region(case["rows"]), outcome[0], outcome[1], case.get("suffix"), case.get("wmode"), case.get("amode"),
           case.get("width"))
    if key not in _memo:
        _memo[key] = _classify_write(tmp, case, outcome)
    return _memo[key]


def _classify_write(tmp, case, outcome):
    """signature of a failed write case: few, specific classes.  Failures of the single plain write of the table are
    'canonical-bytes:<what>'; otherwise the fault needs the pieces / the target and is named after the mode."""
    n = len(case["rows"])
    mode, gz, split = case["mode"], case["gz"], case["split"]
    tail = {"exc": ":exception:" + outcome[1], "header": "", "body": ""}[outcome[0]]
    if mode == "grouped" and outcome[0] == "exc":
        tail = ":exception"                  # which attribute of the (name, chunk) tuple is missed first depends on the type
    one_case = dict(case, split=[n], mode="one", gz=False, readback=False)
    is_one_plain = mode == "one" and not gz
    one = outcome if is_one_plain else evaluate_write(tmp, one_case, tag="probe")["write"]
    if _same(one, outcome):
        if outcome[0] == "header":
            return header_signature("one", "", "header-" + outcome[1])
        return "canonical-bytes:" + _label(tmp, one_case, "write", outcome) + tail
    zpart = ""
    if gz:
        plain = evaluate_write(tmp, dict(case, gz=False, readback=False), tag="probe")["write"]
        if plain[0] == "ok":
            zpart = ":gz-only"
    if outcome[0] == "header":
        return header_signature(mode, zpart, "header-" + outcome[1], all(k == 0 for k in split))
    if mode == "one":
        return "canonical-bytes:" + _label(tmp, case, "write", outcome) + zpart + tail
    # is it the writer (any type) or this type's serialiser?
    other = "bed6" if case["type"] == "interval" else "interval"
    orows = (pool(other, None, "quick") * 2)[:n]
    probe = evaluate_write(tmp, {"kind": "write", "type": other, "variant": None, "rows": orows, "split": split,
                                 "mode": mode, "gz": gz, "wmode": case.get("wmode", "w"), "amode": case.get("amode", "a")},
                           tag="probe")["write"]
    tpart = "" if probe[0] != "ok" else ":" + case["type"]
    w, a = case.get("wmode", "w"), case.get("amode", "a")
    if w != "w" or a != "a":
        std = evaluate_write(tmp, dict(case, wmode="w", amode="a"), tag="probe")["write"]
        if not _same(std, outcome):
            if _same(evaluate_write(tmp, dict(case, wmode="w"), tag="probe")["write"], outcome):
                tpart += ":amode=" + a
            elif _same(evaluate_write(tmp, dict(case, amode="a"), tag="probe")["write"], outcome):
                tpart += ":wmode=" + w
            else:
                tpart += ":mode-spelling=%s/%s" % (w, a)
    return "pieces-differ:%s%s%s%s" % (mode, zpart, tpart, tail)


def _readback_signature(tmp, case, r):
    """signature of a failed read-back (outcome r) of the file written by the write case `case`"""
    zpart = ""
    if case["gz"]:
        plain = evaluate_write(tmp, dict(case, gz=False), tag="probe")["readback"]
        if plain is not None and plain[0] == "ok":
            zpart = ":gz-only"
    sig = "read-back:" + _label(tmp, dict(case, gz=False), "readback", r) + zpart + (":exception:" + r[1] if r[0] == "exc" else "")
    if case.get("suffix") and case["suffix"] != SPECS[case["type"]].suffix:
        std = evaluate_write(tmp, dict(case, suffix=None), tag="probe")["readback"]
        if not _same(std, r):
            sig += ":suffix=" + case["suffix"]
    return sig


def exec_write(col, tmp, case):
    mode, gz = case["mode"], case["gz"]
    contract = "canonical-bytes" if mode == "one" else "pieces:" + mode
    col.case(case, contract=contract + (":gz" if gz else ""))
    res = evaluate_write(tmp, case)
    w = res["write"]
    if w[0] != "ok":
        sig = classify_write(tmp, case, w)
        if case.get("suffix") and case["suffix"] != SPECS[case["type"]].suffix:
            std = evaluate_write(tmp, dict(case, suffix=None), tag="probe")["write"]
            if not _same(std, w):
                sig += ":suffix=" + case["suffix"]
        col.fail(sig, case, w[2])
        return
    if case.get("readback"):
        col.case(dict(case, k="read-back"), contract="read-back" + (":gz" if gz else ""))
        r = res["readback"]
        if r[0] != "ok":
            col.fail(_readback_signature(tmp, case, r), case, r[2])


def source_bytes(spec, rows, header):
    return header.encode() + ref.serialise(spec, rows, fasta_width())


def _set_value(bnp, kind, values):
    import numpy as np
    if kind in ("int", "vcfpos"):
        return np.array(values, dtype=np.int64)
    if kind == "id":
        from bionumpy.string_array import as_string_array
        return as_string_array(values)
    return bnp.as_encoded_array(values)


def _not_lazy_specific(tmp, case, rows):
    """signature of the same rows written as a freshly built table with the same pieces / mode / target, if that
    fails too (then the fault is not one of the read-modify-write path), else None"""
    spec = SPECS[case["type"]]
    split = case.get("split") or [len(rows)]
    mode = case.get("mode") or "stream"
    variants = [dict(kind="write", type=case["type"], variant=None, rows=rows, split=split, mode=mode, gz=case["gz"])]
    if mode != "one":
        variants.append(dict(variants[0], split=[len(rows)], mode="one", gz=False))
    for wc in variants:
        out = evaluate_write(tmp, wc, tag="probe")["write"]
        if out[0] != "ok":
            return classify_write(tmp, wc, out)
    return None


def _lazy_signature(tmp, case, new_rows, tail):
    key = ("lazy", case["type"], (case.get("modify") or {}).get("field"), case["mode"], case["gz"], tuple(min(k, 2) for k in case["split"]),
           bool(case["header"]), tail)
    if key not in _memo:
        _memo[key] = _lazy_signature_(tmp, case, new_rows, tail)
    return _memo[key]


def _lazy_signature_(tmp, case, new_rows, tail):
    sig = _not_lazy_specific(tmp, case, new_rows)
    if sig:
        return sig
    what = "modified" if case.get("modify") else "unmodified"
    # does the read-modify-write path fail for the simplest table too?  then it is not this type / field
    if case["type"] != "interval":
        rows = (pool("interval", None, "quick") * 2)[:len(case["rows"])]
        mod = {"field": "start", "values": _alt_values("int", rows, 1)} if case.get("modify") else None
        probe = Collector("C03", "quick", 0, "probe")
        exec_lazy(probe, tmp, dict(case, type="interval", rows=rows, header="", modify=mod), classify=False)
        if probe.failures:
            return "lazy-write:%s%s" % (what, tail)
    field = ":" + case["modify"]["field"] if case.get("modify") and not tail else ""
    return "lazy-write:%s:%s%s%s" % (what, case["type"], field, tail)


def _lazy_zpart(col, tmp, case):
    if not case["gz"]:
        return ""
    probe = Collector("C03", "quick", 0, "probe")
    exec_lazy(probe, tmp, dict(case, gz=False), classify=False)
    return "" if probe.failures else ":gz-only"


def exec_lazy(col, tmp, case, classify=True):
    """table read from a reference-written file (lazy object where the format supports it), optionally one column
    replaced, written in pieces"""
    import bionumpy as bnp
    spec = SPECS[case["type"]]
    rows, header, modify, split, mode, gz = case["rows"], case["header"], case.get("modify"), case["split"], case["mode"], case["gz"]
    bt = buffer_type(bnp, spec)
    src = os.path.join(tmp, "src" + spec.suffix)
    with open(src, "wb") as f:
        f.write(source_bytes(spec, rows, header))
    path = os.path.join(tmp, "l" + spec.suffix + (".gz" if gz else ""))
    zlabel = "gz" if gz else "plain"
    what = "modified" if modify else "unmodified"
    def guarded(fn):
        try:
            return fn()
        except Exception as e:
            import traceback
            sig = _lazy_signature(tmp, case, new_rows, ":exception:" + type(e).__name__) if classify else "probe"
            col.fail(sig, case, traceback.format_exc()[-500:])
            return None
    new_rows = [list(r) for r in rows]
    if modify:
        i = spec.index(modify["field"])
        for r, v in zip(new_rows, modify["values"]):
            r[i] = v
    d = guarded(lambda: bnp.open(src, buffer_type=bt).read())
    if d is None:
        return
    if header and len(split) > 1 and not hasattr(d, "get_data_object"):
        # an eagerly read table keeps the source header as a context of the whole object only; its slices carry
        # none, so "the same data in pieces" is not expressible by slicing: out of scope
        return
    col.case(case, contract="lazy-write:" + what)

    def do():
        if modify:
            setattr(d, modify["field"], _set_value(bnp, spec.fields[i][1], modify["values"]))
        pieces, a = [], 0
        for k in split:
            pieces.append(d[a:a + k])
            a += k
        if split == [len(rows)]:
            pieces = [d]
        write_pieces(bnp, path, bt, pieces, mode)
        return read_file(path)
    data = guarded(do)
    if data is None:
        return
    exp_header = header.encode() if header else None
    if spec.header == "columns":
        exp_header = header_marker(spec) + b"\n"
    ok, kind, msg = check_content(spec, new_rows, data, exp_header)
    if not ok:
        if not classify:
            sig = "probe"
        elif kind.startswith("header"):
            sig = header_signature(mode, _lazy_zpart(col, tmp, case), kind)
        else:
            sig = _lazy_signature(tmp, case, new_rows, "")
        col.fail(sig, case, msg)


def exec_rechunk(col, tmp, case):
    """out.write(bnp.open(src).read_chunks(n))"""
    import bionumpy as bnp
    spec = SPECS[case["type"]]
    rows, header, gz, chunk = case["rows"], case["header"], case["gz"], case["chunk"]
    bt = buffer_type(bnp, spec)
    src = os.path.join(tmp, "rsrc" + spec.suffix)
    with open(src, "wb") as f:
        f.write(source_bytes(spec, rows, header))
    path = os.path.join(tmp, "r" + spec.suffix + (".gz" if gz else ""))
    col.case(case, contract="rechunk-stream")

    def do():
        if os.path.exists(path):
            os.unlink(path)
        with bnp.open(path, "w", buffer_type=bt) as out:
            out.write(bnp.open(src, buffer_type=bt).read_chunks(min_chunk_size=chunk))
        return read_file(path)
    try:
        data = do()
    except Exception as e:
        import traceback
        sig = _not_lazy_specific(tmp, dict(case, mode="one"), rows) or "rechunk-stream:%s:exception:%s" % (case["type"], type(e).__name__)
        col.fail(sig, case, traceback.format_exc()[-500:])
        return
    exp_header = header.encode() if header else None
    ok, kind, msg = check_content(spec, rows, data, exp_header)
    if not ok:
        if kind.startswith("header"):
            sig = header_signature("stream", "", kind)
        else:
            sig = (_not_lazy_specific(tmp, dict(case, mode="stream", split=[len(rows)]), rows) or
                   _not_lazy_specific(tmp, dict(case, mode="stream", split=[1] * len(rows)), rows) or
                   "rechunk-stream:%s" % case["type"])
        col.fail(sig, case, msg)


# ------------------------------------------------------------- one table object: row selections and repeated writes

def select_rows(rows, sel):
    """oracle of a row selection (a list of indexing steps): Python list semantics"""
    for step in sel:
        k = step[0]
        if k == "slice":
            rows = rows[slice(step[1], step[2], step[3])]
        elif k in ("list", "array"):
            rows = [rows[i] for i in step[1]]
        elif k == "mask":
            assert len(step[1]) == len(rows)
            rows = [r for r, m in zip(rows, step[1]) if m]
        elif k == "rotate":
            rows = rows[step[1]:] + rows[:step[1]]
        else:
            raise ValueError(k)
    return rows


def apply_selection(table, sel):
    """the same steps on the library's table object (public indexing of a bnpdataclass, np.concatenate)"""
    import numpy as np
    for step in sel:
        k = step[0]
        if k == "slice":
            table = table[slice(step[1], step[2], step[3])]
        elif k == "list":
            table = table[list(step[1])]
        elif k == "array":
            table = table[np.array(step[1], dtype=int)]
        elif k == "mask":
            table = table[np.array(step[1], dtype=bool)]
        elif k == "rotate":
            table = np.concatenate([table[step[1]:], table[:step[1]]])
        else:
            raise ValueError(k)
    return table


def selection_class(n, sel):
    idx = select_rows(list(range(n)), sel)
    if idx == list(range(n)):
        return "identity"
    if not idx:
        return "empty"
    if idx == list(range(len(idx))):
        return "prefix"
    if len(set(idx)) < len(idx):
        return "repeat"
    if any(b < a for a, b in zip(idx, idx[1:])):
        return "reorder"
    return "subset"


def _snapshot(table, spec):
    """deep plain-Python copy of the columns of an in-memory table (old() of the frame condition)"""
    import numpy as np
    snap = {}
    for fname, _ in spec.fields:
        v = getattr(table, fname)
        try:
            snap[fname] = to_py(v)
        except TypeError:                       # a column of StringEncoding codes has no text form as an array: its codes
            snap[fname] = np.asarray(v.raw()).tolist()
    return snap


def evaluate_derived(tmp, case, tag="d"):
    """ONE table object (freshly built, or read from a reference-written file); every write of the history writes a
    row selection of that object (the empty selection [] = the object itself), derived just before the write (or all
    in advance: prederive).  mode: one|multi (successive writes of one writer), stream, append ('w' then 'a'),
    files (every write to a file of its own).
    -> {"write": outcome, "unchanged": outcome | None, "readback": outcome | None}   (outcomes as in evaluate_write)"""
    import traceback
    import bionumpy as bnp
    from bionumpy.streams import NpDataclassStream
    spec = SPECS[case["type"]]
    rows, variant, writes, mode, gz = case["rows"], case.get("variant"), case["writes"], case["mode"], case["gz"]
    source, header = case.get("source", "built"), case.get("header") or ""
    bt = buffer_type(bnp, spec)
    ext = spec.suffix + (".gz" if gz else "")
    n_files = len(writes) if mode == "files" else 1
    paths = [os.path.join(tmp, "%s%d%s" % (tag, i, ext)) for i in range(n_files)]
    res = {"write": None, "unchanged": None, "readback": None}
    base, before = None, None
    try:
        if source == "read":
            src = os.path.join(tmp, tag + "src" + spec.suffix)
            with open(src, "wb") as f:
                f.write(source_bytes(spec, rows, header))
            base = bnp.open(src, buffer_type=bt).read()
        else:
            base = build_table(bnp, spec, rows, variant)
            before = _snapshot(base, spec)
    except Exception as e:
        res["write"] = ("exc", type(e).__name__, traceback.format_exc()[-500:])
        return res
    lazy = hasattr(base, "get_data_object")
    if header and not lazy:
        # an eagerly read table keeps the source header as a context of the whole object only (see exec_lazy): out of scope
        res["write"] = ("skip", "", "")
        return res
    try:
        for p in paths:
            if os.path.exists(p):
                os.unlink(p)
        ready = [apply_selection(base, s) for s in writes] if case.get("prederive") else None
        def piece(i):
            return ready[i] if ready is not None else apply_selection(base, writes[i])
        if mode in ("one", "multi"):
            with bnp.open(paths[0], "w", buffer_type=bt) as f:
                for i in range(len(writes)):
                    f.write(piece(i))
        elif mode == "stream":
            with bnp.open(paths[0], "w", buffer_type=bt) as f:
                f.write(NpDataclassStream(piece(i) for i in range(len(writes))))
        elif mode == "append":
            for i in range(len(writes)):
                with bnp.open(paths[0], "w" if i == 0 else "a", buffer_type=bt) as f:
                    f.write(piece(i))
        elif mode == "files":
            for i in range(len(writes)):
                with bnp.open(paths[i], "w", buffer_type=bt) as f:
                    f.write(piece(i))
        else:
            raise ValueError(mode)
        datas = [read_file(p) for p in paths]
    except Exception as e:
        res["write"] = ("exc", type(e).__name__, traceback.format_exc()[-500:])
        datas = None
    # the object the caller holds is what it was (frame condition of write)
    try:
        if before is not None:
            after = _snapshot(base, spec)
            bad = [f for f, _ in spec.fields if after[f] != before[f]]
            res["unchanged"] = ("ok", "", "") if not bad else \
                ("diff", "", "field %s of the written table: %r before the write(s), %r after" % (bad[0], before[bad[0]], after[bad[0]]))
        else:
            ok, msg = compare_readback(spec, rows, _force(base, spec))
            res["unchanged"] = ("ok", "", "") if ok else ("diff", "", "table read from the source file, after it was written: " + msg)
    except Exception as e:
        res["unchanged"] = ("exc", type(e).__name__, traceback.format_exc()[-500:])
    if datas is None:
        return res
    selected = [select_rows(rows, s) for s in writes]
    expected = selected if mode == "files" else [[r for part in selected for r in part]]
    exp_header = header_marker(spec) + b"\n" if spec.header == "columns" else (header.encode() if header and lazy else None)
    res["write"] = ("ok", "", "")
    for i, (data, exp_rows) in enumerate(zip(datas, expected)):
        ok, kind, msg = check_content(spec, exp_rows, data, exp_header)
        if not ok:
            where = "write %d of %d: " % (i + 1, len(datas)) if len(datas) > 1 else ""
            res["write"] = ("header", kind[7:], where + msg) if kind.startswith("header") else ("body", "", where + msg)
            return res
    if case.get("readback") and mode != "files":
        try:
            back = _force(bnp.open(paths[0], buffer_type=bt).read(), spec)
            ok, msg = compare_readback(spec, expected[0], back)
            res["readback"] = ("ok", "", "") if ok else ("diff", "", msg)
        except Exception as e:
            res["readback"] = ("exc", type(e).__name__, traceback.format_exc()[-500:])
    return res


def _fresh_write_case(case, rows, split, mode, gz):
    return {"kind": "write", "type": case["type"], "variant": case.get("variant"), "rows": rows, "split": split, "mode": mode, "gz": gz}


def classify_derived(tmp, case, outcome):
    n = len(case["rows"])
    key = ("derived", case["type"], case.get("variant"), case.get("source"), bool(case.get("header")), case["mode"], case["gz"],
           tuple(selection_class(n, s) for s in case["writes"]), bool(case.get("prederive")), outcome[0], outcome[1])
    if key not in _memo:
        _memo[key] = _classify_derived(tmp, case, outcome)
    return _memo[key]


def _outcome_tail(outcome):
    return {"exc": ":exception:" + outcome[1], "header": ":header-" + outcome[1], "body": ""}[outcome[0]]


def _simplest_type_probe(tmp, case, writes, mode):
    """does the same history fail for the simplest delimited table (Interval) too?  then it is not a matter of this type"""
    if case["type"] == "interval" and case.get("variant") is None:
        return False
    rows = (pool("interval", None, "quick") * 2)[:len(case["rows"])]
    probe = evaluate_derived(tmp, dict(case, type="interval", variant=None, rows=rows, header="", writes=writes, mode=mode,
                                       readback=False), tag="probe")["write"]
    return probe[0] not in ("ok", "skip")


def _classify_derived(tmp, case, outcome):
    """signature of a failed history of writes of one table object.
    1. a selection that fails as the single plain write of a fresh object: if the same rows fail as a freshly built
       table too it is the existing class of that write, else 'row-selection:[lazy:][empty:]<type | any-type>';
    2. every selection is fine on its own: if the same pieces as independently built tables fail in the same mode it is
       the existing class of that write, else 'rewrite-same-table:[lazy:][<mode>:]<type | any-type>' (the object is written more
       than once / used after it was written; <mode> only if the same writes to separate files are fine)."""
    rows, writes, mode, gz = case["rows"], case["writes"], case["mode"], case["gz"]
    n = len(rows)
    read = case.get("source") == "read"
    lazy = "lazy:" if read else ""
    selected = [select_rows(rows, s) for s in writes]
    for s, er in zip(writes, selected):
        single = outcome if (len(writes) == 1 and mode == "one" and not gz) else \
            evaluate_derived(tmp, dict(case, writes=[s], mode="one", gz=False, readback=False, prederive=False), tag="probe")["write"]
        if single[0] == "ok":
            continue
        fresh_case = _fresh_write_case(case, er, [len(er)], "one", False)
        fresh = evaluate_write(tmp, fresh_case, tag="probe")["write"]
        if fresh[0] != "ok":
            return classify_write(tmp, fresh_case, fresh)
        cls = selection_class(n, s)
        if read and cls == "identity":
            lcase = {"kind": "lazy", "type": case["type"], "rows": rows, "header": case.get("header") or "", "modify": None,
                     "split": [n], "mode": "multi", "gz": False}
            return _lazy_signature(tmp, lcase, rows, ":exception:" + single[1] if single[0] == "exc" else "")
        simplest = _simplest_type_probe(tmp, case, [s], "one")
        return "row-selection:%s%s%s%s" % (lazy, "empty:" if cls == "empty" else "", "any-type" if simplest else case["type"],
                                           _outcome_tail(single))
    if mode == "files":
        for er in selected:
            fresh_case = _fresh_write_case(case, er, [len(er)], "one", gz)
            fresh = evaluate_write(tmp, fresh_case, tag="probe")["write"]
            if fresh[0] != "ok":
                return classify_write(tmp, fresh_case, fresh)
    else:
        fmode = "one" if (mode in ("one", "multi") and len(writes) == 1) else ("multi" if mode == "one" else mode)
        fresh_case = _fresh_write_case(case, [r for part in selected for r in part], [len(er) for er in selected], fmode, gz)
        fresh = evaluate_write(tmp, fresh_case, tag="probe")["write"]
        if fresh[0] != "ok":
            return classify_write(tmp, fresh_case, fresh)
    zpart = ""
    if gz and evaluate_derived(tmp, dict(case, gz=False, readback=False), tag="probe")["write"][0] == "ok":
        zpart = ":gz-only"
    if outcome[0] == "header":       # header faults are a matter of the writer and the target, not of the table (see header_signature)
        return header_signature(mode, zpart, "header-" + outcome[1], all(len(er) == 0 for er in selected))
    mpart = ""
    if mode != "files":          # the same writes, each to a file of its own: fine -> the fault needs this mode
        if evaluate_derived(tmp, dict(case, mode="files", readback=False), tag="probe")["write"][0] == "ok":
            mpart = mode + ":"
    simplest = _simplest_type_probe(tmp, case, writes, mode)
    return "rewrite-same-table:%s%s%s%s%s" % (lazy, mpart, "any-type" if simplest else case["type"], zpart, _outcome_tail(outcome))


def exec_derived(col, tmp, case):
    writes, mode, gz = case["writes"], case["mode"], case["gz"]
    n = len(case["rows"])
    lazy = "lazy:" if case.get("source") == "read" else ""
    if len(writes) == 1:
        contract = "row-selection:" + lazy + selection_class(n, writes[0])
    else:
        contract = "one-table-history:" + lazy + mode
    res = evaluate_derived(tmp, case)
    w, u, r = res["write"], res["unchanged"], res["readback"]
    if w[0] == "skip":
        return
    col.case(case, contract=contract + (":gz" if gz else ""))
    if u is not None and u[0] != "ok":
        col.fail("table-changed-by-write:%s%s%s" % (lazy, case["type"], ":exception:" + u[1] if u[0] == "exc" else ""), case, u[2])
    if w[0] != "ok":
        what = "; ".join("rows %r" % (select_rows(list(range(n)), s),) for s in writes)
        col.fail(classify_derived(tmp, case, w), case, "written: %s of one %d-row table (%s): %s" % (what, n, mode, w[2]))
        return
    if r is not None:
        col.case(dict(case, k="read-back"), contract="read-back" + (":gz" if gz else ""))
        if r[0] != "ok":
            expected = [x for s in writes for x in select_rows(case["rows"], s)]
            wcase = dict(_fresh_write_case(case, expected, [len(expected)], "one", gz), readback=True)
            fresh = evaluate_write(tmp, wcase, tag="probe")["readback"]
            if fresh is not None and fresh[0] != "ok":
                sig = _readback_signature(tmp, wcase, fresh)
            else:
                sig = "read-back:row-selection:%s%s%s" % (lazy, case["type"], ":exception:" + r[1] if r[0] == "exc" else "")
            col.fail(sig, case, r[2])


# ------------------------------------------------------------- several table objects joined with np.concatenate

CONCAT_SELS = ("whole", "mask", "tail", "list", "head", "rev", "stride", "empty", "repeat", "last")


def sel_steps(name, n):
    """the named row selection of an n-row table as steps of select_rows / apply_selection; 'whole' = the object as it
    was read / built, untouched"""
    if name == "whole":
        return []
    if name == "mask":
        return [["mask", [i != n // 2 for i in range(n)]]]
    if name == "tail":
        return [_sl(1, None)]
    if name == "head":
        return [_sl(None, max(n - 1, 0))]
    if name == "rev":
        return [_sl(None, None, -1)]
    if name == "stride":
        return [_sl(None, None, 2)]
    if name == "empty":
        return [_sl(0, 0)]
    if name == "list":
        return [["list", _perm(n)]]
    if name == "repeat":
        return [["list", [0, 0, n - 1]]]
    if name == "last":
        return [["array", [n - 1]]]
    raise ValueError(name)


def group_sizes(name, k):
    """how the k (selected) tables are grouped into written pieces; every group of more than one table is joined with
    np.concatenate and written as one piece"""
    if k < 2 or name in ("all", "nested"):
        return [k]
    if name == "first-alone":
        return [1, k - 1]
    if name == "last-alone":
        return [k - 1, 1]
    if name == "pairs":
        return [2] * (k // 2) + ([1] if k % 2 else [])
    if name == "each":
        return [1] * k
    raise ValueError(name)


def evaluate_concat(tmp, case, tag="c"):
    """SEVERAL table objects - each read from a reference-written file of its own (origin files), the chunks of one
    file as read_chunks delivers them (origin chunks), or freshly built (origin built) - each left untouched or
    row-selected (sels, by name, cyclic over the tables), joined with np.concatenate in groups (groups), optionally
    row-selected again (post), and every group written as one piece (mode / gz as in write_pieces).
    Oracle: the reference serialisation of the selected rows of the tables in order, source header once.
    -> {"write": outcome, "readback": outcome | None, "parts": [...]}   (outcomes as in evaluate_write; 'skip': out of scope;
    'source': read_chunks did not deliver the rows of the file - not a matter of this contract's write)"""
    import traceback
    import numpy as np
    import bionumpy as bnp
    spec = SPECS[case["type"]]
    origin, header, gz, mode = case["origin"], case.get("header") or "", case["gz"], case["mode"]
    bt = buffer_type(bnp, spec)
    path = os.path.join(tmp, tag + "out" + spec.suffix + (".gz" if gz else ""))
    res = {"write": None, "readback": None, "parts": None}
    try:
        if origin == "built":
            part_rows = case["parts"]
            # tables that are joined share the encoding of their columns (one StringEncoding universe for all of them)
            universe = sorted(set(r[i] for pr in part_rows for r in pr for i, (f, _) in enumerate(spec.fields) if f == "chromosome"))
            tables = [build_table(bnp, spec, r, case.get("variant"), universe) for r in part_rows]
        elif origin == "files":
            part_rows = case["parts"]
            tables = []
            for i, r in enumerate(part_rows):
                src = os.path.join(tmp, "%ssrc%d%s" % (tag, i, spec.suffix))
                with open(src, "wb") as f:
                    f.write(source_bytes(spec, r, header))
                tables.append(bnp.open(src, buffer_type=bt).read())
        elif origin == "chunks":
            src = os.path.join(tmp, "%ssrc%s" % (tag, spec.suffix))
            with open(src, "wb") as f:
                f.write(source_bytes(spec, case["rows"], header))
            tables = list(bnp.open(src, buffer_type=bt).read_chunks(min_chunk_size=case["chunk"]))
            lens = [len(t) for t in tables]
            if sum(lens) != len(case["rows"]):
                res["write"] = ("source", "", "read_chunks delivered chunks of %r rows for a file of %d rows" % (lens, len(case["rows"])))
                return res
            part_rows = cut(case["rows"], lens)
        else:
            raise ValueError(origin)
    except Exception as e:
        res["write"] = ("exc", type(e).__name__, traceback.format_exc()[-500:])
        return res
    lazy = bool(tables) and all(hasattr(t, "get_data_object") for t in tables)
    if header and not lazy:
        res["write"] = ("skip", "", "")          # see exec_lazy: an eagerly read table does not carry the header in its slices
        return res
    names = [case["sels"][i % len(case["sels"])] for i in range(len(part_rows))]
    sels = [sel_steps(nm, len(r)) for nm, r in zip(names, part_rows)]
    exp_parts = [select_rows(r, s) for r, s in zip(part_rows, sels)]
    res["parts"] = {"rows": part_rows, "names": names, "lazy": lazy}
    post = case.get("post")
    try:
        if os.path.exists(path):
            os.unlink(path)
        selected = [apply_selection(t, s) for t, s in zip(tables, sels)]
        pieces, exp_pieces, a = [], [], 0
        for g in group_sizes(case["groups"], len(selected)):
            grp, er = selected[a:a + g], [r for p in exp_parts[a:a + g] for r in p]
            a += g
            if g == 1:
                piece = grp[0]
            else:
                if case["groups"] == "nested" and g > 2:
                    inner = np.concatenate(grp[:-1])
                    if hasattr(inner, "get_data_object") != hasattr(grp[-1], "get_data_object"):
                        # the join of lazy FASTA/FASTQ tables is a materialised table; np.concatenate of a lazy and a
                        # materialised table is refused by the library (assertion), it is not a table to write: out of scope
                        res["write"] = ("skip", "", "")
                        return res
                    piece = np.concatenate([inner, grp[-1]])
                else:
                    piece = np.concatenate(grp)
                if post:
                    steps = sel_steps(post, len(er))
                    piece, er = apply_selection(piece, steps), select_rows(er, steps)
            pieces.append(piece)
            exp_pieces.append(er)
        write_pieces(bnp, path, bt, pieces, mode if len(pieces) > 1 or mode != "append" else "one")
        data = read_file(path)
    except Exception as e:
        res["write"] = ("exc", type(e).__name__, traceback.format_exc()[-500:])
        return res
    expected = [r for er in exp_pieces for r in er]
    res["parts"]["expected"] = expected
    exp_header = header_marker(spec) + b"\n" if spec.header == "columns" else (header.encode() if header and lazy else None)
    ok, kind, msg = check_content(spec, expected, data, exp_header)
    if not ok:
        res["write"] = ("header", kind[7:], msg) if kind.startswith("header") else ("body", "", msg)
        return res
    res["write"] = ("ok", "", "")
    if case.get("readback"):
        try:
            back = _force(bnp.open(path, buffer_type=bt).read(), spec)
            ok, msg = compare_readback(spec, expected, back)
            res["readback"] = ("ok", "", "") if ok else ("diff", "", msg)
        except Exception as e:
            res["readback"] = ("exc", type(e).__name__, traceback.format_exc()[-500:])
    return res


def classify_concat(tmp, case, outcome, parts):
    key = ("concat", case["type"], case.get("variant"), case["origin"], bool(case.get("header")), tuple(case["sels"]), case["groups"],
           case["mode"], case["gz"], case.get("post"), tuple(len(r) for r in parts["rows"]), outcome[0], outcome[1])
    if key not in _memo:
        _memo[key] = _classify_concat(tmp, case, outcome, parts)
    return _memo[key]


def _part_class(name, n):
    idx = select_rows(list(range(n)), sel_steps(name, n))
    return "whole" if name == "whole" else "empty" if not idx else "selected"


def _classify_concat(tmp, case, outcome, parts):
    """signature of a failed write of joined tables.
    1. a table of the join fails as the single write of that (selected) table: the class of that write (classify_derived);
    2. the same tables written one after the other (no np.concatenate) fail too: the class of the fresh pieces if the same
       rows as freshly built tables fail, else 'pieces-of-several-tables:..';
    3. otherwise the fault needs the join: 'concat-write:<lazy|read|chunks|built>:<a>+<b>:<type | any-type>' where <a>+<b> is
       the first adjacent pair of tables (whole | selected | empty) whose join alone, written once, fails
       ('<k>-tables' if no pair does; 'chunks' if it needs the chunks of one file rather than tables of separate files)."""
    rows, names, lazy = parts["rows"], parts["names"], parts["lazy"]
    origin, header, mode, gz = case["origin"], case.get("header") or "", case["mode"], case["gz"]
    source = "built" if origin == "built" else "read"
    for r, nm in zip(rows, names):
        dcase = _derived(case["type"], case.get("variant"), r, [sel_steps(nm, len(r))], source=source, header=header)
        single = evaluate_derived(tmp, dcase, tag="probe")["write"]
        if single[0] not in ("ok", "skip"):
            return classify_derived(tmp, dcase, single)
    label = "built:" if origin == "built" else ("lazy:" if lazy else "read:")
    each = evaluate_concat(tmp, dict(case, groups="each", post=None, readback=False), tag="probe")["write"]
    if each[0] not in ("ok", "skip"):
        exp = [select_rows(r, sel_steps(nm, len(r))) for r, nm in zip(rows, names)]
        fmode = mode if len(exp) > 1 and mode != "one" else "multi"
        fresh_case = _fresh_write_case(case, [x for e in exp for x in e], [len(e) for e in exp], fmode, gz)
        fresh = evaluate_write(tmp, fresh_case, tag="probe")["write"]
        if fresh[0] != "ok":
            return classify_write(tmp, fresh_case, fresh)
        if each[0] == "header":
            return header_signature(fmode, "", "header-" + each[1], all(len(e) == 0 for e in exp))
        return "pieces-of-several-tables:%s%s:%s%s" % (label, fmode, case["type"], _outcome_tail(each))
    zpart = ""
    if gz and evaluate_concat(tmp, dict(case, gz=False, readback=False), tag="probe")["write"][0] == "ok":
        zpart = ":gz-only"
    pattern = None
    porigin = "built" if origin == "built" else "files"
    for i in range(len(rows) - 1):
        pcase = dict(case, origin=porigin, parts=rows[i:i + 2], sels=names[i:i + 2], groups="all", mode="one", gz=False, post=None,
                     readback=False)
        if evaluate_concat(tmp, pcase, tag="probe")["write"][0] not in ("ok", "skip"):
            cls = [_part_class(names[i], len(rows[i])), _part_class(names[i + 1], len(rows[i + 1]))]
            if "empty" in cls:       # is it a matter of the EMPTY selection?  not if a non-empty selection in its place fails too
                alt = [("mask" if c == "empty" else nm) for c, nm in zip(cls, names[i:i + 2])]
                arows = [(r * 2 if c == "empty" and len(r) < 2 else r) for c, r in zip(cls, rows[i:i + 2])]
                if all(arows) and evaluate_concat(tmp, dict(pcase, sels=alt, parts=arows), tag="probe")["write"][0] not in ("ok", "skip"):
                    cls = ["selected" if c == "empty" else c for c in cls]
            pattern = "+".join(cls)
            break
    if pattern is None:
        if origin == "chunks":
            whole = dict(case, origin="files", parts=rows, sels=names, readback=False)
            if evaluate_concat(tmp, whole, tag="probe")["write"][0] in ("ok", "skip"):
                label = "chunks:"
        pattern = "%d-tables" % len(rows)
        if case.get("post") and evaluate_concat(tmp, dict(case, post=None, readback=False), tag="probe")["write"][0] == "ok":
            pattern += ":then-selected"
    # the same join of the simplest delimited table (Interval; for Interval itself: Bed6) fails too: not a matter of this type
    tpart = case["type"]
    other = "bed6" if case["type"] == "interval" and not case.get("variant") else "interval"
    ip = pool(other, None, "quick")
    irows, a = [], 0
    for r in rows:
        irows.append([ip[(a + j) % len(ip)] for j in range(len(r))])
        a += len(r)
    icase = dict(case, type=other, variant=None, origin=porigin, parts=irows, sels=names, header="", readback=False)
    if evaluate_concat(tmp, icase, tag="probe")["write"][0] not in ("ok", "skip"):
        tpart = "any-type"
    return "concat-write:%s%s:%s%s%s" % (label, pattern, tpart, zpart, _outcome_tail(outcome))


def exec_concat(col, tmp, case):
    res = evaluate_concat(tmp, case)
    w, r = res["write"], res["readback"]
    if w[0] == "skip":
        return
    label = {"built": "built", "files": "read", "chunks": "chunks"}[case["origin"]]
    col.case(case, contract="concat-write:%s:%s" % (label, case["groups"]) + (":gz" if case["gz"] else ""))
    if w[0] == "source":
        col.fail("concat-write:chunks:source-chunks-lose-rows", case, w[2])
        return
    if w[0] != "ok":
        if res["parts"] is None:
            sig = "concat-write:%s:source:%s:exception:%s" % (label, case["type"], w[1])
        else:
            sig = classify_concat(tmp, case, w, res["parts"])
            w = (w[0], w[1], "tables of %r rows, selections %r, groups %s (%s): %s" % (
                [len(x) for x in res["parts"]["rows"]], res["parts"]["names"], case["groups"], case["mode"], w[2]))
        col.fail(sig, case, w[2])
        return
    if r is not None:
        col.case(dict(case, k="read-back"), contract="read-back" + (":gz" if case["gz"] else ""))
        if r[0] != "ok":
            expected = res["parts"]["expected"]
            wcase = dict(_fresh_write_case(case, expected, [len(expected)], "one", case["gz"]), readback=True)
            fresh = evaluate_write(tmp, wcase, tag="probe")["readback"]
            if fresh is not None and fresh[0] != "ok":
                sig = _readback_signature(tmp, wcase, fresh)
            else:
                sig = "read-back:concat:%s%s" % (case["type"], ":exception:" + r[1] if r[0] == "exc" else "")
            col.fail(sig, case, r[2])


def exec_case(col, tmp, case):
    k = case["kind"]
    if k == "write":
        exec_write(col, tmp, case)
    elif k == "lazy":
        exec_lazy(col, tmp, case)
    elif k == "rechunk":
        exec_rechunk(col, tmp, case)
    elif k == "derived":
        exec_derived(col, tmp, case)
    elif k == "concat":
        exec_concat(col, tmp, case)
    else:
        raise ValueError(k)


# ------------------------------------------------------------------------------------------------ enumeration

def compositions(n):
    if n == 0:
        return [[]]
    out = []
    for first in range(1, n + 1):
        for rest in compositions(n - first):
            out.append([first] + rest)
    return out


def splits(n, full):
    """ways of cutting n rows into pieces: every composition, plus empty pieces in front / at the end / in the
    middle (full: for every composition; otherwise for the finest one)"""
    if n == 0:
        return [[0], [0, 0]]
    comps = compositions(n)
    out = list(comps)
    with_empty = comps if full else [comps[-1]] if n == 1 else [[1] * n, [n]]
    for c in with_empty:
        out.append([0] + c)
        out.append(c + [0])
        if len(c) > 1:
            out.append(c[:1] + [0] + c[1:])
    seen, uniq = set(), []
    for s in out:
        if tuple(s) not in seen:
            seen.add(tuple(s))
            uniq.append(s)
    return uniq


TYPE_VARIANTS = [("interval", None), ("interval", "strenc"), ("bed6", None), ("bed12", None), ("bedgraph", None),
                 ("narrowpeak", None), ("fasta", "base"), ("fasta", "dna"), ("fasta2", "base"), ("fastq", "base"),
                 ("fastq", "dna"), ("vcf", None), ("sam", None), ("gtf", None), ("custom_tsv", None),
                 ("custom_csv", None)]
MINOR_VARIANTS = [("vcfentry", None), ("fasta", "acgtn"), ("fasta", "rna"), ("fasta", "aa"), ("fastq", "acgtn"), ("fastq", "rna"),
                  ("fastq", "aa"), ("fasta2", "dna"), ("bed6", "strenc"), ("gtf", "strenc"), ("vcf", "strenc"),
                  ("sam", "strenc")]


def write_cases_for_table(tname, variant, rows, tier, level, rich=True):
    """level 0: single write (+ read back) plain and gz.  level 1: all piece modes.
    rich: empty pieces around every composition and every composition on a gzip target; otherwise every composition
    on a plain target and the finest one on a gzip target"""
    n = len(rows)
    base = {"kind": "write", "type": tname, "variant": variant, "rows": rows}
    if level == 0:
        for gz in (False, True):
            yield dict(base, split=[n], mode="one", gz=gz, readback=True)
        return
    for s in (splits(n, tier == "thorough" or n <= 2) if rich else compositions(n)):
        for mode in ("multi", "stream", "append"):
            if mode == "multi" and s == [n]:
                continue                        # that is the single write
            if mode == "append" and len(s) == 1:
                continue
            yield dict(base, split=s, mode=mode, gz=False)
    if n == 0:
        gsplits = [[0], [0, 0]]
    elif not rich:
        gsplits = [[1] * n]
    else:
        gsplits = [[1] * n, [0] + [1] * n] + ([[n - 1, 1]] if n > 2 else [])
        if tier == "thorough" and n > 1:
            gsplits += [s for s in compositions(n) if s not in gsplits and len(s) > 1]
    for s in gsplits:
        for mode in ("multi", "stream", "append"):
            if mode == "append" and len(s) == 1:
                continue
            yield dict(base, split=s, mode=mode, gz=True)


def tables(K, n_rows, tier):
    """index tuples into the pool, with the flag 'rich' (see write_cases_for_table)"""
    if n_rows < 3:
        out = []
        for idx in itertools.product(range(K), repeat=n_rows):
            rich = n_rows < 2 or tier == "thorough" or sum(idx) % 4 == 0
            out.append((idx, rich))
        return out
    if tier == "thorough":
        return [(idx, sum(idx) % 5 == 0) for idx in itertools.product(range(K), repeat=3)]
    return [((i, j, (i + 2 * j + 1) % K), (i + j) % 4 == 0) for i in range(K) for j in range(K)]


INT_BOUNDARIES = sorted(set([10 ** k - 1 for k in range(1, 15)] + [10 ** k for k in range(1, 15)] +
                            [2 ** 31 - 1, 2 ** 31, 2 ** 32 - 1, 2 ** 32, 2 ** 53, 2 ** 53 + 1]))
BIG_INTS = [10 ** 15 - 1, 10 ** 15, 10 ** 16 - 1, 10 ** 17 - 1, 10 ** 17, 10 ** 18 - 1, 10 ** 18, 2 ** 63 - 1]
BIG_NEG = [-(10 ** 15 - 1), -10 ** 15, -(10 ** 18 - 1), -10 ** 18, -(2 ** 63 - 1), -2 ** 63]

HEADERS = {
    "interval": ["", "#chrom\tstart\tend\n#second comment\n"],
    "bed6": ["", "#a bed6 file\n"],
    "bed12": [""], "bedgraph": ["", "#bedGraph section chr1\n"], "narrowpeak": [""],
    "vcf": ["##fileformat=VCFv4.2\n##contig=<ID=1>\n#CHROM\tPOS\tID\tREF\tALT\tQUAL\tFILTER\tINFO\n",
            "#CHROM\tPOS\tID\tREF\tALT\tQUAL\tFILTER\tINFO\n"],
    "sam": ["", "@HD\tVN:1.6\tSO:coordinate\n@SQ\tSN:chr1\tLN:248956422\n"],
    "gtf": ["", "#!genome-build GRCh38.p13\n"],
    "fasta": [""], "fasta2": [""], "fastq": [""],
}


def int_family():
    """integer boundaries as coordinates (Interval) and as signed values (SAM template length)"""
    vals = INT_BOUNDARIES
    for i, v in enumerate(vals):
        rows = [["c", v, v]]
        yield {"kind": "write", "type": "interval", "variant": None, "rows": rows, "split": [1], "mode": "one", "gz": False, "readback": True}
        if i + 1 < len(vals):
            for rows in ([["c", v, vals[i + 1]], ["chr1", vals[i + 1], v]], [["c", vals[i + 1], 0], ["c", 0, v]]):
                yield {"kind": "write", "type": "interval", "variant": None, "rows": rows, "split": [2], "mode": "one", "gz": False, "readback": True}
                yield {"kind": "write", "type": "interval", "variant": None, "rows": rows, "split": [1, 1], "mode": "multi", "gz": False}
    sam0 = pool("sam", None, "quick")[0]
    for i, v in enumerate(vals):
        if v > 2 ** 40 and i % 2:
            continue
        r1, r2 = list(sam0), list(sam0)
        r1[8], r2[8] = -v, v
        r2[3] = v
        yield {"kind": "write", "type": "sam", "variant": None, "rows": [r1, r2], "split": [2], "mode": "one", "gz": False, "readback": True}
        yield {"kind": "write", "type": "sam", "variant": None, "rows": [r2, r1], "split": [1, 1], "mode": "append", "gz": False}


def bigint_family():
    for v in BIG_INTS:
        for rows in ([["c", v, v]], [["c", 5, v], ["chr1", v, 7]]):
            yield {"kind": "write", "type": "interval", "variant": None, "rows": rows, "split": [len(rows)], "mode": "one", "gz": False, "readback": True}
    sam0 = pool("sam", None, "quick")[0]
    for v in BIG_NEG + BIG_INTS[:2]:
        r1 = list(sam0)
        r1[8] = v
        yield {"kind": "write", "type": "sam", "variant": None, "rows": [r1, sam0], "split": [2], "mode": "one", "gz": False, "readback": True}


# float columns (BedGraph.value, NarrowPeak signal/p/q value, a custom float column): doubles enumerated by the SHAPE
# of their shortest decimal text: significant digits 1..17 x sign x exponent (positional notation with leading zeros /
# trailing '.0', two-digit and three-digit exponents, up to the limits of the double range).  The text of a double is
# 3..24 characters long; the pools above stay below 11.
FLOAT_MANTISSAS = ["1", "15", "125", "1234567", "123456789012345", "1234567890123456", "12345678901234567",
                   "9876543210987654", "98765432109876543", "9999999999999999", "1000000000000001", "17976931348623157",
                   "22250738585072014", "49"]
FLOAT_EXPONENTS = [-308, -307, -300, -101, -100, -99, -10, -7, -5, -4, -3, -1, 0, 1, 5, 14, 15, 16, 17, 21, 22, 99, 100,
                   101, 300, 307, 308]
SUBNORMALS = [5e-324, 1e-323, 2.5e-310, 1.2345678901234e-310, 2.225073858507201e-308, -5e-324, -1.5e-315, -2.225073858507201e-308]


def float_values(mantissas=None, exponents=None):
    """finite normal doubles +-d.ddd x 10^e, distinct, in the order exponent, mantissa, sign"""
    out, seen = [], set()
    for e in exponents or FLOAT_EXPONENTS:
        for m in mantissas or FLOAT_MANTISSAS:
            for sign in ("", "-"):
                v = float("%s%s.%se%d" % (sign, m[0], m[1:] or "0", e))
                if v in seen or abs(v) == float("inf") or abs(v) < ref.MIN_NORMAL:
                    continue
                seen.add(v)
                out.append(v)
    return out


def random_doubles(rng, n):
    """seeded sample above the enumeration: doubles drawn by bit pattern (uniform over sign, exponent and mantissa
    bits: 16..17 significant digits, exponents over the whole range), finite and normal"""
    import struct
    out = []
    while len(out) < n:
        v = struct.unpack("<d", struct.pack("<Q", rng.getrandbits(64)))[0]
        if v == v and abs(v) != float("inf") and abs(v) >= ref.MIN_NORMAL:
            out.append(v)
    return out


def _float_rows(tname, values, salt=0):
    """rows of a type with float columns whose float fields are `values` in order (the other fields from the pool)"""
    spec = SPECS[tname]
    p = pool(tname, None, "quick")
    fl = [i for i, (_, k) in enumerate(spec.fields) if k == "float"]
    rows = []
    for j in range(0, len(values), len(fl)):
        r = list(p[(j // len(fl) + salt) % len(p)])
        for i, v in zip(fl, (values[j:j + len(fl)] + values[:len(fl)])[:len(fl)]):
            r[i] = v
        rows.append(r)
    return rows


def _chunks(xs, k):
    return [xs[i:i + k] for i in range(0, len(xs), k)]


def float_family(tier, rng=None):
    """tables whose float columns hold doubles of every text shape (see FLOAT_MANTISSAS / FLOAT_EXPONENTS): single write
    + read back, the pieces modes, gzip, lazily read tables with another column replaced; thorough: every value as a
    1-row table and every pair of neighbours as a 2-row table"""
    thorough = tier == "thorough"

    def one(tname, rows, gz=False):
        return {"kind": "write", "type": tname, "variant": None, "rows": rows, "split": [len(rows)], "mode": "one", "gz": gz,
                "readback": True}

    def pieces(tname, rows, split, mode, gz=False):
        return {"kind": "write", "type": tname, "variant": None, "rows": rows, "split": split, "mode": mode, "gz": gz}

    by_exp = [float_values(exponents=[e]) for e in FLOAT_EXPONENTS]
    by_man = [float_values(mantissas=[m]) for m in FLOAT_MANTISSAS]
    everything = [v for g in by_exp for v in g]
    # BedGraph: all shapes of one exponent (the row lengths differ by the sign and the digits), all exponents of one shape
    for g in by_exp:
        if g:
            yield one("bedgraph", _float_rows("bedgraph", g))
    for j, g in enumerate(by_man):
        rows = _float_rows("bedgraph", g, j)
        n = len(rows)
        if thorough:
            yield one("bedgraph", rows, gz=True)
        for mode, split in (("multi", [n // 2, n - n // 2]), ("stream", [1, n - 2, 1]), ("append", [n - 1, 1])):
            yield pieces("bedgraph", rows, split, mode, gz=(j % 2 == 1) != (mode == "stream"))
    # NarrowPeak: three float columns per row; the generic delimited table with a float column (TAB and comma)
    for j, g in enumerate(_chunks(everything, 27)):
        rows = _float_rows("narrowpeak", g, j)
        yield one("narrowpeak", rows, gz=j % 4 == 3)
        if thorough or j % 3 == 0:
            n = len(rows)
            yield pieces("narrowpeak", rows, [1] * n, ("multi", "stream", "append")[j % 3], gz=j % 2 == 1)
    for tname in ("custom_tsv", "custom_csv"):
        for j, g in enumerate(_chunks(everything, 24 if thorough else 48)):
            if not thorough and (j % 2 == 1) == (tname == "custom_tsv"):
                continue
            rows = _float_rows(tname, g, j)
            yield one(tname, rows)
            if thorough:
                yield pieces(tname, rows, [len(rows) - 2, 2], ("multi", "stream", "append")[j % 3])
    # below the smallest normal double
    yield one("bedgraph", _float_rows("bedgraph", SUBNORMALS))
    for v in SUBNORMALS:
        yield one("bedgraph", _float_rows("bedgraph", [v]))
    yield one("narrowpeak", _float_rows("narrowpeak", SUBNORMALS + [0.5]))
    # a table read from a file (lazy object) with another column replaced: the float column is written again
    longs = [v for v in everything if len(repr(v)) > 21]
    for tname in ("bedgraph", "narrowpeak"):
        per = 3 * sum(1 for _, k in SPECS[tname].fields if k == "float")
        for j, g in enumerate(_chunks(longs, per)):
            if len(g) < per or (not thorough and j % 4):
                continue
            rows = _float_rows(tname, g, j)
            for field in (None, "start", "chromosome"):
                mod = None if field is None else {"field": field, "values": _alt_values("int" if field == "start" else "id", rows, j)}
                for split, mode in (([3], "multi"), ([1, 2], "append"), ([1, 1, 1], "stream")):
                    if not thorough and (mode == "stream") != (field == "chromosome") and field is not None:
                        continue
                    yield {"kind": "lazy", "type": tname, "rows": rows, "header": "", "modify": mod, "split": split, "mode": mode,
                           "gz": False}
    # seeded sample of arbitrary doubles
    if rng is not None:
        sample = random_doubles(rng, 480 if thorough else 96)
        for j, g in enumerate(_chunks(sample, 12)):
            tname = ("bedgraph", "narrowpeak", "custom_tsv")[j % 3]
            rows = _float_rows(tname, g, j)
            n = len(rows)
            yield one(tname, rows, gz=j % 5 == 4)
            k = rng.randrange(n + 1)
            yield pieces(tname, rows, [k, n - k], rng.choice(["multi", "stream", "append"]), gz=rng.random() < 0.3)
    if thorough:
        # every value on its own, and with its neighbour in the other order of the enumeration (row-length combinations)
        order = [v for g in by_man for v in g]
        for i, v in enumerate(order):
            yield one("bedgraph", _float_rows("bedgraph", [v], i))
            w = order[(i + 1) % len(order)]
            rows = _float_rows("bedgraph", [v, w], i)
            yield pieces("bedgraph", rows, [2], "one")
            yield pieces("bedgraph", rows, [1, 1], ("multi", "append", "stream")[i % 3], gz=i % 7 == 0)


SUFFIXES = [(".bed", "interval"), (".bdg", "bedgraph"), (".narrowPeak", "narrowpeak"), (".fasta", "fasta"),
            (".fa", "fasta"), (".fna", "fasta"), (".faa", "fasta"), (".fastq", "fastq"), (".fq", "fastq"),
            (".gtf", "gtf"), (".sam", "sam"), (".vcf", "vcf")]


def suffix_family(tier):
    for suffix, tname in SUFFIXES:
        rows = pool(tname, "aa" if suffix == ".faa" else None, tier)[:3]
        for gz in (False, True):
            yield {"kind": "write", "type": tname, "variant": "aa" if suffix == ".faa" else None, "rows": rows, "split": [3], "mode": "one",
                   "gz": gz, "readback": True, "suffix": suffix}
            yield {"kind": "write", "type": tname, "variant": "aa" if suffix == ".faa" else None, "rows": rows, "split": [1, 2], "mode": "append",
                   "gz": gz, "suffix": suffix}


def mode_family(tier):
    for tname in ("interval", "vcf", "fastq"):
        rows = pool(tname, None, tier)[1:4]
        for w in ("w", "write", "wb"):
            for a in ("a", "append", "ab"):
                for gz in (False, True):
                    yield {"kind": "write", "type": tname, "variant": None, "rows": rows, "split": [1, 1, 1], "mode": "append", "gz": gz,
                           "wmode": w, "amode": a}


def width_family(tier):
    """FASTA line widths other than the default (subclass with n_characters_per_line = W), every length 1..2W+2"""
    for W in (1, 2, 3, 7):
        seqs = [_lcg_seq(L, L + W, ALPHABETS["base"]) for L in range(1, 2 * W + 3)]
        for i, sq in enumerate(seqs):
            rows = [["s%d" % i, sq]]
            yield {"kind": "write", "type": "fasta", "variant": "base", "rows": rows, "split": [1], "mode": "one", "gz": False,
                   "readback": True, "width": W}
            other = seqs[(i * 3 + 1) % len(seqs)]
            rows = [["s%d" % i, sq], ["t", other], ["u" * (i + 1), sq[::-1]]]
            yield {"kind": "write", "type": "fasta", "variant": "base", "rows": rows, "split": [3], "mode": "one", "gz": False,
                   "readback": True, "width": W}
            yield {"kind": "write", "type": "fasta", "variant": "base", "rows": rows, "split": [1, 2], "mode": "multi", "gz": i % 2 == 1,
                   "width": W}


def grouped_family(tier):
    for tname in ("interval", "vcf", "fastq", "custom_tsv"):
        p = pool(tname, None, tier)
        for rows in ([], p[:1], p[1:3]) + ((p[2:5],) if tier == "thorough" else ()):
            for s in splits(len(rows), tier == "thorough"):
                for gz in ((False, True) if tname == "vcf" else (False,)):
                    yield {"kind": "write", "type": tname, "variant": None, "rows": rows, "split": s, "mode": "grouped", "gz": gz}


def _alt_values(kind, old, j):
    if kind in ("int", "vcfpos"):
        return [[3, 99, 100, 0, 12345678, 9, 1000][(i + j) % 7] for i in range(len(old))]
    if kind == "id":
        return [["zz", "a", "chr22_KI270731v1_random", "7"][(i + j) % 4] for i in range(len(old))]
    return [["N", "xyz", "a,b;c", "0"][(i + j) % 4] for i in range(len(old))]


def lazy_family(tier):
    K = 4 if tier == "quick" else 6
    for tname in ("interval", "bed6", "bed12", "bedgraph", "narrowpeak", "vcf", "sam", "gtf", "fasta", "fasta2", "fastq"):
        spec = SPECS[tname]
        p = pool(tname, None, tier)[:K]
        tabs = [[p[0]], [p[1], p[0]], [p[3], p[2], p[1]]] + ([[p[0], p[1], p[2]]] if tier == "thorough" else []) + ([[p[i], p[(i + 2) % K], p[(i + 3) % K]] for i in range(K)] if tier == "thorough" else [])
        for rows in tabs:
            n = len(rows)
            for hi, header in enumerate(HEADERS[tname]):
                mods = [None]
                for j, (fname, kind) in enumerate(spec.fields):
                    if spec.layout != "tsv" and kind != "id":
                        continue
                    if kind in ("int", "vcfpos", "id", "str"):
                        if tname == "sam" and fname == "extra":
                            continue
                        if tname == "vcf" and fname == "info":
                            continue            # typed Union[dataclass, str] on the class that is read: see type "vcfentry"
                        mods.append({"field": fname, "values": _alt_values(kind, rows, j)})
                if tier == "quick":
                    mods = mods[:1] + [m for m in mods[1:] if m["field"] in ("position", "start", "chromosome", "name", "summit", "thick_end", "ref_seq", "cigar", "source", "length", "id")]
                for mod in mods:
                    sp = [[n]] + ([[1] * n] if n > 1 else []) + ([[1, n - 1]] if n > 2 else [])
                    for s in sp:
                        for mode in (("multi", "stream", "append") if len(s) > 1 else ("multi",)):
                            for gz in ((False, True) if (mode == "append" or (tier == "thorough" and mode == "multi" and len(s) > 1)) else (False,)):
                                if tier == "quick" and hi > 0 and mode == "stream" and mod is not None:
                                    continue
                                yield {"kind": "lazy", "type": tname, "rows": rows, "header": header, "modify": mod, "split": s, "mode": mode, "gz": gz}


def rechunk_family(tier):
    for tname in ("interval", "bed6", "bedgraph", "vcf", "sam", "gtf", "fasta", "fastq"):
        spec = SPECS[tname]
        p = pool(tname, None, tier)
        rows = [p[i % len(p)] for i in (0, 1, 2, 3, 1, 0, 2, 3, 3, 0)]
        if tname == "fasta":
            rows = [p[i % len(p)] for i in (0, 1, 2, 1, 0)]
        body = ref.serialise(spec, rows, fasta_width())
        if spec.layout == "tsv":
            longest = max(len(l) for l in body.split(b"\n")) + 1
        else:
            longest = max(len(ref.serialise(spec, [r], fasta_width())) for r in rows)
        for header in HEADERS[tname]:
            for chunk in sorted(set([2 * longest + 1, 3 * longest, 5 * longest + 3, len(body) + len(header) + 7])):
                for gz in (False, True):
                    yield {"kind": "rechunk", "type": tname, "rows": rows, "header": header, "gz": gz, "chunk": chunk}


def sampled_family(tier, rng):
    """above the exhaustive bounds: tables of 4..6 rows over the full pools, random cut, mode and target (seeded)"""
    m = 6 if tier == "quick" else 60
    for tname, variant in TYPE_VARIANTS:
        p = pool(tname, variant, tier)
        for _ in range(m):
            n = rng.randint(4, 6)
            rows = [p[rng.randrange(len(p))] for _ in range(n)]
            cuts = sorted(rng.randrange(n + 1) for _ in range(rng.randint(1, 3)))
            split = [b - a for a, b in zip([0] + cuts, cuts + [n])]
            mode = rng.choice(["multi", "stream", "append"])
            yield {"kind": "write", "type": tname, "variant": variant, "rows": rows, "split": split, "mode": mode,
                   "gz": rng.random() < 0.4}
        rows = [p[rng.randrange(len(p))] for _ in range(6)]
        yield {"kind": "write", "type": tname, "variant": variant, "rows": rows, "split": [6], "mode": "one", "gz": False, "readback": True}


def _sl(a, b, c=None):
    return ["slice", a, b, c]


def _perm(n, salt=0):
    return sorted(range(n), key=lambda i: ((i + 1 + salt) * 2654435761) % 1000003)


def selections(n, level):
    """row selections of an n-row table (n >= 3).  level 0: one of each class; 1: the standard set; 2: everything"""
    perm = _perm(n)
    drop = [not (i == 0 or i == n // 2) for i in range(n)]
    core = [[_sl(None, None, -1)], [["mask", drop]], [["list", perm]], [_sl(1, None)]]
    if level == 0:
        return core
    std = core + [[_sl(None, None, 2)], [_sl(1, None, 2)], [_sl(1, -1)], [_sl(n - 1, None)], [_sl(None, 2)],
                  [["array", perm]], [["list", [0, 0, n - 2]]], [["list", [-1, 0]]], [["mask", [i % 2 == 0 for i in range(n)]]],
                  [["mask", [False] * n]], [_sl(2, 2)], [["rotate", 2]],
                  [_sl(None, None, -1), _sl(1, None)], [["mask", drop], _sl(None, None, -1)], [_sl(1, None), ["list", _perm(n - 1, 3)]]]
    if level == 1:
        return std
    return std + [[_sl(None, None, -2)], [_sl(-2, None)], [_sl(n - 2, 0, -1)], [["array", []]], [["array", [n - 1] * 3]],
                  [["mask", [i == n - 1 for i in range(n)]]], [["mask", [True] * n]], [["list", perm], ["list", perm]],
                  [["rotate", 1], _sl(None, None, 2)], [_sl(None, None, 2), _sl(None, None, -1)], [["list", perm], ["mask", drop]]]


def small_selections(n, tier):
    """every selection of a small table: all index lists of length 1..n, all masks, all slices (distinct results, by kind)"""
    out, seen = [], set()
    def add(sel):
        key = (sel[0][0] if sel[0][0] != "array" else "list", tuple(select_rows(list(range(n)), sel)), sel[0][3] if sel[0][0] == "slice" else None)
        if key not in seen:
            seen.add(key)
            out.append(sel)
    for k in range(1, n + 1):
        for idx in itertools.product(range(n), repeat=k):
            add([["list" if sum(idx) % 2 else "array", list(idx)]])
    for m in itertools.product([False, True], repeat=n):
        add([["mask", list(m)]])
    bounds = [None] + list(range(-n, n + 1))
    for step in (None, -1, 2, -2) + ((3, -3) if tier == "thorough" else ()):
        for a in bounds:
            for b in bounds:
                add([_sl(a, b, step)])
    return out


DERIVED_KEY_TYPES = [("fastq", "base"), ("fasta", "base"), ("vcf", None), ("sam", None), ("bed12", None)]
LAZY_TYPES = ("interval", "bed6", "bed12", "bedgraph", "narrowpeak", "vcf", "sam", "gtf", "fasta", "fasta2", "fastq")


def _derived(tname, variant, rows, writes, mode="one", gz=False, **kw):
    return dict({"kind": "derived", "type": tname, "variant": variant, "rows": rows, "writes": writes, "mode": mode, "gz": gz}, **kw)


def derived_family(tier):
    """the write -> read scope for tables that are row selections of another table (reordered, reversed, masked, strided,
    tail / middle slices, repeated rows, empty, rotated by concatenation, composed selections), for every type"""
    thorough = tier == "thorough"
    for minor, tvs in ((False, TYPE_VARIANTS), (True, MINOR_VARIANTS)):
        for tname, variant in tvs:
            p = pool(tname, variant, tier)
            for n in (((5, 3) if minor else (5, 3, 6, 4)) if thorough else (5,)):
                if n > len(p):
                    continue
                rows = p[:n] if n != 3 else p[1:4]
                level = (1 if minor or n != 5 else 2) if thorough else (0 if minor else 1)
                for j, sel in enumerate(selections(n, level)):
                    yield _derived(tname, variant, rows, [sel], readback=True)
                    if (thorough and n == 5 and not minor) or (not minor and j < 2):
                        yield _derived(tname, variant, rows, [sel], gz=True, readback=thorough)
    # small tables: every selection
    for tname, variant in (TYPE_VARIANTS if thorough else DERIVED_KEY_TYPES):
        p = pool(tname, variant, tier)
        for n in ((3, 4) if thorough and (tname, variant) in DERIVED_KEY_TYPES[:3] else (3,)):
            rows = p[:n]
            for sel in small_selections(n, tier):
                yield _derived(tname, variant, rows, [sel], readback=thorough and n == 3 and sel[0][0] != "slice")
    # tables read from a file (lazy objects where the format has them), row-selected and written
    for tname in LAZY_TYPES:
        p = pool(tname, None, tier)
        for hi, header in enumerate(HEADERS[tname]):
            for n in ((5, 3) if thorough else (4,)):
                rows = p[:n]
                sels = selections(n, 1)
                if hi > 0 and not thorough:
                    sels = selections(n, 0)
                elif not thorough:
                    sels = [x for i, x in enumerate(sels) if i not in (5, 8, 9, 12, 14, 17)]
                for sel in sels:
                    yield _derived(tname, None, rows, [sel], source="read", header=header, readback=hi == 0)
                    if thorough and n == 5:
                        yield _derived(tname, None, rows, [sel], source="read", header=header, gz=True)


def history_family(tier):
    """the same table object written more than once / used after it was written: the object is unchanged by a write, a
    second write gives the same bytes, slices of one object as the pieces, a selection taken after a write"""
    thorough = tier == "thorough"
    rev = [_sl(None, None, -1)]
    for minor, tvs in ((False, TYPE_VARIANTS), (True, MINOR_VARIANTS)):
        for tname, variant in tvs:
            p = pool(tname, variant, tier)
            ns = (3,) if minor or not thorough else (3, 1, 2, 4) if (tname, variant) in DERIVED_KEY_TYPES else (3, 1, 2)
            for n in ns:
                rows = p[1:1 + n]
                m = [i % 2 == 0 for i in range(n)]
                hs = []
                for mode in ("multi", "stream", "append", "files"):
                    hs.append(([[], []], mode, False, False))
                    if thorough or (not minor and mode in ("multi", "files")):
                        hs.append(([[], []], mode, True, False))
                hs.append(([[], [], []], "multi", False, False))
                hs.append(([[], [], []], "append", False, False))
                hs.append(([[], rev], "multi", False, False))
                hs.append(([rev, []], "files", False, True))
                if n > 1:
                    hs.append(([[], [_sl(1, None)]], "append", False, False))
                    hs.append(([[["mask", m]], [["mask", [not x for x in m]]]], "multi", False, False))
                    hs.append(([[["mask", m]], [], [["list", _perm(n)]]], "stream", False, True))
                    comps = [c for c in compositions(n) if len(c) > 1]
                    if not thorough:
                        comps = comps[-1:] if minor else [comps[0], comps[-1]]
                    for c in comps:
                        cuts = [sum(c[:i]) for i in range(len(c) + 1)]
                        sl = [[_sl(a, b)] for a, b in zip(cuts, cuts[1:])]
                        for mode in ("multi", "stream", "append"):
                            for pre in ((False, True) if thorough and mode != "append" else (mode == "stream",)):
                                hs.append((sl, mode, False, pre))
                        if thorough:
                            hs.append((sl, "append", True, False))
                            hs.append((sl[::-1], "multi", False, False))
                if minor and not thorough:
                    hs = [h for i, h in enumerate(hs) if i in (0, 3, 6, 7) or h[0][0] == [_sl(0, 1)]]
                for writes, mode, gz, pre in hs:
                    yield _derived(tname, variant, rows, writes, mode=mode, gz=gz, prederive=pre)
    for tname in LAZY_TYPES:
        p = pool(tname, None, tier)
        rows = p[:3]
        for header in (HEADERS[tname] if thorough else HEADERS[tname][-1:]):
            for writes, mode in (([[], []], "multi"), ([[], []], "files"), ([[], []], "append"), ([[], rev], "stream"),
                                 ([rev, [], [_sl(1, None)]], "multi")):
                for gz in ((False, True) if thorough else (False,)):
                    yield _derived(tname, None, rows, writes, mode=mode, gz=gz, source="read", header=header)


def _concat(tname, origin, sels, groups="all", mode="one", gz=False, **kw):
    return dict({"kind": "concat", "type": tname, "variant": None, "origin": origin, "header": "", "sels": list(sels), "groups": groups,
                 "mode": mode, "gz": gz}, **kw)


def concat_family(tier):
    """several table objects joined with np.concatenate and written: tables read (lazily, where the format has lazy
    tables) from files of their own, the chunks of one file, and built tables; every table of the join untouched or
    row-selected - all ordered pairs of selection kinds, triples, tables of 1..3 rows -, the join written once, as one
    of several pieces (successive writes / stream / append), nested, on a gzip target, row-selected again"""
    thorough = tier == "thorough"
    core = CONCAT_SELS[:4]
    pairs_all = [(a, b) for a in CONCAT_SELS for b in CONCAT_SELS]
    pairs_core = [(a, b) for a in core for b in core]
    triples = [("whole", "mask", "whole"), ("whole", "whole", "tail"), ("mask", "whole", "list"), ("whole", "rev", "stride"),
               ("whole", "empty", "whole"), ("whole", "repeat", "head"), ("last", "whole", "whole")]
    if thorough:
        triples += [t for t in itertools.product(core, repeat=3) if t not in triples]
    grouped = [("first-alone", "multi"), ("last-alone", "stream"), ("nested", "one"), ("last-alone", "append"),
               ("first-alone", "stream"), ("pairs", "multi")]
    for tname in LAZY_TYPES:
        p = pool(tname, None, tier)
        K = len(p)
        A, B, C = p[:3], p[3:6], [p[(2 * i + 1) % K] for i in range(4)]
        for hi, header in enumerate(HEADERS[tname]):
            # two tables: every ordered pair of selection kinds
            for j, (a, b) in enumerate(pairs_all if thorough and hi == 0 else pairs_core):
                if hi > 0 and not thorough and (a, b) not in (("whole", "mask"), ("mask", "whole"), ("whole", "whole"), ("whole", "list")):
                    continue
                yield _concat(tname, "files", (a, b), parts=[A, B], header=header, readback=(hi == 0 and "whole" in (a, b)))
                if thorough and hi == 0 and a in core and b in core and "whole" in (a, b):
                    yield _concat(tname, "files", (a, b), parts=[B, A[:2]], header=header, gz=True)
                    yield _concat(tname, "files", (a, b), parts=[C[:1], C[1:]], header=header)
                    yield _concat(tname, "files", (a, b), parts=[C, A[:1]], header=header)
            yield _concat(tname, "files", ("whole", "mask"), parts=[A, B], header=header, gz=True, readback=hi == 0)
            for post in (("tail", "mask") if hi == 0 or thorough else ("mask",)):
                yield _concat(tname, "files", ("whole", "mask"), parts=[A, B], header=header, post=post)
                if thorough:
                    yield _concat(tname, "files", ("whole", "whole"), parts=[A, B], header=header, post=post)
                    yield _concat(tname, "files", ("tail", "whole"), parts=[A, B], header=header, post=post)
            # three and four tables; the join as one of several pieces
            if hi == 0 or thorough:
                for j, t in enumerate(triples if hi == 0 else triples[:7]):
                    yield _concat(tname, "files", t, parts=[A, B, C], header=header, readback=thorough and j < 7)
                    if j < 3 or (thorough and hi == 0 and j < 8):
                        for g, mode in (grouped if thorough else grouped[:4] if j == 0 else grouped[j + 3:j + 4]):
                            yield _concat(tname, "files", t, parts=[A, B, C], header=header, groups=g, mode=mode)
                yield _concat(tname, "files", ("whole", "mask"), parts=[A, B, C, A[::-1]], header=header, groups="pairs", mode="multi")
                if thorough:
                    for s4 in (("whole", "mask"), ("whole", "whole", "whole", "tail"), ("list", "whole")):
                        for g, mode in (("all", "one"), ("nested", "one"), ("pairs", "stream"), ("pairs", "append"), ("first-alone", "multi")):
                            yield _concat(tname, "files", s4, parts=[A, B, C, A[::-1]], header=header, groups=g, mode=mode,
                                          gz=(g == "pairs" and mode == "stream"))
            # the chunks of one file as read_chunks delivers them
            rows = [p[i % K] for i in (0, 1, 2, 3, 1, 0, 2, 3, 3, 0)]
            body = ref.serialise(SPECS[tname], rows, fasta_width())
            sizes = [len(body) // 3, len(body) // 2 + 1] + ([len(body) // 5, len(body) + len(header) + 7] if thorough and hi == 0 else [])
            for ci, chunk in enumerate(sizes):
                cyc = [("whole", "tail"), ("tail", "whole"), ("whole",), ("whole", "whole", "mask"), ("whole", "list")]
                if thorough:
                    cyc += [("mask", "whole"), ("whole", "rev", "whole"), ("whole", "empty"), ("whole", "last"), ("whole", "stride", "repeat")]
                elif hi > 0 or ci > 0:
                    cyc = cyc[:1] + cyc[3:4]
                for si, sels in enumerate(cyc):
                    yield _concat(tname, "chunks", sels, rows=rows, chunk=chunk, header=header, readback=(hi == 0 and ci == 0))
                    if thorough and ci < 2 and si < 5:
                        yield _concat(tname, "chunks", sels, rows=rows, chunk=chunk, header=header, groups="pairs", mode="stream")
                        yield _concat(tname, "chunks", sels, rows=rows, chunk=chunk, header=header, groups="first-alone", mode="multi", gz=True)
    # built tables (every type and column encoding)
    for minor, tvs in ((False, TYPE_VARIANTS), (True, MINOR_VARIANTS)):
        for tname, variant in tvs:
            p = pool(tname, variant, tier)
            K = len(p)
            A, B, C = p[:3], p[3:6], [p[(2 * i + 1) % K] for i in range(4)]
            bp = pairs_core if thorough and not minor else [("whole", "mask"), ("mask", "whole"), ("whole", "whole"), ("list", "tail")]
            for a, b in (bp[:2] if minor and not thorough else bp):
                yield _concat(tname, "built", (a, b), parts=[A, B], variant=variant, readback=not minor)
            if not minor:
                yield _concat(tname, "built", ("whole", "mask", "whole"), parts=[A, B, C], variant=variant, groups="nested")
                yield _concat(tname, "built", ("whole", "mask", "rev"), parts=[A, B, C], variant=variant, groups="first-alone", mode="append")
                if thorough:
                    for t in triples[:7]:
                        yield _concat(tname, "built", t, parts=[A, B, C], variant=variant, gz=t[0] == "mask")
                    yield _concat(tname, "built", ("whole", "mask"), parts=[A, B], variant=variant, post="tail")


def all_cases(tier, rng=None):
    K = 4 if tier == "quick" else 6
    K3 = 3 if tier == "quick" else 5
    kminor = 2 if tier == "quick" else 3
    # round 1: every type, tables of 0..2 rows; then the small families; round 2: 3-row tables
    plans = [(tv, K, K3) for tv in TYPE_VARIANTS] + [(tv, kminor, kminor) for tv in MINOR_VARIANTS]
    for fam in (history_family(tier), derived_family(tier), concat_family(tier)):      # first: they are never the part cut off by the time budget
        for c in fam:
            yield c
    for n_rows in (0, 1, 2, 3):
        if n_rows == 3:
            for fam in (int_family(), bigint_family(), suffix_family(tier), mode_family(tier), width_family(tier),
                        grouped_family(tier), lazy_family(tier), rechunk_family(tier)):
                for c in fam:
                    yield c
            if rng is not None:
                for c in sampled_family(tier, rng):
                    yield c
            for c in float_family(tier, rng):      # after sampled_family: the seeded cases of that family stay what they were
                yield c
        for (tname, variant), k, k3 in plans:
            p = pool(tname, variant, tier)
            if tname == "fasta" and variant == "base" and n_rows < 3:
                if n_rows == 2 and tier == "quick":           # all lengths around the multiples of 80
                    p = p[:5]
            else:
                p = p[:k3 if n_rows == 3 else k]
            for idx, rich in tables(len(p), n_rows, tier):
                rows = [p[i] for i in idx]
                if variant == "strenc" and not rows:
                    continue
                if tier == "quick" and n_rows == 3 and (tname, variant) in MINOR_VARIANTS and idx[0] != idx[1]:
                    continue
                for level in (0, 1):
                    for c in write_cases_for_table(tname, variant, rows, tier, level, rich):
                        yield c


def run(tier="quick", seed=0):
    _memo.clear()
    K = 4 if tier == "quick" else 6
    col = Collector("C03", tier, seed,
                    "exhaustive: per type/variant every table of 0..2 rows over a pool of K hand-built rows (field widths 1..long, "
                    "empty strings, negative ints, floats) and 3-row tables (quick: K*K Latin-square sample; thorough: all K^3) "
                    "x every composition of the rows into pieces (+ empty pieces) x {successive writes, stream of chunks, "
                    "'w' then 'a'} x {plain, gzip}; plus integer boundaries, suffixes, mode spellings, lazily read tables with one "
                    "column replaced, read_chunks streams, grouped streams, FASTA widths 1/2/3/7, seeded 4..6-row sample; float columns over "
                    "doubles of every text shape (significant digits x sign x exponent form, text length 3..24) + seeded doubles by bit pattern; per type row "
                    "selections (reverse, permutation, mask, stride, tail, repeat, empty, rotate, composed; all index lists / masks / "
                    "slices of 3-row tables) of built and of read tables, and histories that write one table object (and its "
                    "selections) several times with the frame condition 'table unchanged'; joins (np.concatenate) of 2..4 tables "
                    "read from separate files / chunks of one file / built, each untouched or row-selected (all ordered pairs of "
                    "selection kinds), written once, as a piece among others, nested, on gzip, row-selected again.  distinct = distinct (type, variant, rows, split, mode, target); "
                    "non-trivial = all (each writes a file and compares all bytes with the reference serialisation)",
                    budget_s=85 if tier == "quick" else 760)
    col.bounds = {"types": [t + (":" + v if v else "") for t, v in TYPE_VARIANTS + MINOR_VARIANTS],
                  "pool_rows_K": K, "rows_per_table": "0..3", "three_row_tables": "K*K sample" if tier == "quick" else "all K^3",
                  "fasta_lengths": fasta_lengths(tier), "fasta_width": [fasta_width(), 1, 2, 3, 7], "fastq_lengths": FASTQ_LENGTHS[:K],
                  "int_boundaries": "10^k-1, 10^k for k=1..14, 2^31, 2^32, 2^53 (+-1); region bigint: |v| >= 10^15-1 up to int64 limits",
                  "splits": "all compositions + empty piece first/last/middle", "modes": ["one", "multi", "stream", "append", "grouped (small family)"],
                  "targets": ["plain", "gzip"], "float_tolerance": "1e-9 relative (of the smallest normal double below it)",
                  "float_values": "%d doubles: mantissas %s x 10^%s x sign, finite and normal; %d subnormal; seeded sample of %d doubles "
                                  "by bit pattern; in BedGraph / NarrowPeak / custom tsv,csv tables: one write + read back, pieces, gz, "
                                  "lazy read-modify-write%s" % (len(float_values()), FLOAT_MANTISSAS, FLOAT_EXPONENTS, len(SUBNORMALS),
                                                                480 if tier == "thorough" else 96,
                                                                "; every value as a 1-row table, neighbours as 2-row tables" if tier == "thorough" else ""),
                  "row_selections": "tables of 5 rows (thorough: 3..6), %d selection shapes; all index lists (length 1..n), masks and "
                                    "slices (step +-1, +-2%s) of 3-row tables%s; source built | read from file"
                                    % (len(selections(5, 2 if tier == "thorough" else 1)), ", +-3" if tier == "thorough" else "",
                                       " and 4-row tables (key types)" if tier == "thorough" else " (key types)"),
                  "one_table_histories": "same object written 2..3 times x {multi, stream, append, files} x {plain, gz}; slices of one "
                                         "object as pieces (compositions of %s rows); object vs its selection; derived before / after "
                                         "the previous write" % ("1..4" if tier == "thorough" else "3"),
                  "concatenations": "np.concatenate of 2..4 tables of 1..4 rows; origin {files read lazily, chunks of one 10-row file at "
                                    "%d chunk sizes, built}; per table a selection of %s (%s ordered pairs; triples%s); groups "
                                    "{all, nested, first-alone, last-alone, pairs} x {one, multi, stream, append}; gzip; selection of the join"
                                    % (4 if tier == "thorough" else 2, list(CONCAT_SELS if tier == "thorough" else CONCAT_SELS[:4]),
                                       "all" if tier == "thorough" else "all 16 of the first four, lazy types", ": all 64 of the first four" if tier == "thorough" else "")}
    import logging
    logging.disable(logging.WARNING)          # the library logs a warning per VCF read / header context; not a verdict
    try:
        with TmpDir() as tmp:
            for case in all_cases(tier, col.rng):
                exec_case(col, tmp, case)
                if col.evaluations % 50 == 0 and col.out_of_time():
                    break
    finally:
        logging.disable(logging.NOTSET)
    return col.result()


def replay(case):
    col = Collector("C03", "quick", 0, "replay")
    with TmpDir() as tmp:
        exec_case(col, tmp, case)
    if col.failures:
        return False, "; ".join(f["signature"] + ": " + f["message"] for f in col.failures)
    return True, "ok"
