"""C20 bounded stand-in: operations do not modify their inputs.

Run-time frame contracts on the REAL bionumpy functions over an enumerated small scope:

  frame(f, args):   deep snapshot(args) before == after f(*args)          ("<section>:<fn>:input-modified")
                    snapshot(f(args)) == snapshot(f(args)) (second call)    ("<section>:<fn>:second-call-differs")
  chunk contracts:  a lazily read file chunk writes the same bytes before and after its fields were read / parsed,
                    field values do not depend on what was read before, re-reading gives equal values, writing a
                    modified copy (bnp.replace) leaves the original chunk and its bytes alone.
  histories:        a chunk that ALREADY carries user-set values (column assigned, or made by bnp.replace) keeps its
                    fields, tolist() and written bytes when a second public operation (replace of another column,
                    reverse complement / translation, indexing, concatenate, writing ...) is applied to it
                    ("chunk:history:<operation>:original-field-changed" / "-tolist-changed",
                    "chunk:<format>:history:<operation>:original-written-bytes-changed").

  user-owned / writable buffers ("rawbuf", and every file format again WITHOUT final newline):
                    the array handed to DelimitedBuffer.from_raw_buffer (writable, read-only, with an incomplete last entry,
                    a slice of a larger array, CRLF) holds the same bytes after the buffer was made and after every field
                    parse / get_data, for every column kind at every position of the line (also as the ONLY column);
                    chunks of files without final newline and chunks concatenated from several small reads (both writable
                    copies owned by the reader) write the same bytes after field access
                    ("rawbuf:from_raw_buffer:user-array-changed-by-<step>:<column kind>",
                    "rawbuf:file:<ending>:written-bytes-changed-by-field-access:<column kind>",
                    "chunk:<format>:no-final-newline:...").

  functions called DIRECTLY on a lazily read chunk ("lazyiv"):
                    interval arithmetic and genomic-data functions (merge_intervals at distances 0..2, sort_intervals, pileups,
                    masks, clip, intersect / unique_intersect / count_overlap with the chunk as first or second argument or both
                    arguments lazily read, Genome.get_intervals(chunk).merged() / get_pileup() / sorted() ...) take the chunk
                    itself: for every table of 1..3 intervals sorted on start (disjoint, touching, overlapping, nested, equal,
                    single) written as plain bed3, bed4 / bed6 lines read with the 3-column bed buffer, Bed6Buffer, numbers
                    with '+' signs and leading zeros, CRLF, no final newline, bedGraph, narrowPeak: afterwards the chunk writes
                    the bytes a fresh chunk writes, holds the same bytes/offsets and field values, and the second call / the
                    call on a fresh chunk give the same result
                    ("lazyiv:<fn>:chunk-written-bytes-changed" / "-buffer-changed" / "-field-changed" / ":second-call-differs").
  assignment on an indexed copy:
                    table[index].column = ... / chunk[index].column = ... for every boolean mask, and the index lists, index
                    arrays and slices that keep EVERY row, leaves the table / chunk (fields, written bytes) alone
                    ("table:getitem+setattr:input-modified", "chunk:any-format:field-changed-by-assignment-to-an-indexed-copy" /
                    "chunk:any-format:written-bytes-changed-by-assignment-to-an-indexed-copy").

The oracle is the statement itself: equality of snapshots (taken with copy.deepcopy, so that taking the snapshot
does not change the aliasing state of lazily sliced ragged arrays) - results are never compared with an expected
value, so defects of other properties (wrong parse results etc.) do not raise alarms here.

Sections: text (text/number conversion), seq (sequence functions, encoding changes), interval (interval
arithmetic), genomic (genomic-data methods), table (table methods), chunk (lazily read chunks of every text format).
"""
import copy
import dataclasses
import itertools
import os
import traceback

from .common import Collector, TmpDir

PID = "C20"


# ----------------------------------------------------------------------------------------------------------------
# snapshots
# ----------------------------------------------------------------------------------------------------------------

def _nd(x):
    import numpy as np
    x = np.asarray(x)
    if x.dtype == object:
        return ["nd", "object", list(x.shape), [snap(e) for e in x.ravel().tolist()]]
    if x.dtype.kind == "f" or x.dtype.kind == "c":
        return ["nd", str(x.dtype), list(x.shape), [repr(v) for v in x.ravel().tolist()]]
    if x.dtype.kind in "SU":
        return ["nd", x.dtype.kind, list(x.shape),
                [v.decode("latin1") if isinstance(v, bytes) else v for v in x.ravel().tolist()]]
    return ["nd", str(x.dtype), list(x.shape), x.ravel().tolist()]


def _rows(flat, lengths):
    import numpy as np
    flat = np.asarray(flat)
    out, o = [], 0
    for n in lengths:
        r = flat[o:o + n]
        o += n
        if flat.dtype == np.uint8:
            out.append(bytes(r.tolist()).decode("latin1"))
        elif flat.dtype.kind == "f":
            out.append([repr(v) for v in r.tolist()])
        else:
            out.append(r.tolist())
    return out


def snap(x):
    """deep, comparable, printable snapshot of a value; never changes the state of x"""
    import numpy as np
    from npstructures import RaggedArray
    from bionumpy.encoded_array import EncodedArray, EncodedRaggedArray
    from bionumpy.string_array import StringArray
    if x is None or isinstance(x, (bool, int, str)):
        return x
    if x is NotImplemented:
        return "NotImplemented"
    if isinstance(x, slice):
        return ["slice", x.start, x.stop, x.step]
    if isinstance(x, bytes):
        return ["bytes", x.decode("latin1")]
    if isinstance(x, float):
        return ["float", repr(x)]
    if isinstance(x, np.generic):
        return ["npscalar", repr(x.item())]
    if isinstance(x, (list, tuple)):
        return [type(x).__name__, [snap(e) for e in x]]
    if isinstance(x, dict):
        return ["dict", [[str(k), snap(v)] for k, v in x.items()]]
    if isinstance(x, EncodedRaggedArray):
        y = copy.deepcopy(x)
        lengths = [int(n) for n in y.lengths]
        return ["era", repr(y.encoding), _rows(np.asarray(y.ravel().raw()), lengths)]
    if isinstance(x, RaggedArray):
        y = copy.deepcopy(x)
        lengths = [int(n) for n in y.lengths]
        flat = np.asarray(y.ravel())
        return ["ra", str(flat.dtype), _rows(flat, lengths) if flat.dtype != np.uint8 else
                [r.tolist() for r in (flat[sum(lengths[:i]):sum(lengths[:i + 1])] for i in range(len(lengths)))]]
    if isinstance(x, EncodedArray):
        return ["ea", repr(x.encoding), _nd(x.raw())]
    if isinstance(x, StringArray):
        return ["sa", _nd(x.raw())]
    if isinstance(x, np.ndarray):
        return _nd(x)
    if dataclasses.is_dataclass(x) and not isinstance(x, type):
        return ["dc", type(x).__name__, [[f.name, snap(getattr(x, f.name))] for f in dataclasses.fields(x)]]
    tn = type(x).__name__
    if tn == "DataFrame":
        return ["df", [[str(c), snap(list(x[c].tolist()))] for c in x.columns]]
    if tn == "EncodedCounts":
        return ["counts", snap(list(x.alphabet)), _nd(x.counts)]
    if hasattr(x, "get_data") and callable(x.get_data) and ("Genomic" in tn):
        try:
            return ["genomic", tn, snap(x.get_data())]
        except Exception:
            pass
    if "Genomic" in tn and hasattr(x, "data") and dataclasses.is_dataclass(getattr(x, "data", None)):
        return ["genomic", tn, snap(x.data)]
    if tn.startswith("RunLength") and "Ragged" in tn:
        return ["rlr", tn, [snap(r) for r in x]]
    if hasattr(x, "to_array") and callable(x.to_array):
        a = x.to_array()
        return ["rl", tn, _nd(a) if isinstance(a, np.ndarray) else snap(a)]
    if tn.startswith("RunLength") and hasattr(x, "__iter__"):
        return ["rlr", tn, [snap(r) for r in x]]
    if hasattr(x, "__array__"):
        return ["arr", tn, _nd(np.asarray(x))]
    _UNKNOWN_TYPES.add(tn)
    return ["obj", tn]


_UNKNOWN_TYPES = set()     # types snap() could not look into (development aid; must stay empty)


def first_diff(a, b, path="$"):
    if type(a) != type(b):
        return "%s: %r -> %r" % (path, a, b)
    if isinstance(a, list):
        if len(a) != len(b):
            return "%s: length %d -> %d (%r -> %r)" % (path, len(a), len(b), a, b)
        for i, (u, v) in enumerate(zip(a, b)):
            if u != v:
                return first_diff(u, v, "%s[%d]" % (path, i))
        return ""
    if a != b:
        return "%s: %r -> %r" % (path, a, b)
    return ""


# ----------------------------------------------------------------------------------------------------------------
# the frame contract
# ----------------------------------------------------------------------------------------------------------------

def eval_frame(col, section, fn_name, descr):
    case = {"section": section, "fn": fn_name, "input": descr}
    col.case(case, contract="frame:" + section)
    base = "%s:%s" % (section, fn_name.split("/")[0])     # "/..." = parameter variant of the same function
    try:
        fn, args, watched, suffix = BUILDERS[section](fn_name, descr)
    except Exception:
        col.fail(base + ":cannot-build-input", case, traceback.format_exc()[-500:])
        return
    _frame(col, base, suffix, case, fn, args, watched)


def _frame(col, base, suffix, case, fn, args, watched, tolerate_exception=False):
    s0 = snap(watched)
    try:
        r1 = fn(*args)
        sr1 = snap(r1)
    except Exception as e:
        if not tolerate_exception:      # (tolerated where applicability of fn to the value is not known beforehand)
            col.fail(base + ":exception:" + type(e).__name__ + suffix, case, traceback.format_exc()[-500:])
        s1 = snap(watched)
        col.check(s1 == s0, base + ":input-modified" + suffix, case,
                  "argument changed by a call that raised: " + first_diff(s0, s1))
        return False
    s1 = snap(watched)
    if not col.check(s1 == s0, base + ":input-modified" + suffix, case, "argument changed by the call: " + first_diff(s0, s1)):
        return False
    try:
        r2 = fn(*args)
        sr2 = snap(r2)
    except Exception as e:
        col.fail(base + ":second-call-raises:" + type(e).__name__ + suffix, case, traceback.format_exc()[-500:])
        return False
    ok = col.check(sr1 == sr2, base + ":second-call-differs" + suffix, case,
                   "f(x) != f(x) on the same arguments: " + first_diff(sr1, sr2))
    s2 = snap(watched)
    ok = col.check(s2 == s0, base + ":input-modified" + suffix, case,
                   "argument changed by the second call: " + first_diff(s0, s2)) and ok
    return ok


# ----------------------------------------------------------------------------------------------------------------
# section "text": text / number conversion (bionumpy.io.strops)
# ----------------------------------------------------------------------------------------------------------------

INT_POOL = ["0", "7", "-3", "+5", "12", "-120", "+45", "007"]
FLOAT_POOL = ["1.5", "-2.25", "10", "-7", "0.5", "-0.125", "1e3", "-2.5e-2", "1.5e+2", "-3e0"]
TEXT_FORMS = ("contig", "view")


def _ragged_text(tokens, form):
    import bionumpy as bnp
    if form == "contig":
        x = bnp.as_encoded_array(list(tokens))
        return x, [x]
    base = bnp.as_encoded_array(["9"] + list(tokens) + ["8"])
    x = base[1:-1]
    return x, [x, base]


def build_text(fn_name, d):
    import numpy as np
    import bionumpy as bnp
    from npstructures import RaggedArray
    from bionumpy.io import strops
    name = fn_name.split("/")[0]
    if name in ("str_to_int", "str_to_float", "str_to_int_with_missing", "str_to_float_with_missing"):
        if d.get("form") == "2d":
            w = len(d["tokens"][0])
            x = bnp.as_encoded_array("".join(d["tokens"])).reshape(-1, w)
            return getattr(strops, name), (x,), [x], ""
        if d.get("form") == "2d-view":
            w = len(d["tokens"][0])
            base = bnp.as_encoded_array("9" * w + "".join(d["tokens"]) + "8" * w).reshape(-1, w)
            x = base[1:-1]
            return getattr(strops, name), (x,), [x, base], ""
        x, watched = _ragged_text(d["tokens"], d["form"])
        return getattr(strops, name), (x,), watched, ""
    if name == "ints_to_strings":
        x = np.array(d["ints"], dtype=int)
        return strops.ints_to_strings, (x,), [x], ""
    if name == "float_to_strings":
        x = np.array(d["floats"], dtype=float)
        return strops.float_to_strings, (x,), [x], ""
    if name == "int_lists_to_strings":
        x = RaggedArray([list(r) for r in d["rows"]])
        return (lambda a: strops.int_lists_to_strings(a, sep=d["sep"], keep_last=d["keep_last"])), (x,), [x], ""
    if name == "join":
        x, watched = _ragged_text(d["tokens"], d["form"])
        return (lambda a: strops.join(a, sep=d["sep"], keep_last=d["keep_last"])), (x,), watched, ""
    if name == "split":
        # split() reads one byte past the end of its argument (unsafe_extend_right): give it a parent to look into
        base = bnp.as_encoded_array(d["text"] + "#")
        x = base[:-1]
        return (lambda a: strops.split(a, sep=d["sep"])), (x,), [x, base], ""
    if name == "str_equal":
        x, watched = _ragged_text(d["tokens"], d["form"])
        if "other" in d:
            y, w2 = _ragged_text(d["other"], d["form"])
            return strops.str_equal, (x, y), watched + w2, ""
        return (lambda a: strops.str_equal(a, d["match"])), (x,), watched, ""
    raise KeyError(fn_name)


def _tuples(pool, nmax):
    for n in range(1, nmax + 1):
        for t in itertools.product(pool, repeat=n):
            yield list(t)


def cases_text(tier, rng):
    full = tier != "quick"
    int_lists = list(_tuples(INT_POOL, 3 if full else 2))
    float_lists = list(_tuples(FLOAT_POOL, 2))
    if not full:
        int_lists += [rng.sample(INT_POOL, 3) for _ in range(20)] + [INT_POOL]
        float_lists += [rng.sample(FLOAT_POOL, 3) for _ in range(20)] + [FLOAT_POOL]
    else:
        float_lists += [rng.sample(FLOAT_POOL, 3) for _ in range(300)] + [FLOAT_POOL]
        int_lists += [INT_POOL]
    n_missing, n_misc = (200, 150) if full else (30, 30)
    for form in TEXT_FORMS:
        step = 1 if (full or form == "contig") else 4      # quick: the sliced-view form on every 4th list only
        for t in int_lists[::step]:
            yield "str_to_int", {"tokens": t, "form": form}
        for t in float_lists[::step]:
            yield "str_to_float", {"tokens": t, "form": form}
        # missing values: empty fields, and the all-'.' shortcut
        for t in int_lists[:n_missing:step]:
            for k in range(len(t) + 1):
                yield "str_to_int_with_missing", {"tokens": t[:k] + [""] + t[k:], "form": form}
            yield "str_to_int_with_missing", {"tokens": t, "form": form}
        for t in float_lists[:n_missing:step]:
            for k in range(len(t) + 1):
                yield "str_to_float_with_missing", {"tokens": t[:k] + [""] + t[k:], "form": form}
            yield "str_to_float_with_missing", {"tokens": t, "form": form}
        for n in (1, 2, 3):
            yield "str_to_int_with_missing", {"tokens": ["."] * n, "form": form}
            yield "str_to_float_with_missing", {"tokens": ["."] * n, "form": form}
        for t in int_lists[:n_misc:step]:
            for sep, keep in (("\t", False), ("\t", True), (",", False)):
                yield "join", {"tokens": t, "form": form, "sep": sep, "keep_last": keep}
            yield "str_equal", {"tokens": t, "form": form, "match": t[-1]}
            yield "str_equal", {"tokens": t, "form": form, "match": "-3"}
            yield "str_equal", {"tokens": t, "form": form, "other": list(reversed(t))}
    # fixed-width digit matrices (the non-ragged path of str_to_int)
    for w in (1, 2, 3):
        for rows in (1, 2, 3):
            toks = [("%0" + str(w) + "d") % ((7 * i + 3 * w) % 10 ** w) for i in range(rows)]
            yield "str_to_int", {"tokens": toks, "form": "2d"}
            yield "str_to_int", {"tokens": toks, "form": "2d-view"}
    ints = [0, 7, -3, 12, -120, 99, 100, -1, 1000]
    for t in _tuples(ints, 2 if not full else 3):
        yield "ints_to_strings", {"ints": t}
    floats = [0.0, 1.5, -2.25, 1000.0, -0.025, 1e-07]
    for t in _tuples(floats, 2):
        yield "float_to_strings", {"floats": t}
    rows_pool = [[1], [10, 20], [0, 5, 100], [7, 7]]
    for t in _tuples(rows_pool, 2):
        for sep, keep in ((",", False), (",", True), ("", False)):
            yield "int_lists_to_strings", {"rows": t, "sep": sep, "keep_last": keep}
    for text in ("1", "1,2", "10,20,", ",1", "1,,2", "a;b,c", "-1,+2,3e1"):
        for sep in (",", [",", ";"]):
            yield "split", {"text": text, "sep": sep}


# ----------------------------------------------------------------------------------------------------------------
# registries (filled by the sections below)
# ----------------------------------------------------------------------------------------------------------------

BUILDERS = {"text": build_text}
CASES = {"text": cases_text}


# ----------------------------------------------------------------------------------------------------------------
# section "seq": sequence functions and encoding changes
# ----------------------------------------------------------------------------------------------------------------

SEQ_POOL = ["ACGT", "GATTACA", "ACGTAC", "TTTGGG", "AAC", "CCCCCCCCC", "acgtac", "TGCATGCAT"]
SEQ_FORMS = ("base", "dna", "base-view", "dna-view")


def _seq_arg(seqs, form):
    """returns (argument, watched objects)"""
    import bionumpy as bnp
    kind, _, view = form.partition("-")
    if kind == "flat":                       # one sequence as a 1-d EncodedArray: form "flat-base" / "flat-dna"
        enc = bnp.DNAEncoding if view == "dna" else None
        x = bnp.as_encoded_array(seqs[0], enc) if enc is not None else bnp.as_encoded_array(seqs[0])
        return x, [x]
    enc = {"base": None, "dna": bnp.DNAEncoding, "tcag": bnp.encodings.AlphabetEncoding("TCAG")}[kind]
    rows = list(seqs) if not view else ["TT"] + list(seqs) + ["GGG"]
    base = bnp.as_encoded_array(rows) if enc is None else bnp.as_encoded_array(rows, enc)
    if not view:
        return base, [base]
    x = base[1:-1]
    return x, [x, base]


def _pwm():
    from bionumpy.sequence import PWM
    return PWM.from_dict({"A": [1., 2.], "C": [0.5, 1.], "G": [3., 1.], "T": [0.5, 0.5]})


def _seq_functions():
    import numpy as np
    import bionumpy as bnp
    from bionumpy import sequence as S
    from bionumpy.sequence.translate import Translate
    from bionumpy.encodings import AlphabetEncoding
    acgtn = bnp.encodings.ACGTnEncoding
    F = {
        # name: (callable, minimal row length, forms, extra row filter)
        "get_reverse_complement": (S.get_reverse_complement, 0, SEQ_FORMS, None),
        "get_kmers/k1": (lambda x: S.get_kmers(x, 1), 1, SEQ_FORMS, None),
        "get_kmers/k3": (lambda x: S.get_kmers(x, 3), 3, SEQ_FORMS, None),
        "count_kmers/k2": (lambda x: S.count_kmers(x, 2), 2, ("dna", "dna-view"), None),
        "get_minimizers/k2w3": (lambda x: S.get_minimizers(x, 2, 3), 4, ("dna", "dna-view"), None),
        "count_encoded": (lambda x: S.count_encoded(x), 0, ("dna", "dna-view"), None),
        "count_encoded/flat": (lambda x: S.count_encoded(x.ravel(), axis=None), 0, ("dna",), None),
        "match_string": (lambda x: S.match_string(x, "AC"), 2, SEQ_FORMS, None),
        "get_motif_scores": (lambda x: S.get_motif_scores(x, _pwm()), 2, SEQ_FORMS, None),
        "translate_dna_to_protein": (S.translate_dna_to_protein, 3, ("base", "base-view"), lambda r: len(r) % 3 == 0),
        "Translate.windowed": (lambda x: Translate().windowed(x), 3, ("base", "base-view", "tcag", "tcag-view"), lambda r: len(r) % 3 == 0),
        "change_encoding/to-base": (lambda x: bnp.change_encoding(x, bnp.BaseEncoding), 0, ("dna", "dna-view", "base"), None),
        "change_encoding/to-dna": (lambda x: bnp.change_encoding(x, bnp.DNAEncoding), 0, ("base", "base-view"), None),
        "as_encoded_array/dna": (lambda x: bnp.as_encoded_array(x, bnp.DNAEncoding), 0, SEQ_FORMS, None),
        "as_encoded_array/acgtn": (lambda x: bnp.as_encoded_array(x, acgtn), 0, SEQ_FORMS, None),
        "DNAEncoding.encode": (lambda x: bnp.DNAEncoding.encode(x), 0, ("base", "base-view"), None),
        "DNAEncoding.decode": (lambda x: bnp.DNAEncoding.decode(x), 0, ("dna", "dna-view"), None),
        "str_equal": (lambda x: bnp.str_equal(x, "ACGTAC"), 0, SEQ_FORMS, None),
        "ragged_slice": (lambda x: bnp.ragged_slice(x, np.zeros(len(x), dtype=int) + 1, np.asarray(x.lengths)), 1, SEQ_FORMS, None),
        "concatenate": (lambda x: np.concatenate([x, x]), 0, SEQ_FORMS, None),
        "equal": (lambda x: x == "A", 0, SEQ_FORMS, None),
        "reverse-columns": (lambda x: x[:, ::-1], 0, SEQ_FORMS, None),
        "column-slice": (lambda x: x[:, 1:], 1, SEQ_FORMS, None),
        "tolist": (lambda x: x.tolist(), 0, SEQ_FORMS, None),
        "copy": (lambda x: x.copy(), 0, SEQ_FORMS, None),
        "raw": (lambda x: x.raw(), 0, SEQ_FORMS, None),
        "str": (lambda x: str(x), 0, SEQ_FORMS, None),
        "translate_dna_to_protein@SequenceEntry": (None, 3, ("base",), lambda r: len(r) % 3 == 0),
        "get_reverse_complement@SequenceEntry": (None, 0, ("base", "dna"), None),
        # 1-d arrays
        "get_reverse_complement@flat": (S.get_reverse_complement, 0, ("flat-base", "flat-dna"), None),
        "get_kmers@flat/k2": (lambda x: S.get_kmers(x, 2), 2, ("flat-base", "flat-dna"), None),
        "match_string@flat": (lambda x: S.match_string(x, "AC"), 2, ("flat-base", "flat-dna"), None),
        "change_encoding@flat": (lambda x: bnp.change_encoding(x, bnp.BaseEncoding), 0, ("flat-dna",), None),
        "as_encoded_array@flat/dna": (lambda x: bnp.as_encoded_array(x, bnp.DNAEncoding), 0, ("flat-base", "flat-dna"), None),
        "to_string@flat": (lambda x: x.to_string(), 0, ("flat-base", "flat-dna"), None),
        "reverse@flat": (lambda x: x[::-1], 0, ("flat-base", "flat-dna"), None),
        "Translate.call@flat": (lambda x: Translate()(bnp.as_encoded_array(x, AlphabetEncoding("TCAG")).reshape(-1, 3)), 3,
                                ("flat-base",), lambda r: len(r) % 3 == 0),
        "str_equal@flat": (lambda x: bnp.str_equal(x, "ACGT"), 0, ("flat-base", "flat-dna"), None),
        "hash@flat": (lambda x: hash(x), 0, ("flat-base", "flat-dna"), None),
    }
    return F


def build_seq(fn_name, d):
    import bionumpy as bnp
    from bionumpy import sequence as S
    F = _seq_functions()
    fn = F[fn_name][0]
    x, watched = _seq_arg(d["seqs"], d["form"])
    if fn_name.endswith("@SequenceEntry"):
        names = ["s%d" % i for i in range(len(d["seqs"]))]
        entry = bnp.SequenceEntry(names, x)
        f = S.translate_dna_to_protein if fn_name.startswith("translate") else S.get_reverse_complement
        return f, (entry,), [entry] + watched, ""
    return fn, (x,), watched, ""


def cases_seq(tier, rng):
    full = tier != "quick"
    F = _seq_functions()
    lists = [[s] for s in SEQ_POOL] + [list(t) for t in itertools.product(SEQ_POOL, repeat=2)]
    if not full:
        lists = lists[:8] + [lists[i] for i in range(8, len(lists), 9)] + [SEQ_POOL[:4]]
    else:
        lists += [SEQ_POOL, SEQ_POOL[::-1]]
    for name, (fn, minlen, forms, flt) in F.items():
        for form in forms:
            for seqs in lists:
                if form.startswith("flat") and len(seqs) != 1:
                    continue
                if any(len(r) < minlen for r in seqs) or (flt and not all(flt(r) for r in seqs)):
                    continue
                if not full and form.endswith("-view") and len(seqs) == 1 and seqs[0] not in ("ACGTAC", "acgtac"):
                    continue
                yield name, {"seqs": seqs, "form": form}
    # genotype text rows -> genotype encodings (tab- and newline-terminated rows)
    for enc in ("GenotypeRowEncoding", "PhasedGenotypeRowEncoding", "PhasedHaplotypeRowEncoding"):
        for term in ("\t", "\n"):
            for rows in ([["0|1", "1|1"]], [["0|0", "0|1", "1|0"], ["1|1", "0|1", "0|0"]], [["1|0"], ["0|0"], ["1|1"]]):
                for form in ("contig", "view", "3d"):
                    yield "genotype_encode/" + enc, {"rows": rows, "term": term, "form": form}


def build_genotype(fn_name, d):
    import bionumpy as bnp
    from bionumpy.encodings import vcf_encoding
    enc = getattr(vcf_encoding, fn_name.split("/")[1])
    texts = ["\t".join(r) + d["term"] for r in d["rows"]]
    suffix = ":newline-terminated-rows" if d["term"] == "\n" and d["form"] != "3d" else ""
    if d["form"] == "3d":     # what the VCF matrix buffers pass: n_rows x n_samples x 3 characters
        x = bnp.as_encoded_array("".join("".join(r) for r in d["rows"])).reshape(len(d["rows"]), -1, 3)
        return enc.encode, (x,), [x], ""
    x, watched = _ragged_text(texts, d["form"])
    return enc.encode, (x,), watched, suffix


def build_seq_any(fn_name, d):
    if fn_name.startswith("genotype_encode/"):
        return build_genotype(fn_name, d)
    return build_seq(fn_name, d)


BUILDERS["seq"] = build_seq_any
CASES["seq"] = cases_seq


# ----------------------------------------------------------------------------------------------------------------
# section "interval": interval arithmetic on tables of one chromosome
# ----------------------------------------------------------------------------------------------------------------

def _interval_table(ivs, typ, chrom="chr1"):
    import bionumpy as bnp
    from bionumpy.datatypes import Interval, Bed6, BedGraph
    n = len(ivs)
    starts, stops = [a for a, _ in ivs], [b for _, b in ivs]
    if typ == "Interval":
        return Interval([chrom] * n, starts, stops)
    if typ == "BedGraph":
        return BedGraph([chrom] * n, starts, stops, [0.5 * (i + 1) * (-1) ** i for i in range(n)])
    return Bed6([chrom] * n, starts, stops, ["n%d" % i for i in range(n)], [(-1) ** i * (i + 2) for i in range(n)],
                ["+-"[(i + a) % 2] for i, (a, _) in enumerate(ivs)])


INTERVAL_OTHERS = ([[0, 2], [3, 5]], [[1, 4]], [[0, 1], [1, 2], [4, 5]])


def _interval_functions():
    from bionumpy import arithmetics as A
    from bionumpy.arithmetics import intervals as I
    one = {
        "merge_intervals/d0": lambda t, S: A.merge_intervals(t),
        "merge_intervals/d1": lambda t, S: A.merge_intervals(t, distance=1),
        "merge_intervals/d2": lambda t, S: A.merge_intervals(t, distance=2),
        "sort_intervals": lambda t, S: A.sort_intervals(t[::-1]),
        "sort_intervals/direct": lambda t, S: A.sort_intervals(t),
        "get_pileup": lambda t, S: A.get_pileup(t, S),
        "get_boolean_mask": lambda t, S: A.get_boolean_mask(t, S),
        "clip": lambda t, S: I.clip(t, S - 2),
        "clip/clipping": lambda t, S: I.clip(t, 3),      # table shifted by -2 (see build_interval): both ends get clipped
        "pileup": lambda t, S: I.pileup(t),
    }
    stranded = {"extend_to_size": lambda t, S: I.extend_to_size(t, 3, S)}
    two = {
        "intersect": lambda t, o, S: A.intersect(t, o),
        "unique_intersect": lambda t, o, S: A.unique_intersect(t, o, S),
        "count_overlap": lambda t, o, S: A.count_overlap(t, o),
    }
    return one, stranded, two


def build_interval(fn_name, d):
    one, stranded, two = _interval_functions()
    ivs = d["ivs"] if fn_name != "clip/clipping" else [[a - 2, b - 1] for a, b in d["ivs"]]
    t = _interval_table(ivs, d["type"])
    S = d["size"]
    if fn_name in two:
        o = _interval_table(d["other"], "Interval")
        return (lambda a, b: two[fn_name](a, b, S)), (t, o), [t, o], ""
    f = one.get(fn_name) or stranded[fn_name]
    return (lambda a: f(a, S)), (t,), [t], ""


def cases_interval(tier, rng):
    full = tier != "quick"
    P = 6 if full else 5
    pool = [[a, b] for a in range(P) for b in range(a + 1, P + 1)]
    lists = [list(c) for n in (1, 2, 3) for c in itertools.combinations_with_replacement(pool, n)]   # sorted on start
    if not full:
        lists = [l for l in lists if len(l) < 3] + rng.sample([l for l in lists if len(l) == 3], 25)
    one, stranded, two = _interval_functions()
    for ivs in lists:
        types = ("Interval", "Bed6") if (full or len(ivs) < 3) else ("Bed6",)
        for typ in types:
            for name in one:
                if not full and typ == "Interval" and len(ivs) == 2 and name not in ("merge_intervals/d0", "merge_intervals/d1", "get_boolean_mask"):
                    continue
                yield name, {"ivs": ivs, "type": typ, "size": P + 2}
            if typ == "Bed6":
                for name in stranded:
                    yield name, {"ivs": ivs, "type": typ, "size": P + 2}
        if full or len(ivs) < 3:
            for name in two:
                for o in (INTERVAL_OTHERS if (full or len(ivs) < 2) else INTERVAL_OTHERS[:1]):
                    yield name, {"ivs": ivs, "type": "Interval", "other": o, "size": P + 2}
    for name in ("merge_intervals/d0", "merge_intervals/d1", "get_pileup", "get_boolean_mask"):
        yield name, {"ivs": [], "type": "Interval", "size": P + 2}


BUILDERS["interval"] = build_interval
CASES["interval"] = cases_interval


# ----------------------------------------------------------------------------------------------------------------
# section "genomic": genomic-data methods (Genome, GenomicIntervals, GenomicArray, GenomicLocation)
# ----------------------------------------------------------------------------------------------------------------

GENOME = {"chr1": 8, "chr2": 5}
GENOMIC_POOL = [["chr1", 0, 2], ["chr1", 1, 4], ["chr1", 3, 8], ["chr1", 5, 6], ["chr2", 0, 3], ["chr2", 2, 5]]


def _genomic_table(entries, stranded):
    from bionumpy.datatypes import Interval, Bed6
    c, a, b = [e[0] for e in entries], [e[1] for e in entries], [e[2] for e in entries]
    if not stranded:
        return Interval(c, a, b)
    n = len(entries)
    return Bed6(c, a, b, ["n%d" % i for i in range(n)], list(range(n)), ["+-"[(i + a[i]) % 2] for i in range(n)])


def _genomic_functions():
    import numpy as np
    import bionumpy as bnp
    G = lambda: bnp.Genome.from_dict(dict(GENOME))
    F = {
        # on the table (the argument of Genome.get_intervals)
        "Genome.get_intervals": ("table", lambda t: G().get_intervals(t)),
        "Genome.get_intervals/stranded": ("table-s", lambda t: G().get_intervals(t, stranded=True)),
        "Genome.get_locations": ("loc-table", lambda t: G().get_locations(t)),
        # on GenomicIntervals
        "GenomicIntervals.get_pileup": ("gi", lambda gi: gi.get_pileup()),
        "GenomicIntervals.get_mask": ("gi", lambda gi: gi.get_mask()),
        "GenomicIntervals.sorted": ("gi", lambda gi: gi.sorted()),
        "GenomicIntervals.clip": ("gi", lambda gi: gi.clip()),
        "GenomicIntervals.get_data": ("gi", lambda gi: gi.get_data()),
        "GenomicIntervals.fields": ("gi", lambda gi: [gi.start, gi.stop, gi.chromosome]),
        "GenomicIntervals.getitem": ("gi", lambda gi: gi[::-1]),
        "GenomicIntervals.extended_to_size": ("gi-s", lambda gi: gi.extended_to_size(3)),
        "GenomicIntervals.get_location": ("gi-s", lambda gi: gi.get_location("start")),
        "GenomicIntervals.strand": ("gi-s", lambda gi: gi.strand),
        # on GenomicArray (+ GenomicIntervals)
        "GenomicArray.getitem": ("ga+gi", lambda ga, gi: ga[gi]),
        "GenomicArray.extract_intervals": ("ga+gi", lambda ga, gi: ga.extract_intervals(gi)),
        "GenomicArray.sum": ("ga", lambda ga: ga.sum()),
        "GenomicArray.to_dict": ("ga", lambda ga: ga.to_dict()),
        "GenomicArray.get_data": ("ga", lambda ga: ga.get_data()),
        "GenomicArray.add": ("ga", lambda ga: ga + 1),
        "GenomicArray.compare": ("ga", lambda ga: ga > 0),
        # on GenomicLocation
        "GenomicLocation.get_windows": ("loc", lambda loc: loc.get_windows(flank=2)),
        "GenomicLocation.sorted": ("loc", lambda loc: loc.sorted()),
        "GenomicLocation.fields": ("loc", lambda loc: [loc.position, loc.chromosome]),
    }
    return F


def build_genomic(fn_name, d):
    import bionumpy as bnp
    kind, f = _genomic_functions()[fn_name]
    genome = bnp.Genome.from_dict(dict(GENOME))
    stranded = kind.endswith("-s")
    t = _genomic_table(d["entries"], stranded)
    if kind in ("table", "table-s"):
        return f, (t,), [t], ""
    if kind in ("loc-table", "loc"):
        lt = bnp.LocationEntry([e[0] for e in d["entries"]], [e[1] for e in d["entries"]])
        if kind == "loc-table":
            return f, (lt,), [lt], ""
        loc = genome.get_locations(lt)
        return f, (loc,), [lt, loc], ""
    gi = genome.get_intervals(t, stranded=stranded)
    if kind in ("gi", "gi-s"):
        return f, (gi,), [t, gi], ""
    ga = gi.get_pileup()
    if kind == "ga":
        return f, (ga,), [t, gi, ga], ""
    return f, (ga, gi), [t, gi, ga], ""


def cases_genomic(tier, rng):
    full = tier != "quick"
    tables = [list(c) for n in (1, 2, 3) for c in itertools.combinations(GENOMIC_POOL, n)]
    if not full:
        tables = [t for t in tables if len(t) == 1] + [t for t in tables if len(t) > 1][::4]
    for name in _genomic_functions():
        for entries in tables:
            yield name, {"entries": entries}


BUILDERS["genomic"] = build_genomic
CASES["genomic"] = cases_genomic


# ----------------------------------------------------------------------------------------------------------------
# section "table": table (bnpdataclass) methods
# ----------------------------------------------------------------------------------------------------------------

TABLE_KINDS = ("Bed6", "SequenceEntry", "Bed12", "BedGraph")


def _table(kind, n):
    from bionumpy.datatypes import Bed6, SequenceEntry, Bed12, BedGraph
    chrom = ["chr2", "chr1", "chr10", "chr1"][:n]
    start = [5, 1, 7, 3][:n]
    stop = [9, 4, 8, 6][:n]
    name = ["b", "a", "ccc", "dd"][:n]
    score = [0, -1, 20, 3][:n]
    strand = ["+", "-", "+", "."][:n]
    if kind == "Bed6":
        return Bed6(chrom, start, stop, name, score, strand)
    if kind == "SequenceEntry":
        return SequenceEntry(name, ["ACGT", "GG", "TTTGGG", "A"][:n])
    if kind == "BedGraph":
        return BedGraph(chrom, start, stop, [1.5, -2.25, 1e3, -2.5e-2][:n])
    return Bed12(chrom, start, stop, name, score, strand, start, stop, ["0,0,255", "1,2,3", "0", "9,9,9"][:n], [2, 1, 3, 1][:n],
                 [[1, 2], [3], [1, 1, 1], [2]][:n], [[0, 2], [0], [0, 1, 2], [0]][:n])


def _index(idx, n):
    import numpy as np
    k = idx[0]
    if k == "slice":
        return slice(idx[1], idx[2], idx[3])
    if k == "mask":
        return np.array(idx[1], dtype=bool)
    if k == "list":
        return list(idx[1])
    if k == "array":
        return np.array(idx[1], dtype=int)
    return int(idx[1])


def _table_functions():
    import numpy as np
    import bionumpy as bnp
    from bionumpy.datatypes import Interval
    first = lambda t: dataclasses.fields(t)[0].name
    F = {
        "concatenate": lambda t: np.concatenate([t, t]),
        "replace": lambda t: bnp.replace(t, **{first(t): getattr(t, first(t))[::-1]}),
        "dataclasses.replace": lambda t: dataclasses.replace(t, **{first(t): getattr(t, first(t))[::-1]}),
        "sort_by": lambda t: t.sort_by("start") if hasattr(t, "start") else t.sort_by("name"),
        "tolist": lambda t: t.tolist(),
        "toiter": lambda t: list(t.toiter()),
        "todict": lambda t: t.todict(),
        "topandas": lambda t: t.topandas(),
        "from_data_frame": lambda t: type(t).from_data_frame(t.topandas()),
        "iter": lambda t: list(t),
        "str": lambda t: str(t),
        "repr": lambda t: repr(t),
        "len": lambda t: len(t),
        "eq": lambda t: t == t,
        "shallow_tuple": lambda t: t.shallow_tuple(),
        "add_fields": lambda t: t.add_fields({"extra": list(range(len(t)))}),
        "astype": lambda t: t.astype(Interval) if hasattr(t, "stop") else t.astype(type(t)),
        "from_entry_tuples": lambda t: type(t).from_entry_tuples([dataclasses.astuple(e) for e in t.tolist()]),
    }
    return F


def build_table(fn_name, d):
    t = _table(d["kind"], d["n"])
    if fn_name == "getitem":
        idx = _index(d["index"], d["n"])
        return (lambda a, i: a[i]), (t, idx), [t, idx], ""
    if fn_name == "getitem+setattr":
        # explicit assignment on the RESULT of indexing (another object than the table, also when the index keeps every row)
        idx = _index(d["index"], d["n"])
        col_name = "start" if hasattr(t, "start") else dataclasses.fields(t)[0].name

        def index_then_assign(a, i):
            r = a[i]
            v = getattr(r, col_name)
            setattr(r, col_name, v + 1 if col_name == "start" else v[::-1])
            return r
        return index_then_assign, (t, idx), [t, idx], ""
    return _table_functions()[fn_name], (t,), [t], ""


def cases_table(tier, rng):
    full = tier != "quick"
    for kind in TABLE_KINDS:
        for n in ((1, 2, 3, 4) if full else (1, 3)):
            for name in _table_functions():
                if name == "sort_by" and kind == "SequenceEntry":
                    continue          # argsort of a text column is not supported by the library
                yield name, {"kind": kind, "n": n}
            idxs = [["slice", a, b, c] for a in (None, 0, 1) for b in (None, n, n - 1) for c in (None, 2, -1)]
            idxs += [["mask", list(m)] for m in itertools.product((False, True), repeat=n)]
            idxs += [["list", list(p)] for k in (1, 2) for p in itertools.permutations(range(n), k)]
            idxs += [["array", [n - 1, 0]], ["int", 0], ["int", n - 1], ["int", -1]]
            all_idxs = idxs
            if not full:
                idxs = idxs[::3]
            for idx in idxs:
                yield "getitem", {"kind": kind, "n": n, "index": idx}
            # assignment to a column of table[index] leaves the table alone - every boolean mask (the one that keeps every
            # row included), the index lists / arrays that keep every row, (thorough) every other index that gives a table
            keep_all = [["list", list(range(n))], ["array", list(range(n))], ["slice", 0, n, None], ["slice", None, None, None]]
            for idx in ([i for i in all_idxs if i[0] != "int" and i not in keep_all] if full else
                        [i for i in all_idxs if i[0] == "mask"]) + keep_all:
                yield "getitem+setattr", {"kind": kind, "n": n, "index": idx}


BUILDERS["table"] = build_table
CASES["table"] = cases_table


# ----------------------------------------------------------------------------------------------------------------
# section "chunk": lazily read file chunks of every text format
# ----------------------------------------------------------------------------------------------------------------

_VCF_HEADER = ("##fileformat=VCFv4.2\n"
               "##INFO=<ID=DP,Number=1,Type=Integer,Description=\"d\">\n"
               "##INFO=<ID=AF,Number=A,Type=Float,Description=\"a\">\n"
               "##INFO=<ID=AC,Number=A,Type=Integer,Description=\"a\">\n"
               "##INFO=<ID=DB,Number=0,Type=Flag,Description=\"f\">\n"
               "##INFO=<ID=QD,Number=1,Type=Float,Description=\"q\">\n"
               "##FORMAT=<ID=GT,Number=1,Type=String,Description=\"g\">\n")
_VCF_COLS = "#CHROM\tPOS\tID\tREF\tALT\tQUAL\tFILTER\tINFO"
_GT_LINES = ["chr1\t10\trs1\tA\tT\t50\tPASS\tDP=10;AF=0.5\tGT\t0|1\t1|1",
             "chr1\t20\t.\tAC\tA\t.\t.\tDP=7;AF=1e-2\tGT\t1|0\t0|0",
             "chr2\t5\trs3\tG\tC\t1.5\tq10\tDP=1;AF=0.25\tGT\t1|1\t0|1"]

# format name -> (file extension, buffer type ("module:attr", "custom:<name>" or None = chosen by extension), header, pool of lines)
FORMATS = {
    "bed": (".bed", None, "", ["chr1\t10\t100", "chr1\t20\t30", "chr2\t5\t7", "chr2\t0\t1000"]),
    "bed6": (".bed", "bionumpy.io.delimited_buffers:Bed6Buffer", "",
             ["chr1\t10\t100\tn1\t5\t+", "chr2\t5\t200\tname2\t-7\t-", "chr2\t6\t8\tn3\t+12\t.", "chr3\t0\t1\tx\t0\t+"]),
    "bed12": (".bed", "bionumpy.io.delimited_buffers:Bed12Buffer", "",
              ["chr1\t10\t100\tn1\t5\t+\t10\t100\t0,0,255\t2\t10,20\t0,50",
               "chr2\t5\t200\tn2\t-7\t-\t20\t200\t1,2,3\t3\t1,2,3\t0,10,20",
               "chr2\t6\t8\tn3\t0\t.\t6\t8\t0\t1\t2\t0"]),
    "bed12-trailing-comma": (".bed", "bionumpy.io.delimited_buffers:Bed12Buffer", "",
                             ["chr1\t10\t100\tn1\t5\t+\t10\t100\t0,0,255\t2\t10,20,\t0,50,",
                              "chr2\t5\t200\tn2\t7\t-\t20\t200\t1,2,3\t2\t1,2,\t0,10,"]),
    "bdg": (".bdg", None, "", ["chr1\t0\t10\t1.5", "chr1\t10\t20\t-2.25", "chr2\t0\t5\t1e3", "chr2\t5\t6\t-2.5e-2"]),
    "narrowPeak": (".narrowPeak", None, "",
                   ["chr1\t10\t100\tp1\t5\t+\t1.5\t-1\t2.5e1\t7", "chr2\t5\t200\tp2\t7\t.\t3\t4.25\t-1\t-1",
                    "chr2\t300\t400\tpeak3\t1000\t-\t1e-2\t-1.5e0\t0.5\t50"]),
    "sam": (".sam", None, "@HD\tVN:1.0\n@SQ\tSN:chr1\tLN:100\n",
            ["r1\t0\tchr1\t10\t60\t4M\t*\t0\t0\tACGT\tIIII\tNM:i:0", "r2\t16\tchr1\t20\t30\t2M1I1M\t=\t5\t-7\tGGCA\t!!I#\tNM:i:1",
             "read3\t99\tchr1\t7\t0\t3M\t=\t30\t+26\tTTT\t###\tAS:i:-3"]),
    "fastq": (".fq", None, "", ["@r1\nACGT\n+\nIIII", "@r2 d\nGGC\n+\n!#I", "@read3\nT\n+\n5"]),
    # sequences of whole codons: translate_dna_to_protein applies to these chunks (multi-step histories)
    "fastq-codons": (".fq", None, "", ["@r1\nACGTAC\n+\nIIIIII", "@r2 d\nGGC\n+\n!#I", "@read3\nTTTGGGAAA\n+\n555555555"]),
    "gfa": (".gfa", None, "", ["S\t1\tACGT", "S\t2\tGG", "S\tnode3\tTTTA"]),
    "sizes": (".sizes", None, "", ["chr1\t100", "chr2\t50", "chrX\t7"]),
    "pairs": (".pairs", None, "## pairs format v1.0\n#columns: readID chr1 pos1 chr2 pos2 strand1 strand2\n",
              ["r1\tchr1\t10\tchr2\t20\t+\t-", "r2\tchr1\t15\tchr1\t25\t-\t+", "read3\tchr2\t1\tchr2\t1000\t+\t+"]),
    "vcf": (".vcf", None, _VCF_HEADER + _VCF_COLS + "\n",
            ["chr1\t10\trs1\tA\tT\t50\tPASS\tDP=10;AF=0.5;AC=1;DB;QD=1.5",
             "chr1\t20\t.\tAC\tA,G\t.\t.\tDP=7;AF=0.25,1e-2;AC=2,3;QD=-2.5e-1",
             "chr2\t5\trs3\tG\tC\t1.5\tq10\tDP=1;AF=1.5e-1;AC=10;DB;QD=-3"]),
    "vcf-noheader": (".vcf", None, "", ["chr1\t10\trs1\tA\tT\t50\tPASS\tDP=10", "chr1\t20\t.\tAC\tA,G\t.\t.\tDP=7;DB"]),
    "vcf-info-string": (".vcf", "bionumpy.io.vcf_buffers:VCFWithInfoAsStringBuffer", _VCF_HEADER + _VCF_COLS + "\n",
                        ["chr1\t10\trs1\tA\tT\t50\tPASS\tDP=10;AF=0.5", "chr1\t20\t.\tAC\tA,G\t.\t.\tDP=7;DB", "chr2\t1\tx\tG\tC\t1.5\tq10\tDP=3"]),
    "vcf-gt": (".vcf", None, _VCF_HEADER + _VCF_COLS + "\tFORMAT\tS1\tS2\n", _GT_LINES),
    "vcf-gt-matrix": (".vcf", "bionumpy.io.vcf_buffers:VCFMatrixBuffer", _VCF_HEADER + _VCF_COLS + "\tFORMAT\tS1\tS2\n",
                      _GT_LINES + ["chr2\t9\t.\tT\tG\t.\t.\tDP=2;AF=0.5\tGT\t./.\t0/1"]),
    "vcf-gt-phased": (".vcf", "bionumpy.io.vcf_buffers:PhasedVCFMatrixBuffer", _VCF_HEADER + _VCF_COLS + "\tFORMAT\tS1\tS2\n", _GT_LINES),
    "vcf-gt-haplotype": (".vcf", "bionumpy.io.vcf_buffers:PhasedHaplotypeVCFMatrixBuffer", _VCF_HEADER + _VCF_COLS + "\tFORMAT\tS1\tS2\n", _GT_LINES),
    "vcf-gt-strings": (".vcf", "bionumpy.io.vcf_buffers:VCFBuffer2", _VCF_HEADER + _VCF_COLS + "\tFORMAT\tS1\tS2\n", _GT_LINES),
    "gtf": (".gtf", None, "", ['chr1\thavana\tgene\t11869\t14409\t.\t+\t.\tgene_id "G1"; gene_name "N1";',
                               'chr1\thavana\texon\t11869\t12227\t1.5\t-\t0\tgene_id "G1"; transcript_id "T1"; exon_id "E1";']),
    "gff": (".gff", None, "##gff-version 3\n", ["chr1\thavana\tgene\t11869\t14409\t.\t+\t.\tID=gene1;Name=N1",
                                                 "chr1\thavana\texon\t11869\t12227\t.\t-\t0\tID=e1;Parent=gene1"]),
    "fasta": (".fa", None, "", [">s1\nACGTAC\nGT", ">s2 d\nGG", ">s3\nTTTTTT\nAAAAAA\nC"]),
    "custom": (".tsv", "custom:Custom", "name\tival\tfval\toint\tofloat\tflag\tilist\tinttext\tfloattext\tdna\tsid\n",
               ["a\t-5\t-1.5\t7\t2.5\t1\t1,2\t-12\t1e3\tACGT\tid1", "bb\t+7\t2.5e-1\t\t\t0\t30\t+4\t-0.5\tGG\tid22",
                "ccc\t12\t10\t-3\t-1e1\t1\t5,6,7\t007\t2.5\tT\tx"]),
    "custom-lists": (".tsv", "custom:CustomF", "sid\tflist\tblist\tival\n",
                     ["id1\t1.5,-2e1\t101\t-3", "id2\t0.25\t0\t+4", "id3\t-1,2.5,1e2\t11\t50"]),
}

_CUSTOM_CACHE = {}


def _custom_buffer(name):
    if name not in _CUSTOM_CACHE:
        from typing import List, Optional
        import bionumpy as bnp
        from bionumpy.bnpdataclass import bnpdataclass
        from bionumpy.typing import SequenceID

        @bnpdataclass
        class Custom:
            name: str
            ival: int
            fval: float
            oint: Optional[int]
            ofloat: Optional[float]
            flag: bool
            ilist: List[int]
            inttext: str
            floattext: str
            dna: bnp.DNAEncoding
            sid: SequenceID

        @bnpdataclass
        class CustomF:
            sid: SequenceID
            flist: List[float]
            blist: List[bool]
            ival: int

        for cls in (Custom, CustomF):
            _CUSTOM_CACHE[cls.__name__] = bnp.io.get_bufferclass_for_datatype(cls, delimiter="\t", has_header=True)
    return _CUSTOM_CACHE[name]


def _buffer_type(fmt):
    spec = FORMATS[fmt][1]
    if spec is None:
        return None
    mod, attr = spec.split(":")
    if mod == "custom":
        return _custom_buffer(attr)
    import importlib
    return getattr(importlib.import_module(mod), attr)


def _file_bytes(fmt, lines, final_newline=True):
    ext, _, header, pool = FORMATS[fmt]
    data = (header + "".join(pool[i] + "\n" for i in lines)).encode()
    return data if final_newline else data[:-1]


class ChunkEnv:
    """one enumerated file: path, buffer type, baselines taken from FRESH chunks (one fresh read per observation)"""

    def __init__(self, tmp, fmt, lines, final_newline=True, with_modified=True):
        self.tmp, self.fmt, self.lines = tmp, fmt, list(lines)
        # final_newline=False: the file ends without line terminator - the reader then appends one and the chunk holds
        # the reader's own WRITABLE copy of the bytes (chunks of files that end with a newline are read-only)
        self.final_newline = final_newline
        self.sigfmt = fmt if final_newline else fmt + ":no-final-newline"
        self.ext = FORMATS[fmt][0]
        self.bt = _buffer_type(fmt)
        self.data = _file_bytes(fmt, lines, final_newline)
        self.path = os.path.join(tmp, "in_%s_%s%s%s" % (fmt, "_".join(map(str, lines)), "" if final_newline else "_nonl", self.ext))
        with open(self.path, "wb") as f:
            f.write(self.data)
        self._n = 0
        self._hist_base, self._settable = {}, None       # multi-step histories: baselines per step-1 history, assignable fields
        c = self.fresh()
        self.lazy = hasattr(c, "_itemgetter")
        self.n_entries = len(c)
        self.top = [f.name for f in dataclasses.fields(c)]
        self.paths, self.plain_top = [], []
        for name in self.top:
            try:
                v = getattr(c, name)
            except Exception:
                self.paths.append(name)
                continue
            if dataclasses.is_dataclass(v) and not isinstance(v, type):
                self.paths += [name + "." + g.name for g in dataclasses.fields(v)]
            else:
                self.paths.append(name)
                self.plain_top.append(name)
        self.V0 = {p: read_snap(self.fresh(), p) for p in self.paths}
        self.W0 = self.write(self.fresh())
        self.M0 = {}
        for k in (self.plain_top if with_modified else ()):
            if len(self.M0) >= 2:
                break
            if self.V0[k][0] == "raises":
                continue
            try:
                self.M0[k] = self.write_modified(self.fresh(), k)
            except Exception:
                pass            # this format cannot write a modified chunk at all: nothing to compare against

    def fresh(self):
        import bionumpy as bnp
        with bnp.open(self.path, buffer_type=self.bt) as f:
            return f.read_chunk()

    def write(self, chunk):
        import bionumpy as bnp
        self._n += 1
        out = os.path.join(self.tmp, "out%d%s" % (self._n % 4, self.ext))
        with bnp.open(out, "w", buffer_type=self.bt) as o:
            o.write(chunk)
        with open(out, "rb") as f:
            return f.read()

    def write_modified(self, chunk, k):
        import bionumpy as bnp
        return self.write(bnp.replace(chunk, **{k: getattr(chunk, k)}))


def read_field(chunk, path):
    v = chunk
    for part in path.split("."):
        v = getattr(v, part)
    return v


def read_snap(chunk, path):
    try:
        return ["value", snap(read_field(chunk, path))]
    except Exception as e:
        return ["raises", type(e).__name__]


def chunk_private_state(chunk):
    """bytes and offsets held by a WHOLE (contiguous) lazily read chunk - observation only, None when not available"""
    try:
        ex = chunk._itemgetter.buffer._buffer_extractor
        if not getattr(ex, "_is_contiguous", True):
            return None
        import numpy as np
        st = [bytes(np.asarray(ex._data.raw()).tolist()).decode("latin1")]
        for a in ("_field_starts", "_field_lens", "_entry_starts", "_entry_ends"):
            if hasattr(ex, a):
                st.append([a, np.asarray(getattr(ex, a)).tolist()])
        return st
    except Exception:
        return None


def _different_value(v):
    """a value of the same type and length with other contents (for replace / attribute assignment)"""
    import numpy as np
    if isinstance(v, np.ndarray) and v.dtype.kind in "iuf":
        return v + 1
    if isinstance(v, np.ndarray) and v.dtype.kind == "b":
        return ~v
    if len(v) > 1:
        return v[::-1]
    return None


GENERIC_TEXT_FUNCTIONS = ("str_equal", "equal", "concatenate", "reverse-columns", "tolist", "copy", "join", "change_encoding")


def _value_functions(env, path, v):
    """public functions to apply to a field value (which may be a view into the file buffer)"""
    import numpy as np
    import bionumpy as bnp
    from npstructures import RaggedArray
    from bionumpy.encoded_array import EncodedRaggedArray, EncodedArray
    from bionumpy.io import strops
    from bionumpy import sequence as S
    F = {}
    if isinstance(v, EncodedRaggedArray):
        if v.encoding == bnp.BaseEncoding:
            F["str_equal"] = lambda x: bnp.str_equal(x, "chr1")
            F["equal"] = lambda x: x == "A"
            F["join"] = lambda x: strops.join(x, sep="\t")
        F.update({
            "concatenate": lambda x: np.concatenate([x, x]),
            "reverse-columns": lambda x: x[:, ::-1],
            "tolist": lambda x: x.tolist(),
            "copy": lambda x: x.copy(),
        })
        if v.encoding == bnp.BaseEncoding:
            F["change_encoding"] = lambda x: bnp.change_encoding(x, bnp.BaseEncoding)
        leaf = path.split(".")[-1]
        if leaf in ("sequence", "dna", "ref_seq"):
            F["get_reverse_complement"] = S.get_reverse_complement
            F["get_kmers/k1"] = lambda x: S.get_kmers(x, 1)
            F["as_encoded_array/dna"] = lambda x: bnp.as_encoded_array(x, bnp.DNAEncoding)
            F["count_encoded"] = lambda x: S.count_encoded(bnp.as_encoded_array(x, bnp.DNAEncoding))
        if leaf == "inttext":
            F["str_to_int"] = strops.str_to_int
            F["str_to_int_with_missing"] = strops.str_to_int_with_missing
            F["str_to_float"] = strops.str_to_float
        if leaf == "floattext":
            F["str_to_float"] = strops.str_to_float
            F["str_to_float_with_missing"] = strops.str_to_float_with_missing
    elif isinstance(v, RaggedArray):
        F["ragged-sum"] = lambda x: x.sum(axis=-1)
        if np.asarray(v.ravel()).dtype.kind in "iu":
            F["int_lists_to_strings"] = lambda x: strops.int_lists_to_strings(x.astype(int), sep=",")
    elif isinstance(v, np.ndarray) and v.dtype.kind in "iu" and v.ndim == 1:
        F["ints_to_strings"] = strops.ints_to_strings
    elif isinstance(v, np.ndarray) and v.dtype.kind == "f" and v.ndim == 1:
        F["float_to_strings"] = strops.float_to_strings
    elif isinstance(v, EncodedArray):
        F["tolist"] = lambda x: x.tolist()
        F["equal"] = lambda x: x == x
    return F


def _table_functions_for_chunk(env):
    import numpy as np
    import bionumpy as bnp
    from bionumpy import arithmetics as A
    F = {
        "concatenate": lambda c: np.concatenate([c, c]),
        "tolist": lambda c: c.tolist(),
        "len": lambda c: len(c),
        "getitem-mask": lambda c: c[np.arange(len(c)) % 2 == 0],
        "getitem-reverse": lambda c: c[::-1],
    }
    if env.lazy:
        F["get_data_object"] = lambda c: c.get_data_object()
    if not env.fmt.startswith("vcf") and not env.fmt.startswith("custom-l"):
        F["topandas"] = lambda c: c.topandas()
    if env.fmt in ("bed", "bed6", "bdg", "narrowPeak"):
        F["sort_intervals"] = lambda c: A.sort_intervals(c)
        F["get_pileup"] = lambda c: A.get_pileup(c[:1], 2000)
        F["merge_intervals@one-row"] = lambda c: A.merge_intervals(c[:1], distance=3)
    if env.fmt in ("fastq", "fasta", "gfa"):
        F["get_reverse_complement"] = lambda c: bnp.sequence.get_reverse_complement(c)
    return F


def eval_chunk(col, env, scenario):
    """scenario: list, first element is its kind"""
    fmt = env.fmt
    case = {"section": "chunk", "format": fmt, "lines": env.lines, "scenario": scenario}
    if not env.final_newline:
        case["final_newline"] = False
    kind = scenario[0]
    sig = lambda what: "chunk:%s:%s" % (env.sigfmt, what)
    if kind in ("history", "history-chain"):
        # counted after the evaluation: a case whose second operation does not apply (it raised) is counted as trivial
        nontrivial = True
        try:
            nontrivial = _eval_history(col, env, scenario, case, sig) is not False
        except Exception as e:
            col.fail(sig(kind + ":exception:" + type(e).__name__), case, traceback.format_exc()[-600:])
        col.case(case, nontrivial=nontrivial, contract="chunk:" + kind)
        return
    col.case(case, contract="chunk:" + kind)
    try:
        _eval_chunk(col, env, scenario, case, sig)
    except Exception as e:
        col.fail(sig(kind + ":exception:" + type(e).__name__), case, traceback.format_exc()[-600:])


def _check_unchanged(col, env, B, p0, case, sig, why):
    """B (a whole chunk) still holds and writes what a fresh chunk holds and writes"""
    ok = True
    if p0 is not None:
        p1 = chunk_private_state(B)
        ok = col.check(p1 == p0, sig("buffer-changed-by-" + why), case,
                       "bytes/offsets held by the chunk changed: " + first_diff(p0, p1)) and ok
    W1 = env.write(B)
    ok = col.check(W1 == env.W0, sig("written-bytes-changed-by-" + why), case,
                   "chunk writes %r, a fresh chunk writes %r" % (W1[-200:], env.W0[-200:])) and ok
    return ok


KEEP_INDEX_KINDS = ("mask-all", "list-all", "array-all", "slice-0-n", "mask-tail", "mask-head")


def _keep_index(kind, n):
    """indices that keep every row of a chunk of n rows (and two masks that drop one row)"""
    import numpy as np
    return {"mask-all": lambda: np.ones(n, dtype=bool), "list-all": lambda: list(range(n)), "array-all": lambda: np.arange(n),
            "slice-0-n": lambda: slice(0, n), "mask-tail": lambda: np.arange(n) > 0, "mask-head": lambda: np.arange(n) < n - 1}[kind]()


def _eval_chunk(col, env, scenario, case, sig):
    import numpy as np
    import bionumpy as bnp
    kind = scenario[0]
    B = env.fresh()
    p0 = chunk_private_state(B)
    if kind == "fields":
        order = scenario[1]
        for p in order:
            got = read_snap(B, p)
            col.check(got == env.V0[p], sig("field-value-depends-on-access-history"), case,
                      "field %s after reading %r: %s" % (p, order, first_diff(env.V0[p], got)))
        for k, m0 in (env.M0.items() if (len(scenario) < 3 or scenario[2] != "no-modified-write") else ()):
            m1 = env.write_modified(B, k)
            col.check(m1 == m0, sig("modified-write-changed-by-field-access"), case,
                      "replace(%s) then write gives %r, on a fresh chunk %r" % (k, m1[-200:], m0[-200:]))
        if env.lazy:
            R = bnp.replace(B)             # same buffer, no cached values: fields are parsed again
            for p in order:
                got = read_snap(R, p)
                col.check(got == env.V0[p], sig("reread-differs-after-field-access"), case,
                          "field %s parsed again after %r: %s" % (p, order, first_diff(env.V0[p], got)))
            for p in order:
                if "." in p:               # nested lazy table (VCF info): parse the sub-field again from the SAME nested buffer
                    parent, leaf = p.rsplit(".", 1)
                    try:
                        nested = read_field(B, parent)
                    except Exception:
                        continue
                    if hasattr(nested, "_itemgetter"):
                        got = read_snap(bnp.replace(nested), leaf)
                        col.check(got == env.V0[p], sig("reread-differs-after-field-access"), case,
                                  "nested field %s parsed again after %r: %s" % (p, order, first_diff(env.V0[p], got)))
        _check_unchanged(col, env, B, p0, case, sig, "field-access")
    elif kind == "write-twice":
        for _ in range(2):
            _check_unchanged(col, env, B, p0, case, sig, "write")
        for k, m0 in env.M0.items():
            for _ in range(2):
                m1 = env.write_modified(B, k)
                col.check(m1 == m0, sig("modified-write-not-repeatable"), case, "replace(%s) then write: %r vs %r" % (k, m1[-200:], m0[-200:]))
        _check_unchanged(col, env, B, p0, case, sig, "write")
    elif kind == "slice":
        idx = _index(scenario[1], env.n_entries)
        S = B[idx]
        if len(S) == 0:
            _check_unchanged(col, env, B, p0, case, sig, "slicing")
            return
        w1 = env.write(S)
        _check_unchanged(col, env, B, p0, case, sig, "writing-a-slice")
        vals = {p: read_snap(S, p) for p in env.paths}
        w2 = env.write(S)
        col.check(w1 == w2, sig("slice-written-bytes-changed-by-field-access"), case, "%r then %r" % (w1[-200:], w2[-200:]))
        S2 = B[idx]
        for p in reversed(env.paths):
            got = read_snap(S2, p)
            col.check(got == vals[p], sig("slice-field-value-depends-on-access-history"), case,
                      "field %s of chunk[%r]: %s" % (p, scenario[1], first_diff(vals[p], got)))
        w3 = env.write(S2)
        col.check(w1 == w3, sig("slice-written-bytes-changed-by-field-access"), case, "%r then %r" % (w1[-200:], w3[-200:]))
        _check_unchanged(col, env, B, p0, case, sig, "writing-a-slice")
        for p in env.paths:
            got = read_snap(B, p)
            col.check(got == env.V0[p], sig("field-value-changed-by-slicing"), case, "field %s: %s" % (p, first_diff(env.V0[p], got)))
    elif kind in ("replace", "setattr-slice"):
        k = scenario[1]
        new = _different_value(read_field(env.fresh(), k))
        if new is None:
            return
        if kind == "replace":
            R = bnp.replace(B, **{k: new})
        else:
            R = B[:]
            setattr(R, k, new)             # explicit assignment - on ANOTHER object than B
        what = "replace" if kind == "replace" else "assignment-to-a-slice"
        got = read_snap(B, k)
        col.check(got == env.V0[k], sig("field-changed-by-" + what), case, "field %s of the original chunk: %s" % (k, first_diff(env.V0[k], got)))
        _check_unchanged(col, env, B, p0, case, sig, what)
        try:
            r1 = env.write(R)
        except Exception:
            r1 = None                      # this format cannot write modified chunks
        if r1 is not None:
            r2 = env.write(R)
            col.check(r1 == r2, sig("modified-write-not-repeatable"), case, "%r then %r" % (r1[-200:], r2[-200:]))
        _check_unchanged(col, env, B, p0, case, sig, what)
        for p in env.paths:
            got = read_snap(B, p)
            col.check(got == env.V0[p], sig("field-changed-by-" + what), case, "field %s: %s" % (p, first_diff(env.V0[p], got)))
    elif kind == "setattr-index":
        # explicit assignment on chunk[index] - ANOTHER object than the chunk, also when the index keeps every row.
        # (indexing a lazily read table does not depend on the format: one signature for all formats)
        k, ik = scenario[1], scenario[2]
        sig_i = lambda what: "chunk:any-format:" + what
        R = B[_keep_index(ik, env.n_entries)]
        if len(R) == 0:
            return
        new = _new_value(read_field(R, k))
        if new is None:
            return
        setattr(R, k, new)
        what = "assignment-to-an-indexed-copy"
        got = read_snap(B, k)
        col.check(got == env.V0[k], sig_i("field-changed-by-" + what), case,
                  "field %s of the original chunk after chunk[%s].%s = ...: %s" % (k, ik, k, first_diff(env.V0[k], got)))
        _check_unchanged(col, env, B, p0, case, sig_i, what)
        _use(env, R)
        _check_unchanged(col, env, B, p0, case, sig_i, what)
        for p in env.paths:
            got = read_snap(B, p)
            col.check(got == env.V0[p], sig_i("field-changed-by-" + what), case, "field %s: %s" % (p, first_diff(env.V0[p], got)))
    elif kind == "value-fn":
        p, fname = scenario[1], scenario[2]
        v = read_field(B, p)
        fn = _value_functions(env, p, v)[fname]
        _frame(col, "chunk:value-fn:" + fname.split("/")[0], ":field-of-lazy-chunk" + ("" if env.final_newline else ":no-final-newline"),
               case, fn, (v,), [v], tolerate_exception=True)
        _check_unchanged(col, env, B, p0, case, sig, "function-on-field-value")
        if env.lazy:
            got = read_snap(bnp.replace(B), p)
            col.check(got == env.V0[p], sig("reread-differs-after-function-on-field-value"), case, "field %s: %s" % (p, first_diff(env.V0[p], got)))
    elif kind == "write-eager":
        # the fully parsed (eager) table of the chunk is the argument of the writer
        T = B.get_data_object() if env.lazy else B
        _frame(col, "chunk:%s:write-eager-table" % env.fmt, "", case, env.write, (T,), [T], tolerate_exception=True)
        _check_unchanged(col, env, B, p0, case, sig, "writing-the-parsed-table")
    elif kind == "table-fn":
        fn = _table_functions_for_chunk(env)[scenario[1]]
        r1 = snap(fn(B))
        _check_unchanged(col, env, B, p0, case, sig, "table-function")
        r2 = snap(fn(B))
        col.check(r1 == r2, "chunk:table-fn:%s:second-call-differs" % scenario[1].split("@")[0], case, first_diff(r1, r2))
        r3 = snap(fn(env.fresh()))
        col.check(r1 == r3, "chunk:table-fn:%s:second-call-differs" % scenario[1].split("@")[0], case, "fresh chunk: " + first_diff(r1, r3))
        _check_unchanged(col, env, B, p0, case, sig, "table-function")
        for p in env.paths:
            got = read_snap(B, p)
            col.check(got == env.V0[p], sig("field-changed-by-table-function"), case, "field %s: %s" % (p, first_diff(env.V0[p], got)))
    else:
        raise KeyError(kind)


# ----------------------------------------------------------------------------------------------------------------
# multi-step histories: a second public operation on a lazily read chunk that ALREADY carries user-set values
#
#   step 1   T.f1 = new1  on a freshly read chunk           (mode "setattr"; explicit assignment, allowed to change T)
#            T = bnp.replace(chunk, f1=new1)                (mode "replace"; `chunk` is watched as well)
#   step 2   one public operation on T that is NOT an assignment on T: bnp.replace(T, f2=new2), functions implemented
#            through replace (get_reverse_complement, translate_dna_to_protein), indexing, np.concatenate, writing,
#            conversions, assignment on a SLICE of T ...
#   step 3   T is observed: every field, the bytes it writes, tolist().  They must be exactly what they were after step 1.
#
# "What they were after step 1" is taken from a twin: a second chunk read from the same file and taken through the same
# step 1 (with its own, equal new1), observed in the same order, never touched by step 2.  With the flag "observe-first" T
# itself is observed before step 2 and compared with itself afterwards.  Results of step 2 are never compared with an
# expected value; an operation that raises is tolerated (applicability to a modified chunk is not part of this property),
# the case is then counted as trivial - T must be unchanged all the same.
# ----------------------------------------------------------------------------------------------------------------

HISTORY_MODES = ("setattr", "replace")


def _new_value(v):
    """a value of the same type and length as the column v with other contents (None: there is none)"""
    import numpy as np
    if isinstance(v, np.ndarray) and v.dtype.kind in "iuf":
        return v + 1
    if isinstance(v, np.ndarray) and v.dtype.kind == "b":
        return ~v
    n = len(v)
    if n < 2:
        return None
    s0 = snap(v)
    for perm in (slice(None, None, -1), [(i + 1) % n for i in range(n)]):      # reversed rows; rotated when that is a palindrome
        try:
            w = v[perm]
        except Exception:
            continue
        if snap(w) != s0:
            return w
    return None


def _settable(env):
    """top-level columns of the format that can be read and for which a different value exists (file order)"""
    if env._settable is None:
        env._settable = []
        c = env.fresh()
        for k in env.plain_top:
            if env.V0[k][0] == "raises":
                continue
            try:
                if _new_value(read_field(c, k)) is not None:
                    env._settable.append(k)
            except Exception:
                pass
    return env._settable


def _history_start(env, mode, f1, read_first=False):
    """step 1 -> (source chunk or None, T, new1)"""
    import bionumpy as bnp
    c = env.fresh()
    if read_first:                         # every field parsed (and cached by the lazy table) before the assignment
        for p in env.paths:
            read_snap(c, p)
    new1 = _new_value(read_field(c, f1))   # the usual pattern: chunk.start = chunk.start + 1 / replace(chunk, start=chunk.start + 1)
    if new1 is None:
        return None, None, None
    if mode == "setattr":
        setattr(c, f1, new1)
        return None, c, new1
    return c, bnp.replace(c, **{f1: new1}), new1


def _observe(env, T, light=False):
    """everything the property lets a user see of a chunk: fields, written bytes, tolist()
    (light: the top-level columns and the written bytes only - nested INFO tables and tolist() left out)"""
    obs = [["field:" + p, read_snap(T, p)] for p in (env.plain_top if light else env.paths)]
    try:
        obs.append(["written-bytes", ["bytes", env.write(T).decode("latin1")]])
    except Exception as e:
        obs.append(["written-bytes", ["raises", type(e).__name__]])
    if light:
        return obs
    try:
        obs.append(["tolist", ["value", snap(T.tolist())]])
    except Exception as e:
        obs.append(["tolist", ["raises", type(e).__name__]])
    return obs


def _history_baseline(env, mode, f1, read_first, light):
    key = (mode, f1, bool(read_first), bool(light))
    if key not in env._hist_base:
        env._hist_base[key] = _observe(env, _history_start(env, mode, f1, read_first)[1], light)
    return env._hist_base[key]


def _compare_obs(col, case, fmt, op, base, got, what):
    """first observable that differs -> one failure.  Values held by the lazy table (fields, tolist) do not depend on the
    format: 'chunk:history:<op>:original-field-changed' / '-tolist-changed' for every format; the written bytes do:
    'chunk:<format>:history:<op>:original-written-bytes-changed'"""
    for (k, a), (_, b) in zip(base, got):
        if a != b:
            o = k.split(":")[0]
            signature = ("chunk:history:%s:original-%s-changed" % (op, o) if o != "written-bytes" else
                         "chunk:%s:history:%s:original-%s-changed" % (fmt, op, o))
            col.fail(signature, case, "%s, %s: %s" % (what, k, first_diff(a, b)))
            return False
    return True


def _use(env, R):
    """the object a second operation returned is used as well (written); whether that works is not checked here"""
    if hasattr(R, "_itemgetter"):
        try:
            env.write(R)
        except Exception:
            pass


def _history_ops(env):
    """second operations without a field argument: name -> f(T, twin) (twin() builds another chunk with the same history)"""
    import numpy as np
    import bionumpy as bnp
    n = env.n_entries
    F = {
        "replace-nothing": lambda T, twin: bnp.replace(T),
        "getitem/all": lambda T, twin: T[:],
        "getitem/tail": lambda T, twin: T[1:],
        "getitem/reverse": lambda T, twin: T[::-1],
        "getitem/mask": lambda T, twin: T[np.arange(n) % 2 == 0],
        "getitem/list": lambda T, twin: T[[n - 1, 0]],
        "getitem/int": lambda T, twin: T[0],
        "getitem/int-last": lambda T, twin: T[-1],
        "concatenate/same-history": lambda T, twin: np.concatenate([T, twin()]),
        "concatenate/with-itself": lambda T, twin: np.concatenate([T, T]),
        "concatenate/fresh-second": lambda T, twin: np.concatenate([T, env.fresh()]),
        "concatenate/fresh-first": lambda T, twin: np.concatenate([env.fresh(), T]),
        "write": lambda T, twin: env.write(T),
        "write/slice": lambda T, twin: env.write(T[1:]),
        "str": lambda T, twin: str(T),
        "repr": lambda T, twin: repr(T),
        "iter": lambda T, twin: list(T),
        "toiter": lambda T, twin: list(T.toiter()),
    }
    for name, f in _table_functions_for_chunk(env).items():
        if name not in ("concatenate", "getitem-mask", "getitem-reverse"):
            F[name] = (lambda g: (lambda T, twin: g(T)))(f)
    if env.fmt in ("fastq", "fastq-codons", "gfa"):
        F["translate_dna_to_protein"] = lambda T, twin: bnp.sequence.translate_dna_to_protein(T)
    return F


HISTORY_FIELD_OPS = ("replace", "slice-setattr", "slice-replace")      # second operations that take a field f2 and a value


def _op_class(op):
    return op.split("/")[0].split("@")[0]


def _eval_history(col, env, scenario, case, sig):
    """returns False when the second operation did not apply (raised); failures go to col"""
    import bionumpy as bnp
    if scenario[0] == "history-chain":
        return _eval_history_chain(col, env, scenario, case, sig)
    mode, f1, op, f2 = scenario[1:5]
    flags = scenario[5] if len(scenario) > 5 else []
    read_first, observe_first, light = "read-first" in flags, "observe-first" in flags, "light" in flags
    opc = _op_class(op)
    B, T, new1 = _history_start(env, mode, f1, read_first)
    if new1 is None:
        return False
    if observe_first:
        base = _observe(env, T, light)
    else:
        base = _history_baseline(env, mode, f1, read_first, light)
    watched = [new1]
    pT = chunk_private_state(T)
    pB = chunk_private_state(B) if B is not None else None
    applied = True
    new2 = None
    if op in HISTORY_FIELD_OPS:
        new2 = _new_value(read_field(T, f2))       # differs from what T holds in f2 (for f2 == f1: from new1)
        if new2 is None:
            return False
        watched.append(new2)
    s_watched = snap(watched)
    try:
        if op == "replace":
            R = bnp.replace(T, **{f2: new2})
        elif op == "slice-setattr":
            R = T[:]
            setattr(R, f2, new2)           # explicit assignment - on ANOTHER object than T
        elif op == "slice-replace":
            R = bnp.replace(T[::-1], **{f2: new2})
        else:
            R = _history_ops(env)[op](T, lambda: _history_start(env, mode, f1, read_first)[1])
        if not light:
            _use(env, R)
    except Exception:
        applied = False
    got = _observe(env, T, light)
    _compare_obs(col, case, env.fmt, opc, base, got,
                 "chunk with %s set by %s, after %s%s" % (f1, mode, op, "(%s)" % f2 if f2 else ""))
    s1 = snap(watched)
    col.check(s1 == s_watched, sig("history:%s:value-handed-over-changed" % opc), case,
              "the arrays assigned in step 1 / passed to the second operation changed: " + first_diff(s_watched, s1))
    if pT is not None:
        p1 = chunk_private_state(T)
        col.check(p1 == pT, sig("history:%s:original-buffer-changed" % opc), case,
                  "bytes/offsets held by the chunk changed: " + first_diff(pT, p1))
    if B is not None:
        # the freshly read chunk that step 1 made T from: still what a fresh chunk is
        _check_unchanged(col, env, B, pB, case, sig, "second-operation-on-its-replaced-copy")
        for p in env.paths:
            v = read_snap(B, p)
            if not col.check(v == env.V0[p], "chunk:history:%s:source-chunk-field-changed" % opc, case,
                             "field %s of the chunk that was read: %s" % (p, first_diff(env.V0[p], v))):
                break
    return applied


def _chain(env, fields, upto, first_by_setattr):
    """t0 = fresh chunk, t_i = replace(t_(i-1), f_i = new_i) (t1 = t0 with f1 assigned when first_by_setattr) -> [t0 .. t_upto]"""
    import bionumpy as bnp
    ts = [env.fresh()]
    for i, f in enumerate(fields[:upto]):
        new = _new_value(read_field(ts[-1], f))
        if i == 0 and first_by_setattr:
            setattr(ts[0], f, new)
            ts.append(ts[0])
        else:
            ts.append(bnp.replace(ts[-1], **{f: new}))
    return ts


def _eval_history_chain(col, env, scenario, case, sig):
    """["history-chain", way of the first step, columns (, op)]: without op every chunk of the chain but the last one is
    observed (the later replace calls must not show in it); with op (a second operation without a field argument) that
    operation is applied to every chunk of the chain - they carry 1, 2, ... user-set columns - and all are observed"""
    first, fields = scenario[1], scenario[2]
    op = scenario[3] if len(scenario) > 3 else None
    by_setattr = first == "setattr"
    ts = _chain(env, fields, len(fields), by_setattr)
    _use(env, ts[-1])
    ok = True
    lo = 1 if by_setattr else 0
    applied = True
    if op:
        f = _history_ops(env)[op]
        for j in range(max(lo, 1), len(fields) + 1):
            try:
                _use(env, f(ts[j], (lambda j: (lambda: _chain(env, fields, j, by_setattr)[j]))(j)))
            except Exception:
                applied = False
    name = "replace-chain" + ("+" + _op_class(op) if op else "")
    for j in range(lo, len(fields) + (1 if op else 0)):
        key = ("chain", by_setattr, tuple(fields[:j]))         # what chunk j is depends on the first j steps only
        if key not in env._hist_base:
            env._hist_base[key] = _observe(env, _chain(env, fields, j, by_setattr)[j])
        base = env._hist_base[key]
        got = _observe(env, ts[j])
        ok = _compare_obs(col, case, env.fmt, name, base, got,
                          "chunk number %d of the replace chain over %r%s" % (j, fields, ", after %s on every chunk" % op if op else "")) and ok
    return applied


def _ring(fields, both_orders=True):
    """every field once as the first and once as the second of a pair (both_orders: and every such pair reversed)"""
    n = len(fields)
    out = []
    for i in range(n if n > 2 else n - 1):
        a, b = fields[i], fields[(i + 1) % n]
        out.append((a, b))
        if both_orders:
            out.append((b, a))
    return out


def _representatives(env, S):
    """one assignable column per kind of value (type, dtype kind), and every sequence column"""
    c = env.fresh()
    seen, out = set(), []
    for k in S:
        v = read_field(c, k)
        key = (type(v).__name__, getattr(getattr(v, "dtype", None), "kind", ""))
        if key not in seen or k in ("sequence", "dna"):
            seen.add(key)
            out.append(k)
    return out


# quick tier: formats whose chunks are cheap to read, write and parse get the whole treatment (all ordered pairs ...)
HISTORY_CHEAP = ("bed", "bed6", "bdg", "fastq", "fastq-codons", "gfa", "sizes", "pairs")
HISTORY_OPS_SHORT = ("getitem/mask", "getitem/int", "tolist", "get_data_object",
                     "replace-nothing", "getitem/reverse", "concatenate/same-history", "write", "get_reverse_complement", "translate_dna_to_protein")
HISTORY_OPS_NOT_IN_QUICK = ("repr", "iter", "toiter", "len", "getitem/int-last", "getitem/all", "write/slice", "concatenate/fresh-first")
HISTORY_CHAIN_OPS = ("getitem/tail", "concatenate/same-history", "write", "getitem/mask", "tolist", "concatenate/with-itself", "replace-nothing",
                     "get_reverse_complement")
HISTORY_EXTRAS = (("replace", ["observe-first"]), ("slice-setattr", []), ("replace", ["read-first"]), ("slice-replace", []),
                  ("slice-setattr", ["read-first"]))


def history_scenarios(env, tier, full_file):
    """what is enumerated depends on the class of the file:
       thorough  'full' (whole pool of lines) / 'sub' (any other sub-selection of the pool)
       quick     'cheap' / 'medium' / 'light' (whole pool, by cost of the format) / 'single' (first line only)"""
    if not env.lazy:
        return
    S = _settable(env)
    if not S:
        return
    if tier != "quick":
        cls = "full" if full_file else "sub"
    elif not full_file:
        cls = "single"
    else:
        cls = "cheap" if env.fmt in HISTORY_CHEAP else ("light" if env.fmt in LIGHT_IN_QUICK else "medium")
    M = HISTORY_MODES
    L = [["light"]] if cls in ("light", "single") else []
    fwd = _ring(S, both_orders=False)
    ring = _ring(S)
    alt = lambda i: M[(i // 2 + i) % 2]
    # (a) bnp.replace(T, f2=..) on a chunk T that carries a user-set f1: ordered pairs of columns
    if cls in ("full", "cheap"):
        # all ordered pairs (f2 == f1: replaced by yet another value); off the ring: light observation, and one of the two
        # ways of setting f1 only
        for i, a in enumerate(S):
            for j, b in enumerate(S):
                for mode in (M if (a, b) in ring else M[(i + j) % 2:(i + j) % 2 + 1]):
                    yield ["history", mode, a, "replace", b] + ([] if (a, b) in ring else [["light"]])
    elif cls == "medium":
        for i, (a, b) in enumerate(ring):  # forward pairs: full observation, reversed pairs: light
            yield ["history", alt(i), a, "replace", b] + ([["light"]] if i % 2 else [])
    else:
        for i, (a, b) in enumerate(fwd[:2] if cls == "single" else fwd):
            yield ["history", M[(i + len(env.lines)) % 2], a, "replace", b] + L
    # (b) variants on the forward ring: T observed before the second operation as well, all fields parsed before the
    #     assignment, assignment / replace on a slice of T
    for i, (a, b) in enumerate(fwd):
        if cls == "full":
            for n_op, (op, fl) in enumerate(HISTORY_EXTRAS):
                yield ["history", M[(i + n_op) % 2], a, op, b] + ([fl] if fl else [])
        elif cls == "cheap":
            for op, fl in HISTORY_EXTRAS[:4]:
                yield ["history", M[i % 2], a, op, b] + ([fl] if fl else [])
        elif cls == "sub" and i % 2 == 0:
            op, fl = HISTORY_EXTRAS[(i // 2 + len(env.lines)) % len(HISTORY_EXTRAS)]
            yield ["history", M[i % 2], a, op, b] + ([fl] if fl else [])
        elif cls == "medium" and i < 4:
            op, fl = HISTORY_EXTRAS[i]
            yield ["history", M[i % 2], a, op, b] + ([fl] if fl else [])
    # (c) second operations without a field argument
    ops = list(_history_ops(env))
    if cls == "full":
        reps = _representatives(env, S)
        firsts = [(m, k) for i, k in enumerate(reps) for m in (M if k in ("sequence", "dna") or i == 0 else M[i % 2:i % 2 + 1])]
    elif cls == "cheap":
        ops = [o for o in ops if o not in HISTORY_OPS_NOT_IN_QUICK]
        firsts = [(M[len(S) % 2], S[1 % len(S)])]
        firsts += [(m, k) for k in S if k in ("sequence", "dna") for m in M if (m, k) not in firsts]
    else:
        short = HISTORY_OPS_SHORT if cls == "medium" else HISTORY_OPS_SHORT[4:] if cls == "sub" else (("replace-nothing", "getitem/reverse", "concatenate/same-history", "write",
                                                                     "tolist") if cls == "light" else ("write",))
        ops = [o for o in ops if o in short]
        firsts = [(M[len(env.lines) % 2], S[len(env.lines) % len(S)])]
        if cls == "sub":
            firsts += [(M[(1 + len(env.lines)) % 2], k) for k in S if k in ("sequence", "dna") and k != firsts[0][1]]
    for mode, k in firsts:
        for op in ops:
            yield ["history", mode, k, op, None] + L
    if cls in ("full", "cheap"):
        for k in (S[:2] if cls == "full" else S[:1]):
            for op in ("replace-nothing", "getitem/reverse", "concatenate/same-history", "write", "get_data_object"):
                yield ["history", "replace", k, op, None, ["observe-first"]]
    # (d) chains of replace: t1 = replace(t, a=..); t2 = replace(t1, b=..); ... - every earlier chunk observed at the end
    chains = [S[:3]] if cls == "sub" else [S[:2], S[:3]]
    if cls in ("full", "cheap", "medium"):
        chains += [S[::-1][:3]]
    if cls in ("full", "cheap"):
        chains += [S] + ([S[:4], S[::-1][:4], S[::-1]] if cls == "full" else [])
    if cls == "full":
        chains += [[S[(i + j) % len(S)] for j in range(3)] for i in range(len(S))]
    if cls in ("single", "light"):
        chains = chains[:1] if cls == "light" else []
    seen = []
    for ch in chains:
        if len(ch) >= 2 and len(set(ch)) == len(ch) and ch not in seen:
            seen.append(ch)
            yield ["history-chain", "replace", ch]
            if cls != "single":
                yield ["history-chain", "setattr", ch]
    # (e) a second operation without a field argument on chunks that carry SEVERAL user-set columns (the chunks of a chain)
    if cls == "full":
        plan = [(S[:3], HISTORY_CHAIN_OPS), (S[::-1][:3], HISTORY_CHAIN_OPS)]
    elif cls == "cheap":
        plan = [(S[:3], HISTORY_CHAIN_OPS[:4])]
    elif cls == "medium":
        plan = [(S[:2], HISTORY_CHAIN_OPS[:2])]
    elif cls == "sub":
        plan = [(S[:2], HISTORY_CHAIN_OPS[len(env.lines) % 2:][:1])]
    else:
        plan = []
    for n_plan, (ch, chain_ops) in enumerate(plan):
        if len(ch) >= 2 and (n_plan == 0 or ch != plan[0][0]):
            for i, op in enumerate(o for o in chain_ops if o in ops or cls != "full"):
                yield ["history-chain", M[(i + n_plan) % 2], ch, op]


LIGHT_IN_QUICK = ("fastq-codons", "vcf-info-string", "vcf-gt-phased", "vcf-gt-haplotype", "vcf-gt-strings", "vcf-noheader", "gff", "bed12-trailing-comma")


def chunk_files(fmt, tier):
    n = len(FORMATS[fmt][3])
    if tier == "quick":
        return [list(range(n)), [0]]
    subsets = [list(c) for k in range(1, n + 1) for c in itertools.combinations(range(n), k)]
    return sorted(subsets, key=lambda s: (-len(s), s))


def chunk_scenarios(env, tier, full_file):
    """level 2: everything (thorough, whole pool) / 1: standard / 0: light"""
    if tier != "quick":
        level = 2 if full_file else 1
    else:
        level = 1 if (full_file and env.fmt not in LIGHT_IN_QUICK) else 0
    P = env.paths
    yield ["fields", list(P)]
    yield ["fields", list(reversed(P))]
    cheap = ["no-modified-write"] if tier == "quick" else []       # quick: modified writes after the all-fields orders only
    if level >= 1:
        for p in P:
            yield ["fields", [p]] + cheap
    if level == 2 or (level == 1 and len(P) <= 3):
        for a, b in itertools.permutations(P, 2):
            yield ["fields", [a, b]] + cheap
    elif level == 1:
        for i in range(len(P)):            # every field once as the first and once as the second of a pair
            yield ["fields", [P[i], P[(i + 1) % len(P)]]] + cheap
    yield ["write-twice"]
    yield ["write-eager"]
    n = env.n_entries
    idxs = [["slice", 1, None, None], ["slice", None, None, -1], ["mask", [i % 2 == 1 for i in range(n)]], ["slice", None, -1, None],
            ["slice", None, None, 2], ["list", [n - 1, 0]], ["slice", 0, 1, None]]
    for idx in idxs[:(7, 4, 1)[2 - level]]:
        yield ["slice", idx]
    if env.lazy:
        for k in env.plain_top[:(len(env.plain_top), 2, 1)[2 - level]]:
            yield ["replace", k]
            if level >= 1:
                yield ["setattr-slice", k]
        # assignment on chunk[index] for indices that keep every row (boolean mask, index list, index array, slice)
        S = _settable(env)
        for i, k in enumerate(S[:(len(S), 2, 1)[2 - level]]):
            for ik in KEEP_INDEX_KINDS[:(len(KEEP_INDEX_KINDS), 3 if (i == 0 or tier != "quick") else 1, 1)[2 - level]]:
                yield ["setattr-index", k, ik]
    if level >= 1:
        c = env.fresh()
        n_text = 0
        for p in P:
            try:
                v = read_field(c, p)
            except Exception:
                continue
            fns = list(_value_functions(env, p, v))
            if tier == "quick" and type(v).__name__ == "EncodedRaggedArray":
                n_text += 1
                if n_text > 2:             # the generic text functions on the first two text fields only
                    fns = [f for f in fns if f not in GENERIC_TEXT_FUNCTIONS]
            for fname in fns:
                yield ["value-fn", p, fname]
        for name in _table_functions_for_chunk(env):
            yield ["table-fn", name]
    yield from history_scenarios(env, tier, full_file)


def run_chunks(col, tier, tmp):
    envs = {}
    for fmt in FORMATS:
        for lines in chunk_files(fmt, tier):
            if col.out_of_time():
                return
            try:
                env = ChunkEnv(tmp, fmt, lines)
            except Exception:
                col.case({"section": "chunk", "format": fmt, "lines": lines, "scenario": ["baseline"]}, contract="chunk:baseline")
                col.fail("chunk:%s:cannot-read-or-write-a-fresh-chunk" % fmt,
                         {"section": "chunk", "format": fmt, "lines": lines, "scenario": ["baseline"]}, traceback.format_exc()[-600:])
                continue
            full_file = len(lines) == len(FORMATS[fmt][3])
            for sc in chunk_scenarios(env, tier, full_file):
                eval_chunk(col, env, sc)
                if col.out_of_time():
                    return


# ----------------------------------------------------------------------------------------------------------------
# section "rawbuf": parsing fields of delimited buffers whose bytes the USER owns or that are WRITABLE
#
#   tables of 1..3 columns, one column kind (str, int, float, Optional[int], Optional[float], bool, List[int], List[float],
#   List[bool], SequenceID, DNA) at every position of the line - as the ONLY column, last, first, in the middle, twice
#   in a row - x 1..4 rows x the way the bytes reach the buffer:
#     from_raw_buffer   DelimitedBuffer.from_raw_buffer on a user array: writable copy / read-only / writable with an
#                       incomplete entry after the last line / a slice of a larger user array / CRLF line ends
#     file              bnp.open(..).read() / .read_chunk() / .read_chunks(min_chunk_size=k) (small k: chunks concatenated
#                       from several reads, several chunks per file) of a file WITH and WITHOUT final newline (without:
#                       the reader appends one and works on its own writable copy)
#   x short histories of field parses (every single field, all in file order, reversed, get_data, field after get_data,
#   field of a row-slice of the buffer).
#   Contracts (all before/after comparisons, no expected values):
#     - the user array (and the larger array it is a slice of) holds the same bytes after every step
#     - buffer.data holds the same bytes after every step
#     - a field value does not depend on what was parsed before (against the parse on a fresh buffer over fresh bytes)
#     - file: the chunk(s) write the same bytes after field access as untouched chunks do, and hold the same bytes
# ----------------------------------------------------------------------------------------------------------------

RAW_KINDS = {
    # kind: (pool of field texts, pool for the table whose only column it is: no empty lines)
    "str": (["a", "bb", "ccc", "x y"], None),
    "int": (["-5", "+7", "12", "0"], None),
    "float": (["-1.5", "2.5e-1", "10", "1e3"], None),
    "Optional[int]": (["7", "", "-3", "12"], ["7", "-3", "12", "+4"]),
    "Optional[float]": (["2.5", "", "-1e1", "3"], ["2.5", "-1e1", "3", "0.5"]),
    "bool": (["1", "0", "1", "1"], None),
    "List[int]": (["1,2,3", "40,50", "6", "7,8,9,10"], None),
    "List[float]": (["1.5,-2e1", "0.25", "-1,2.5,1e2", "7"], None),
    "List[bool]": (["101", "0", "11", "1"], None),
    "SequenceID": (["id1", "id22", "x", "id1"], None),
    "DNA": (["ACGT", "GG", "T", "ACGTA"], None),
}
RAW_LAYOUTS = ("only", "last", "first", "middle", "twice")
RAW_SOURCES = ("writable", "readonly", "writable+tail", "slice-of-larger", "crlf")
RAW_FILE_ENDINGS = ("no-final-newline", "final-newline")
_RAW_CACHE = {}


def _raw_type(kind):
    from typing import List, Optional
    import bionumpy as bnp
    from bionumpy.typing import SequenceID
    return {"str": str, "int": int, "float": float, "Optional[int]": Optional[int], "Optional[float]": Optional[float], "bool": bool,
            "List[int]": List[int], "List[float]": List[float], "List[bool]": List[bool], "SequenceID": SequenceID,
            "DNA": bnp.DNAEncoding}[kind]


def _raw_layout(kind, layout):
    """-> (column kinds, index of the column under test)"""
    return {"only": ([kind], 0), "last": (["str", kind], 1), "first": ([kind, "str"], 0), "middle": (["int", kind, "float"], 1),
            "twice": (["str", kind, kind], 2)}[layout]


def _raw_buffer_classes(kinds):
    """-> (column names, buffer type for bnp.open (header line = column names), the class the reader makes of it)"""
    key = tuple(kinds)
    if key not in _RAW_CACHE:
        from bionumpy.bnpdataclass import make_dataclass
        from bionumpy.io.delimited_buffers import get_bufferclass_for_datatype
        names = ["c%d" % i for i in range(len(kinds))]
        dc = make_dataclass([(n, _raw_type(k)) for n, k in zip(names, kinds)], "RawRow")
        bt = get_bufferclass_for_datatype(dc, delimiter="\t", has_header=True)
        _RAW_CACHE[key] = (names, bt, bt.modify_class_with_header_data(list(names)))
    return _RAW_CACHE[key]


def _raw_lines(kinds, n):
    out = []
    for r in range(n):
        cells = []
        for i, k in enumerate(kinds):
            pool = RAW_KINDS[k][0] if (len(kinds) > 1 or RAW_KINDS[k][1] is None) else RAW_KINDS[k][1]
            cells.append(pool[(r + i) % len(pool)])
        out.append("\t".join(cells))
    return out


def _raw_build(kinds, n, source):
    """-> (buffer, watched user arrays, the bytes they were made of)"""
    import numpy as np
    names, _, cls = _raw_buffer_classes(kinds)
    lines = _raw_lines(kinds, n)
    end = "\r\n" if source == "crlf" else "\n"
    data = "".join(l + end for l in lines).encode()
    if source in ("writable", "crlf"):
        arr = np.frombuffer(data, dtype=np.uint8).copy()
        watched = [arr]
    elif source == "readonly":
        arr = np.frombuffer(data, dtype=np.uint8)
        watched = [arr]
    elif source == "writable+tail":            # an incomplete entry after the last complete line
        arr = np.frombuffer(data + lines[0].encode(), dtype=np.uint8).copy()
        watched = [arr]
    elif source == "slice-of-larger":
        base = np.frombuffer(b"#\n" + data + lines[-1].encode() + b"\n", dtype=np.uint8).copy()
        arr = base[2:2 + len(data)]
        watched = [arr, base]
    else:
        raise KeyError(source)
    originals = [_bytes_of(w) for w in watched]           # taken BEFORE the library sees the array
    return cls.from_raw_buffer(arr), watched, originals


def _raw_step(buf, kinds, step):
    what = step[0]
    if what == "field":
        return buf.get_field_by_number(step[1], _raw_type(kinds[step[1]]))
    if what == "data":
        return buf.get_data()
    if what == "slice-field":                  # rows of the buffer selected first (the selection is not contiguous)
        return buf[::-1].get_field_by_number(step[1], _raw_type(kinds[step[1]]))
    if what == "tail-field":
        return buf[1:].get_field_by_number(step[1], _raw_type(kinds[step[1]]))
    raise KeyError(what)


def _raw_step_snap(buf, kinds, step):
    try:
        return ["value", snap(_raw_step(buf, kinds, step))]
    except Exception as e:
        return ["raises", type(e).__name__]


_RAW_STEP_NAMES = {"field": "field-parse", "data": "get_data", "slice-field": "field-parse-of-a-row-selection",
                   "tail-field": "field-parse-of-a-row-selection"}


def _bytes_of(a):
    import numpy as np
    return bytes(np.asarray(a).tolist()).decode("latin1")


def eval_rawbuf(col, case):
    kinds, focus, n, source, scenario = case["kinds"], case["focus"], case["rows"], case["source"], case["scenario"]
    try:
        if source.startswith("file"):
            nontrivial = _eval_rawfile(col, case)
        else:
            nontrivial = _eval_rawarray(col, case)
    except Exception as e:
        nontrivial = False
        col.fail("rawbuf:%s:exception:%s:%s" % (source.split("/")[0], type(e).__name__, kinds[focus]), case, traceback.format_exc()[-600:])
    col.case(case, nontrivial=nontrivial, contract="rawbuf:" + ("file" if source.startswith("file") else "from_raw_buffer"))


_RAW_V0 = {}


def _raw_v0(kinds, n, source, step):
    key = json_key([kinds, n, source, step])
    if key not in _RAW_V0:
        buf = _raw_build(kinds, n, source)[0]
        _RAW_V0[key] = _raw_step_snap(buf, kinds, step)
    return _RAW_V0[key]


def json_key(x):
    import json
    return json.dumps(x, sort_keys=True)


def _eval_rawarray(col, case):
    kinds, focus, n, source, scenario = case["kinds"], case["focus"], case["rows"], case["source"], case["scenario"]
    buf, watched, w0 = _raw_build(kinds, n, source)
    w1 = [_bytes_of(w) for w in watched]
    if not col.check(w1 == w0, "rawbuf:from_raw_buffer:user-array-changed-by-from_raw_buffer:" + source, case,
                     "array given to from_raw_buffer (%s), after the buffer was made: %s" % (source, first_diff(w0, w1))):
        return True
    d0 = _bytes_of(buf.data.raw())
    nontrivial = True
    for step in scenario:
        kind = kinds[step[1]] if len(step) > 1 else kinds[focus]
        name = _RAW_STEP_NAMES[step[0]]
        got = _raw_step_snap(buf, kinds, step)
        if got[0] == "raises":
            nontrivial = False
        w1 = [_bytes_of(w) for w in watched]
        if col.check(w1 == w0, "rawbuf:from_raw_buffer:user-array-changed-by-%s:%s" % (name, kind), case,
                     "array given to from_raw_buffer (%s) after %r: %s" % (source, step, first_diff(w0, w1))):
            d1 = _bytes_of(buf.data.raw())     # (the buffer may hold its own copy of the bytes)
            col.check(d1 == d0, "rawbuf:from_raw_buffer:buffer-data-changed-by-%s:%s" % (name, kind), case,
                      "buffer.data after %r: %r -> %r" % (step, d0, d1))
        v0 = _raw_v0(kinds, n, source, step)
        col.check(got == v0, "rawbuf:from_raw_buffer:field-value-depends-on-access-history:%s" % kind, case,
                  "%r after %r, on a fresh buffer over fresh bytes: %s" % (step, scenario, first_diff(v0, got)))
    return nontrivial


class RawFileEnv:
    """one enumerated file of a custom delimited format (header line + rows), read in one of the three public ways"""

    def __init__(self, tmp, kinds, n, source):
        self.tmp, self.kinds, self.n = tmp, kinds, n
        parts = source.split("/")          # "file/<ending>/<read | read_chunk | read_chunks>[/<min_chunk_size>]"
        self.ending, self.how = parts[1], parts[2]
        self.k = int(parts[3]) if len(parts) > 3 else None
        self.names, self.bt, _ = _raw_buffer_classes(kinds)
        text = "\t".join(self.names) + "\n" + "".join(l + "\n" for l in _raw_lines(kinds, n))
        if self.ending == "no-final-newline":
            text = text[:-1]
        self.path = os.path.join(tmp, "raw_in.tsv")
        with open(self.path, "wb") as f:
            f.write(text.encode())
        self._n = 0
        self.W0 = self.write(self.fresh())
        self.V0 = {}

    def fresh(self):
        """the list of chunks the file is read as"""
        import bionumpy as bnp
        with bnp.open(self.path, buffer_type=self.bt) as f:
            if self.how == "read":
                return [f.read()]
            if self.how == "read_chunk":
                return [f.read_chunk()]
            return list(f.read_chunks(min_chunk_size=self.k))

    def write(self, chunks):
        import bionumpy as bnp
        self._n += 1
        out = os.path.join(self.tmp, "raw_out%d.tsv" % (self._n % 2))
        with bnp.open(out, "w", buffer_type=self.bt) as o:
            for c in chunks:
                o.write(c)
        with open(out, "rb") as f:
            return f.read()

    def v0(self, name):
        if name not in self.V0:
            self.V0[name] = [_rawfile_access(c, name) for c in self.fresh()]
        return self.V0[name]


def _rawfile_access(chunk, name):
    try:
        if name == "tolist()":
            return ["value", snap(chunk.tolist())]
        if name == "get_data_object()":
            return ["value", snap(chunk.get_data_object())]
        return ["value", snap(getattr(chunk, name))]
    except Exception as e:
        return ["raises", type(e).__name__]


def _eval_rawfile(col, case, _envs={}):
    kinds, focus, n, source, scenario = case["kinds"], case["focus"], case["rows"], case["source"], case["scenario"]
    tmp = case_tmp()
    key = (tmp, json_key([kinds, n, source]))
    if key not in _envs:
        _envs.clear()                      # the input file path is shared: one live environment at a time
        _envs[key] = RawFileEnv(tmp, kinds, n, source)
    env = _envs[key]
    sig = lambda what, kind: "rawbuf:file:%s:%s:%s" % (env.ending, what, kind)
    chunks = env.fresh()
    lazy = all(hasattr(c, "_itemgetter") for c in chunks)
    p0 = [chunk_private_state(c) for c in chunks] if lazy else None
    nontrivial = len(chunks) > 0
    accessed = [s for s in scenario]
    kind = kinds[int(accessed[0][1:])] if (len(accessed) == 1 and accessed[0][0] == "c") else kinds[focus]
    for name in accessed:
        got = [_rawfile_access(c, name) for c in chunks]
        if any(g[0] == "raises" for g in got):
            nontrivial = False
        v0 = env.v0(name)
        col.check(got == v0, sig("field-value-depends-on-access-history", kind), case,
                  "%s after %r, on freshly read chunks: %s" % (name, scenario, first_diff(v0, got)))
    p1 = [chunk_private_state(c) for c in chunks] if lazy else None
    W1 = env.write(chunks)
    if col.check(W1 == env.W0, sig("written-bytes-changed-by-field-access", kind), case,
                 "chunk(s) read by %s write %r after %r, untouched chunk(s) write %r" % (source, W1[-200:], scenario, env.W0[-200:])):
        # (observation of the private state: changes that this write does not show, e.g. outside the written range)
        col.check(p1 == p0, sig("buffer-changed-by-field-access", kind), case,
                  "bytes/offsets held by the chunk(s) read by %s after %r: %s" % (source, scenario, first_diff(p0, p1)))
    if len(scenario) > 1:                  # writing itself must not change what is written next
        W2 = env.write(chunks)
        col.check(W2 == env.W0, sig("written-bytes-changed-by-field-access", kind), case,
                  "chunk(s) write %r the second time, untouched chunk(s) write %r" % (W2[-200:], env.W0[-200:]))
    return nontrivial


_CASE_TMP = [None]


def case_tmp():
    return _CASE_TMP[0]


def _raw_scenarios(kinds, focus, n, level):
    """level 2: everything / 1: short (quick tier, writable user array) / 0: two histories (quick tier, other sources)"""
    m = len(kinds)
    f = ["field", focus]
    yield [f, f]
    yield [["data"], f]
    if level == 0:
        return
    if m > 1:
        yield [["field", i] for i in range(m)]
        yield [["field", i] for i in reversed(range(m))]
    if n > 1:
        yield [["slice-field", focus]]
    if level == 1:
        return
    yield [f]
    yield [["data"], ["data"]]
    yield [f, ["data"]]
    for i in range(m):
        if i != focus:
            yield [["field", i]]
            yield [["field", i], f]
    if n > 1:
        yield [["tail-field", focus], f]


def _rawfile_scenarios(kinds, focus, level):
    m = len(kinds)
    names = ["c%d" % i for i in range(m)]
    if m > 1:
        yield list(names)
    if level == 0:
        return
    yield [names[focus]]
    yield ["tolist()"]
    if level == 1:
        return
    if m > 1:
        yield list(reversed(names))
    yield [names[focus], names[focus]]
    yield ["get_data_object()", names[focus]]
    for i in range(m):
        if i != focus:
            yield [names[i]]


RAW_LIST_KINDS = ("List[int]", "List[float]", "List[bool]")


def cases_rawbuf(tier):
    """per kind (list-valued kinds first) and position of the column in the line:
       quick     the table whose only column it is (1 and 3 rows; every source and way of reading for 3 rows) and the table where
                 it is the last column (2 rows); list-valued kinds at the other positions too
       thorough  only column: 1..4 rows x every source, files of 2 and 3 rows read in every way; other positions: 2 and 3 rows,
                 every source for 2 rows, files of 2 rows (read at once / in small chunks)"""
    full = tier != "quick"

    def case(kinds, focus, n, source, sc):
        return {"section": "rawbuf", "kinds": kinds, "focus": focus, "rows": n, "source": source, "scenario": sc}

    for kind in RAW_LIST_KINDS + tuple(k for k in RAW_KINDS if k not in RAW_LIST_KINDS):
        for layout in RAW_LAYOUTS:
            kinds, focus = _raw_layout(kind, layout)
            width = lambda n: len(_raw_lines(kinds, n)[0]) + 1
            if full and layout == "only":
                for n in (1, 2, 3, 4):
                    for source in (RAW_SOURCES if n < 4 else RAW_SOURCES[:1]):
                        for sc in _raw_scenarios(kinds, focus, n, 2 if source == "writable" else 0):
                            yield case(kinds, focus, n, source, sc)
                for n in (3, 2):
                    w = width(n)
                    ks = sorted({3, 5, w + 1, 2 * w}) if n == 3 else [w + 1]
                    for ending in RAW_FILE_ENDINGS:
                        for how in ["read"] + (["read_chunk"] if n == 3 else []) + ["read_chunks/%d" % k for k in ks]:
                            for sc in _rawfile_scenarios(kinds, focus, 2):
                                yield case(kinds, focus, n, "file/%s/%s" % (ending, how), sc)
            elif full:
                for source in RAW_SOURCES:
                    for sc in _raw_scenarios(kinds, focus, 2, 2 if source == "writable" else 0):
                        yield case(kinds, focus, 2, source, sc)
                for sc in _raw_scenarios(kinds, focus, 3, 1):
                    yield case(kinds, focus, 3, "writable", sc)
                k = width(2) + 1
                for source, level in (("file/no-final-newline/read", 2), ("file/no-final-newline/read_chunks/%d" % k, 2),
                                      ("file/final-newline/read_chunks/%d" % k, 1)):
                    for sc in _rawfile_scenarios(kinds, focus, level):
                        yield case(kinds, focus, 2, source, sc)
            elif layout == "only":
                for sc in _raw_scenarios(kinds, focus, 1, 1):
                    yield case(kinds, focus, 1, "writable", sc)
                for source in RAW_SOURCES:
                    for sc in _raw_scenarios(kinds, focus, 3, 1 if source == "writable" else 0):
                        yield case(kinds, focus, 3, source, sc)
                for source in ("file/no-final-newline/read", "file/no-final-newline/read_chunk", "file/no-final-newline/read_chunks/3",
                               "file/no-final-newline/read_chunks/%d" % (width(3) + 2), "file/final-newline/read_chunks/3"):
                    for sc in _rawfile_scenarios(kinds, focus, 1):
                        yield case(kinds, focus, 3, source, sc)
            elif layout == "last" or kind in RAW_LIST_KINDS:
                for sc in _raw_scenarios(kinds, focus, 2, 1):
                    yield case(kinds, focus, 2, "writable", sc)
                if layout == "last":
                    for sc in _raw_scenarios(kinds, focus, 2, 0):
                        yield case(kinds, focus, 2, "readonly", sc)
                for sc in _rawfile_scenarios(kinds, focus, 0):
                    yield case(kinds, focus, 2, "file/no-final-newline/read", sc)


def run_rawbuf(col, tier, tmp, allowed_s):
    import time
    _CASE_TMP[0] = tmp
    t0 = time.time()
    for case in cases_rawbuf(tier):
        eval_rawbuf(col, case)
        if time.time() - t0 > allowed_s:
            col.exhaustive = False
            break


def writable_chunk_scenarios(env, tier, full_file):
    """scenarios for the chunk of a file WITHOUT final newline (writable bytes): those whose signatures carry the format"""
    P = env.paths
    quick = tier == "quick"
    yield ["fields", list(P)] + (["no-modified-write"] if quick else [])
    yield ["fields", list(reversed(P))] + (["no-modified-write"] if quick else [])
    if not quick:
        for p in P:
            yield ["fields", [p], "no-modified-write"]
        yield ["write-twice"]
        yield ["slice", ["slice", 1, None, None]]
        yield ["slice", ["slice", None, None, -1]]
    if full_file:
        c = env.fresh()
        for p in P:
            try:
                v = read_field(c, p)
            except Exception:
                continue
            for fname in _value_functions(env, p, v):
                if not quick or fname not in GENERIC_TEXT_FUNCTIONS + ("ragged-sum", "ints_to_strings", "float_to_strings", "tolist", "equal"):
                    yield ["value-fn", p, fname]


def run_writable_chunks(col, tier, tmp, allowed_s):
    """every format of FORMATS, file without final newline: whole pool of lines, (thorough) first line only"""
    import time
    t0 = time.time()
    for fmt in FORMATS:
        n = len(FORMATS[fmt][3])
        files = [list(range(n))] + ([[0]] if tier != "quick" else [])
        for lines in files:
            case0 = {"section": "chunk", "format": fmt, "lines": lines, "scenario": ["baseline"], "final_newline": False}
            try:
                env = ChunkEnv(tmp, fmt, lines, final_newline=False, with_modified=tier != "quick")
            except Exception:
                col.case(case0, contract="chunk:baseline")
                col.fail("chunk:%s:no-final-newline:cannot-read-or-write-a-fresh-chunk" % fmt, case0, traceback.format_exc()[-600:])
                continue
            for sc in writable_chunk_scenarios(env, tier, len(lines) == n):
                eval_chunk(col, env, sc)
            if time.time() - t0 > allowed_s:
                col.exhaustive = False
                return


# ----------------------------------------------------------------------------------------------------------------
# section "lazyiv": interval arithmetic / genomic-data functions called DIRECTLY on a lazily read chunk of interval files
#
#   tables of 1..3 intervals sorted on start over positions 0..P (every combination: disjoint, touching, overlapping,
#   nested, equal, a single interval) on one chromosome - for the genomic functions also spread over two chromosomes -
#   x the way the table is written to a file and read back ("dress": plain bed3; bed4 / bed6 lines read with the default
#   3-column bed buffer, so that the chunk holds more columns than its table knows; Bed6Buffer; numbers with '+' signs and
#   leading zeros; CRLF line ends; no final newline; bedGraph; narrowPeak) x read_chunk() / read()
#   x registry of functions that take the chunk itself as (first or second) argument.
#   Contracts (before/after comparisons only, no expected values):
#     - the chunk writes the bytes a fresh chunk of the same file writes, holds the same bytes/offsets, and its fields have
#       the values they have in a fresh chunk            ("lazyiv:<fn>:chunk-written-bytes-changed" / "-buffer-changed" / "-field-changed")
#     - the second call, and the call on a fresh chunk, give the result of the first call      ("lazyiv:<fn>:second-call-differs")
# ----------------------------------------------------------------------------------------------------------------

# dress: (file extension, buffer type, columns written, number style, line end, final newline)
LAZYIV_DRESSES = {
    "bed3": (".bed", None, 3, "plain", "\n", True),
    "bed6-read-as-bed3": (".bed", None, 6, "plain", "\n", True),
    "bed3:signs-and-leading-zeros": (".bed", None, 3, "signs-zeros", "\n", True),
    "bed6": (".bed", "bionumpy.io.delimited_buffers:Bed6Buffer", 6, "plain", "\n", True),
    "bed4-read-as-bed3:no-final-newline": (".bed", None, 4, "plain", "\n", False),
    "bed3:crlf": (".bed", None, 3, "plain", "\r\n", True),
    "bdg": (".bdg", None, "bdg", "plain", "\n", True),
    "narrowPeak": (".narrowPeak", None, "narrowPeak", "plain", "\n", True),
    "bed6:signs-and-leading-zeros": (".bed", "bionumpy.io.delimited_buffers:Bed6Buffer", 6, "signs-zeros", "\n", True),
}
LAZYIV_QUICK_DRESSES = ("bed3", "bed6-read-as-bed3", "bed3:signs-and-leading-zeros", "bed6", "bed4-read-as-bed3:no-final-newline", "bed3:crlf", "bdg")
LAZYIV_GENOME = {"chr1": 12, "chr2": 9}


def _lazyiv_text(dress, entries):
    ext, _, cols, style, eol, final = LAZYIV_DRESSES[dress]
    lines = []
    for i, (c, a, b) in enumerate(entries):
        sa, sb = str(a), str(b)
        if style == "signs-zeros":
            sa, sb = (("+" + sa, "0" + sb), ("00" + sa, sb), (sa, "+" + sb))[i % 3]
        cells = [c, sa, sb]
        extra = ["n%d" % i, str((7 * i + 3) % 10), "+-"[(i + a) % 2]]
        if cols == "bdg":
            cells.append(["1.5", "-2e1", "0.25"][i % 3])
        elif cols == "narrowPeak":
            cells += extra + [["1.5", "3", "1e-2"][i % 3], ["-1", "4.25", "-1.5e0"][i % 3], ["2.5e1", "-1", "0.5"][i % 3], str(a)]
        else:
            cells += extra[:cols - 3]
        lines.append("\t".join(cells))
    text = "".join(l + eol for l in lines)
    return text if final else text[:-len(eol)]


def _lazyiv_functions(_cache={}):
    """name -> (kind, f).  kind 'one': f(chunk, size) on the intervals of ONE chromosome; 'one-s': needs a strand column;
    'two': f(chunk, other, size), other = an (eager) Interval table; 'two-lazy': other = a second lazily read chunk of a file
    in the same dress; 'genomic' / 'genomic-s': f(chunk, genome) on intervals of several chromosomes"""
    if _cache:
        return _cache
    from bionumpy import arithmetics as A
    from bionumpy.arithmetics import intervals as I
    _cache.update({
        "merge_intervals/d0": ("one", lambda c, S: A.merge_intervals(c)),
        "merge_intervals/d1": ("one", lambda c, S: A.merge_intervals(c, distance=1)),
        "merge_intervals/d2": ("one", lambda c, S: A.merge_intervals(c, distance=2)),
        "sort_intervals": ("one", lambda c, S: A.sort_intervals(c)),
        "sort_intervals/reversed": ("one", lambda c, S: A.sort_intervals(c[::-1])),
        "get_pileup": ("one", lambda c, S: A.get_pileup(c, S)),
        "get_boolean_mask": ("one", lambda c, S: A.get_boolean_mask(c, S)),
        "clip": ("one", lambda c, S: I.clip(c, S - 2)),
        "clip/clipping": ("one", lambda c, S: I.clip(c, 3)),
        "pileup": ("one", lambda c, S: I.pileup(c)),
        "extend_to_size": ("one-s", lambda c, S: I.extend_to_size(c, 3, S)),
        "unique_intersect/chunk-first": ("two", lambda c, o, S: A.unique_intersect(c, o, S)),
        "unique_intersect/chunk-second": ("two", lambda c, o, S: A.unique_intersect(o, c, S)),
        "count_overlap/chunk-first": ("two", lambda c, o, S: A.count_overlap(c, o)),
        "count_overlap/chunk-second": ("two", lambda c, o, S: A.count_overlap(o, c)),
        "intersect/two-chunks": ("two-lazy", lambda c, o, S: A.intersect(c, o)),
        "unique_intersect/two-chunks": ("two-lazy", lambda c, o, S: A.unique_intersect(c, o, S)),
        "count_overlap/two-chunks": ("two-lazy", lambda c, o, S: A.count_overlap(c, o)),
        "Genome.get_intervals": ("genomic", lambda c, G: G.get_intervals(c)),
        "GenomicIntervals.merged": ("genomic", lambda c, G: G.get_intervals(c).merged()),
        "GenomicIntervals.merged/d1": ("genomic", lambda c, G: G.get_intervals(c).merged(distance=1)),
        "GenomicIntervals.get_pileup": ("genomic", lambda c, G: G.get_intervals(c).get_pileup()),
        "GenomicIntervals.get_mask": ("genomic", lambda c, G: G.get_intervals(c).get_mask()),
        "GenomicIntervals.sorted": ("genomic", lambda c, G: G.get_intervals(c).sorted()),
        "GenomicIntervals.clip": ("genomic", lambda c, G: G.get_intervals(c).clip()),
        "GenomicIntervals.extended_to_size": ("genomic-s", lambda c, G: G.get_intervals(c, stranded=True).extended_to_size(3)),
        "GenomicIntervals.get_location": ("genomic-s", lambda c, G: G.get_intervals(c, stranded=True).get_location("start")),
    })
    return _cache


class LazyIvEnv:
    """one enumerated interval file; baselines from FRESH chunks"""

    def __init__(self, tmp, dress, entries, how, name="in"):
        self.tmp, self.dress, self.entries, self.how = tmp, dress, entries, how
        self.ext, spec = LAZYIV_DRESSES[dress][0], LAZYIV_DRESSES[dress][1]
        self.bt = None
        if spec is not None:
            import importlib
            mod, attr = spec.split(":")
            self.bt = getattr(importlib.import_module(mod), attr)
        self.path = os.path.join(tmp, "lazyiv_" + name + self.ext)
        with open(self.path, "wb") as f:
            f.write(_lazyiv_text(dress, entries).encode())
        self._n = 0
        c = self.fresh()
        self.fields = [f.name for f in dataclasses.fields(c)]
        self.W0 = self.write(c)            # (nothing was read from c)
        c = self.fresh()
        self.V0 = {name: read_snap(c, name) for name in self.fields}
        self.others = {}

    def fresh(self):
        import bionumpy as bnp
        with bnp.open(self.path, buffer_type=self.bt) as f:
            return f.read_chunk() if self.how == "read_chunk" else f.read()

    def write(self, chunk):
        import bionumpy as bnp
        self._n += 1
        out = os.path.join(self.tmp, "lazyiv_out%d%s" % (self._n % 2, self.ext))
        with bnp.open(out, "w", buffer_type=self.bt) as o:
            o.write(chunk)
        with open(out, "rb") as f:
            return f.read()

    def other(self, ivs):
        key = json_key(ivs)
        if key not in self.others:
            self.others.clear()
            self.others[key] = LazyIvEnv(self.tmp, self.dress, [["chr1", a, b] for a, b in ivs], self.how, name="other")
        return self.others[key]


def eval_lazyiv(col, case, _envs={}):
    """exceptions of the function are tolerated (whether it applies to a lazily read chunk is not part of this property; the
    case is then counted as trivial) - the chunk must be unchanged all the same"""
    import bionumpy as bnp
    fn_name, dress, entries, how = case["fn"], case["dress"], case["entries"], case["how"]
    base = "lazyiv:" + fn_name.split("/")[0]
    nontrivial = True
    try:
        tmp = case_tmp()
        key = (tmp, json_key([dress, entries, how]))
        if key not in _envs:
            _envs.clear()                  # the input file path is shared: one live environment at a time
            _envs[key] = LazyIvEnv(tmp, dress, entries, how)
        env = _envs[key]
        kind, f = _lazyiv_functions()[fn_name]
        env2 = None
        if kind.startswith("genomic"):
            extra = lambda: (bnp.Genome.from_dict(dict(LAZYIV_GENOME)),)
            watched = []
        elif kind == "two":
            other = _interval_table(case["other"], "Interval")
            extra = lambda: (other, LAZYIV_GENOME["chr1"])
            watched = [other]
        elif kind == "two-lazy":
            env2 = env.other(case["other"])
            other = env2.fresh()
            p2 = chunk_private_state(other)
            extra = lambda: (other, LAZYIV_GENOME["chr1"])
            watched = []
        else:
            extra = lambda: (LAZYIV_GENOME["chr1"],)
            watched = []
        B = env.fresh()
        p0 = chunk_private_state(B)
        s0 = snap(watched)
        results = []
        for who in (B, B, env.fresh()):    # first call, second call on the same chunk, call on a fresh chunk
            try:
                results.append(["value", snap(f(who, *extra()))])
            except Exception as e:
                results.append(["raises", type(e).__name__])
                nontrivial = False
                break
        if len(results) == 3:
            col.check(results[0] == results[1], base + ":second-call-differs", case,
                      "f(chunk) != f(chunk) on the same chunk: " + first_diff(results[0], results[1]))
            col.check(results[0] == results[2], base + ":second-call-differs", case,
                      "f(chunk) != f(fresh chunk of the same file): " + first_diff(results[0], results[2]))
        _lazyiv_unchanged(col, env, B, p0, case, base, "chunk")
        if env2 is not None:
            _lazyiv_unchanged(col, env2, other, p2, case, base, "other-chunk")
        s1 = snap(watched)
        col.check(s1 == s0, base + ":input-modified", case, "the other table changed: " + first_diff(s0, s1))
    except Exception as e:
        nontrivial = False
        col.fail(base + ":harness-exception:" + type(e).__name__, case, traceback.format_exc()[-600:])
    col.case(case, nontrivial=nontrivial, contract="lazyiv")


def _lazyiv_unchanged(col, env, B, p0, case, base, which):
    W1 = env.write(B)
    col.check(W1 == env.W0, "%s:%s-written-bytes-changed" % (base, which), case,
              "after the call(s) the chunk writes %r, a fresh chunk of the same file writes %r" % (W1[-200:], env.W0[-200:]))
    if p0 is not None:
        p1 = chunk_private_state(B)
        col.check(p1 == p0, "%s:%s-buffer-changed" % (base, which), case,
                  "bytes/offsets held by the chunk changed: " + first_diff(p0, p1))
    for name in env.fields:
        got = read_snap(B, name)
        if not col.check(got == env.V0[name], "%s:%s-field-changed" % (base, which), case,
                         "field %s after the call(s): %s" % (name, first_diff(env.V0[name], got))):
            break


def _lazyiv_tables(P, n_triples, rng):
    pool = [[a, b] for a in range(P) for b in range(a + 1, P + 1)]
    lists = [list(c) for n in (1, 2) for c in itertools.combinations_with_replacement(pool, n)]      # sorted on start
    triples = [list(c) for c in itertools.combinations_with_replacement(pool, 3)]
    return lists + (triples if n_triples is None or n_triples >= len(triples) else
                    [triples[i] for i in sorted(rng.sample(range(len(triples)), n_triples))])


LAZYIV_STRANDED = ("bed6", "bed6:signs-and-leading-zeros", "narrowPeak")      # dresses whose table has a strand column


def cases_lazyiv(tier, rng):
    """merge_intervals (the function that assigns to the table it got by indexing): every table x two of every three dresses
    (distance 0; distances 1, 2 on two dresses per table; every 6th file also read with read()); every other interval function:
    every table x one dress; the genomic ones: every third function per table x one dress.  Quick: every other dress per table
    for merge_intervals, every third function of the registry per table for the others.  (All rotating over the tables.)"""
    full = tier != "quick"
    F = _lazyiv_functions()
    dresses = list(LAZYIV_DRESSES) if full else list(LAZYIV_QUICK_DRESSES)
    tables = _lazyiv_tables(5 if full else 4, 10 if full else 8, rng)
    nd = len(dresses)
    rest_one = [n for n, (k, _) in F.items() if not n.startswith("merge_intervals") and not k.startswith("genomic")]
    rest_genomic = [n for n, (k, _) in F.items() if k.startswith("genomic")]

    def case(fn, dress, entries, how, other=None):
        d = {"section": "lazyiv", "fn": fn, "dress": dress, "entries": entries, "how": how}
        if other is not None:
            d["other"] = other
        return d

    for t, ivs in enumerate(tables):
        one = [["chr1", a, b] for a, b in ivs]
        # the same intervals spread over two chromosomes (every split point, rotating over the tables)
        k = t % (len(ivs) + 1)
        multi = [["chr1" if i < k else "chr2", a, b] for i, (a, b) in enumerate(ivs)]
        for j, dress in enumerate(dresses):
            stranded = dress in LAZYIV_STRANDED
            hows = ("read_chunk", "read") if (full and (t + j) % 6 == 0) else ("read_chunk",)
            for how in hows:               # (grouped per file: the environment - file, baselines - is made once)
                if ((j + t) % 3 != 0 if full else (j + t) % 2 == 0) or (j - 2 * t) % nd == 0:
                    yield case("merge_intervals/d0", dress, one, how)
                if (j - t) % nd in (0, 1) if full else ((j + t) % 2 == 0 and (j - t) % nd in (0, 1)):
                    yield case("merge_intervals/d1", dress, one, how)
                    yield case("merge_intervals/d2", dress, one, how)
                if how == "read_chunk" and (j - 2 * t) % nd == 0:
                    for i, fn in enumerate(rest_one):
                        kind = F[fn][0]
                        if (kind.endswith("-s") and not stranded) or (not full and (i + t) % 3):
                            continue
                        if kind.startswith("two"):
                            yield case(fn, dress, one, how, INTERVAL_OTHERS[(t + i) % len(INTERVAL_OTHERS)])
                        else:
                            yield case(fn, dress, one, how)
            if (j - 2 * t) % nd == 1:
                for i, fn in enumerate(rest_genomic):
                    if (F[fn][0].endswith("-s") and not stranded) or (i + t) % 3:
                        continue
                    yield case(fn, dress, multi, "read_chunk")


def run_lazyiv(col, tier, tmp, allowed_s):
    import time
    _CASE_TMP[0] = tmp
    t0 = time.time()
    import random
    for case in cases_lazyiv(tier, random.Random("lazyiv-%d" % col.seed)):      # own generator: the sample does not depend on the other sections
        eval_lazyiv(col, case)
        if time.time() - t0 > allowed_s:
            col.exhaustive = False
            break


# ----------------------------------------------------------------------------------------------------------------
# run / replay
# ----------------------------------------------------------------------------------------------------------------

SECTION_ORDER = ("text", "seq", "interval", "genomic", "table")
NEW_ALLOWANCE = ((6.5, 3.5), (40, 19))       # seconds for (rawbuf, writable chunks of every format): quick, thorough
LAZYIV_ALLOWANCE = (9, 60)                   # seconds for the functions called directly on lazily read interval chunks: quick, thorough
# share of the wall budget after which a section is cut short (the chunk section gets what is left)
QUICK_DEADLINES = {"text": 10, "seq": 20, "interval": 30, "genomic": 36, "table": 42}
THOROUGH_DEADLINES = {"text": 90, "seq": 150, "interval": 230, "genomic": 260, "table": 290}


def run(tier="quick", seed=0):
    import time
    col = Collector(PID, tier, seed,
                    rule="registry of public functions x exhaustively enumerated small arguments (token / sequence / interval pools, all "
                         "tuples up to a length bound, contiguous and sliced-view forms); files of every text format x every "
                         "sub-selection of a pool of lines x field-access orders (all, reversed, singles, ordered pairs), slices, "
                         "replace / assignment on copies, public functions on field values; multi-step histories on lazily read chunks: "
                         "(way of setting f1: assignment / replace) x (ordered pair of assignable columns f1, f2, also f2 == f1) for "
                         "replace(T, f2=..), and x a registry of second operations (indexing, concatenate, writing, conversions, "
                         "reverse complement / translation, assignment or replace on a slice), chains of replace - the chunk that "
                         "carries the user-set values is observed (fields, written bytes, tolist()) against a twin with the same "
                         "first step; delimited buffers over user-owned / writable bytes: column kind x position of the column "
                         "(only column, last, first, middle, twice) x 1..4 rows x (from_raw_buffer on a writable / read-only / "
                         "partly incomplete / sliced / CRLF user array; files with and without final newline read at once or in "
                         "small chunks) x short histories of field parses, and every file format without final newline; "
                         "interval / genomic functions called directly on lazily read interval chunks: every table of 1..3 sorted "
                         "intervals over a small position range (disjoint, touching, overlapping, nested, single) x file dress "
                         "(bed3, more columns than the buffer's table, Bed6Buffer, signed / zero-padded numbers, CRLF, no final "
                         "newline, bedGraph, narrowPeak) x function registry; assignment on table[index] / chunk[index] for every "
                         "mask and every index that keeps all rows. "
                         "distinct = distinct (function, argument) "
                         "or (file, scenario); every case is non-trivial (it evaluates a frame / repeatability contract). "
                         "Sampling (seeded) only for tuples of length 3 in the quick tier and float triples.",
                    budget_s=58 if tier == "quick" else 570)
    col.bounds = {
        "text": {"int tokens": INT_POOL, "float tokens": FLOAT_POOL, "tuple length": "1..2 (+ sampled 3)" if tier == "quick" else "1..3 (floats: 1..2 + 300 sampled triples)",
                 "forms": list(TEXT_FORMS) + ["2d", "2d-view"]},
        "seq": {"sequences": SEQ_POOL, "rows": "1..2 (quick: all singles, every 9th pair)", "forms": list(SEQ_FORMS) + ["flat-base", "flat-dna", "tcag"],
                "genotype rows": "1..3 rows x 1..3 samples, tab / newline terminated"},
        "interval": {"positions": "0..%d" % (5 if tier == "quick" else 6), "intervals per table": "0..3 sorted on start (quick: 0..2 + 25 sampled triples)",
                     "types": ["Interval", "Bed6"], "second table": INTERVAL_OTHERS},
        "genomic": {"genome": GENOME, "entries": GENOMIC_POOL, "entries per table": "1..3 (quick: singles + every 4th)"},
        "table": {"kinds": list(TABLE_KINDS), "rows": "1..4" if tier != "quick" else "1, 3", "indices": "slices, all boolean masks, index lists of length 1..2, ints"},
        "rawbuf": {"column kinds": list(RAW_KINDS), "positions": list(RAW_LAYOUTS), "rows": "1..4 (quick: 1..3)",
                   "user arrays": list(RAW_SOURCES), "file endings": list(RAW_FILE_ENDINGS),
                   "ways of reading": ["read", "read_chunk", "read_chunks(min_chunk_size = 3, 5, line width + 1, 2 x line width)"],
                   "histories": "field twice, get_data then field, all fields in both orders, field of a row selection; thorough: "
                                "single fields, get_data twice, field then get_data, other field then field",
                   "every format without final newline": "fields in file order and reversed, functions on field values; thorough: "
                                                         "single fields, write twice, slices, whole pool and first line"},
        "lazyiv": {"positions": "0..%d" % (4 if tier == "quick" else 5),
                   "intervals per table": "1..2 sorted on start, all combinations + %d sampled triples" % (8 if tier == "quick" else 10),
                   "chromosomes": "one (interval arithmetic); every split of the table over two (genomic functions)",
                   "dresses": list(LAZYIV_QUICK_DRESSES) if tier == "quick" else list(LAZYIV_DRESSES),
                   "ways of reading": ["read_chunk"] + ([] if tier == "quick" else ["read (every 6th file)"]),
                   "functions": sorted(_lazyiv_functions()),
                   "merge_intervals": "distance 0 on two of every three dresses (quick: every other dress), distances 1, 2 on two dresses per table",
                   "other functions": "one dress per table, rotating (quick, and genomic ones: every third function per table)"},
        "chunk": {"indexed copies": list(KEEP_INDEX_KINDS),
                  "formats": list(FORMATS), "lines per file": "every non-empty sub-selection of the pool (quick: whole pool and first line)",
                  "pool sizes": {k: len(v[3]) for k, v in FORMATS.items()},
                  "histories": {"first step": list(HISTORY_MODES) + ["(variants) all fields read before", "chunk observed before the second operation"],
                                "second operation with a field": list(HISTORY_FIELD_OPS),
                                "field pairs": "thorough, whole pool and quick, formats %s: all ordered pairs incl. f2 == f1 (pairs of "
                                               "neighbouring columns in both ways of setting f1 and with full observation, the others in one "
                                               "way, top-level columns + written bytes observed); other files: neighbouring columns (ring), "
                                               "quick: in both orders for the formats not in %s" % (list(HISTORY_CHEAP), list(LIGHT_IN_QUICK)),
                                "second operations without a field": "registry of ~27 (thorough, whole pool: one assigned column per kind of "
                                                                     "value, sequence columns in both ways; otherwise one column, 1..10 operations)",
                                "replace chains": "length 2..4, whole column list and its reverse, thorough: every cyclic window of 3 columns; "
                                                  "every chunk of the chain but the last is observed",
                                "files": "thorough: every sub-selection of the pool; quick: whole pool and first line"}},
    }
    deadlines = QUICK_DEADLINES if tier == "quick" else THOROUGH_DEADLINES
    for section in SECTION_ORDER:
        for fn_name, descr in CASES[section](tier, col.rng):
            eval_frame(col, section, fn_name, descr)
            if time.time() - col.t0 > deadlines[section]:
                col.exhaustive = False
                break
    with TmpDir() as tmp:
        # user-owned / writable buffers (added after the budget of the sections around them was fixed: they get their own
        # time allowance, and the wall budget is extended by what they used so that the chunk section keeps its share)
        t_new = time.time()
        run_rawbuf(col, tier, tmp, NEW_ALLOWANCE[tier != "quick"][0])
        run_writable_chunks(col, tier, tmp, NEW_ALLOWANCE[tier != "quick"][1])
        col.budget_s += min(time.time() - t_new, sum(NEW_ALLOWANCE[tier != "quick"]) + 1)
        t_new = time.time()
        run_lazyiv(col, tier, tmp, LAZYIV_ALLOWANCE[tier != "quick"])
        col.budget_s += min(time.time() - t_new, LAZYIV_ALLOWANCE[tier != "quick"] + 1)
        run_chunks(col, tier, tmp)
    if _UNKNOWN_TYPES:
        col.undecided.append("snapshot could not look into values of type(s) %s" % sorted(_UNKNOWN_TYPES))
    return col.result()


def replay(case):
    col = Collector(PID, "quick", 0, "replay")
    if case.get("section") == "rawbuf":
        with TmpDir() as tmp:
            _CASE_TMP[0] = tmp
            eval_rawbuf(col, case)
    elif case.get("section") == "lazyiv":
        with TmpDir() as tmp:
            _CASE_TMP[0] = tmp
            eval_lazyiv(col, case)
    elif case.get("section") == "chunk":
        with TmpDir() as tmp:
            try:
                env = ChunkEnv(tmp, case["format"], case["lines"], final_newline=case.get("final_newline", True))
            except Exception:
                return False, "cannot read or write a fresh chunk: " + traceback.format_exc()[-400:]
            if case["scenario"][0] != "baseline":
                eval_chunk(col, env, case["scenario"])
    else:
        eval_frame(col, case["section"], case["fn"], case["input"])
    if col.failures:
        return False, "; ".join(f["signature"] + ": " + f["message"] for f in col.failures)
    return True, "ok"
