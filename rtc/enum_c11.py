"""C11 bounded stand-in: streamed evaluation == in-memory evaluation for EVERY chunking.

Every case is (dataset, chunking, computation).  The dataset of n entries is cut into consecutive non-empty chunks in
all 2^(n-1) ways (exhaustive up to the tier's bound, seeded samples of cut sets above it), the REAL bionumpy stream
machinery is run on the chunk stream and the value is compared with an independent plain-Python model of the same
computation on the concatenated data (lists, itertools.groupby, per-base pileup lists, numpy only as a container).

Kinds of case (field "kind"):
  reduce   bnp.mean (axis None/0/1, ints, dyadic floats, ragged), bnp.bincount (+minlength), bnp.histogram (range / explicit
           edges), bnp.quantile, user @streamable functions (map, reduction, two zipped streams) - over ArrayStream from
           NpDataclassStream attributes, BnpStream and raw generators
  kmers    bnp.sequence.count_kmers (k=2,3) and the streamable map get_reverse_complement on a stream of sequences
  groupby  bnp.groupby on a sorted key for every composition of n into groups x every chunking (cuts inside a group, right
           after a group, one-entry chunks); key kinds: text column (ragged), StringEncoding column, integer column,
           ragged array without column
  chrommap streams.grouped.chromosome_map (with and without reduction) over groupby(stream)
  rechunk  chunk_entries / chunk_lines for every incoming chunking x every n_entries; also incoming streams WITH empty chunks
           (every cutting x every way of inserting empty chunks: leading, inner, trailing, several in a row; the all-empty
           stream) - signatures rechunk:<fn>:empty-incoming-chunks:...
  bigcount count_kmers / count_encoded on in-memory tables and on streams whose chunks hold MORE than 1,000,000 values (the
           size above which count_encoded counts block-wise) against the per-element count
  graph    computation_graph: StreamNode columns -> ufunc expressions, np.sum / np.mean / np.histogram reductions, compute of
           node / list / tuple / dict, nodes sharing an upstream node (lock step)
  genomic  Genome(1..4 chromosomes).get_intervals(stream) / get_track(stream) pipelines evaluated with compute:
           intervals, pileup, mask, values under intervals (second stream with its own chunking), stranded windows,
           sum / histogram / mean reductions, joint reductions; mean(axis=0) over extracted windows of UNEQUAL length
           (windows with their own per-chromosome counts and chunking; the longest window has the same length on every
           chromosome that has windows; a small sub-scope where it has not, under its own signature)
  file     BED file -> bnp.open().read_chunks(min_chunk_size=k) for every k -> groupby / mean / pileup / chunk-wise filter
           (leaves empty chunks) followed by chunk_lines / chunk_entries
  histauto bnp.histogram with data-dependent edges (bins=int, no range) - literal reading of the statement
  nd       the reductions on 1-D chunks and on 2-D chunks of fixed-width rows (1..5 columns) with axis None, 0 and -1: bnp.mean
           (ints, floats), a user @streamable(sum) of np.sum, bnp.histogram, and np.mean / np.sum / np.histogram of a StreamNode
           evaluated with compute; the in-memory value is numpy's on the concatenated array (signatures reduce:nd:<fn>:<1d|2d>:axis<a>)
  stranded values of a streamed track (get_track(stream)) or pileup under STRANDED windows whose strands are drawn from all three
           legal symbols '+', '-', '.' (every assignment for small n), windows streamed with their own chunking or in memory,
           track values that are no palindromes under any window; rows and mean(axis=0); the direction of a '.' window is the
           one the in-memory pipeline uses (signatures genomic:stranded-windows:...)
  windows  streamed intervals -> get_location('start') -> get_windows(flank=k | window_size=w) for EVERY option value (flank 0..3,
           window_size 1..8: odd and even, windows clipped at both chromosome ends) on genomes of 1..4 chromosomes x every chunking,
           evaluated as the windows themselves, their pileup, their mask and the values of the reads' pileup under them; the stream
           comes from chunks of a table, from Genome.read_intervals(stream=True) or from read_chunks(min_chunk_size=k) of a BED file
           (signatures genomic:windows:<flank|window_size-odd|window_size-even>:<op>:...)
"""
import itertools
import os

from .common import Collector, TmpDir, to_py

PID = "C11"
# exhaustive bound on the number of entries n per kind of case (all 2^(n-1) cut sets for every n up to the bound)
NMAX = {"quick": {"reduce": 8, "kmers": 6, "groupby": 6, "rechunk": 7, "graph": 7},
        "thorough": {"reduce": 10, "kmers": 9, "groupby": 8, "rechunk": 10, "graph": 10}}


# re-chunking of streams that contain empty chunks: (largest n, largest number of empty chunks; n = largest n gets one)
RECHUNK_EMPTY = {"quick": (5, 2), "thorough": (7, 3)}


# ----------------------------------------------------------------------------------------------------------------------
# enumeration helpers
# ----------------------------------------------------------------------------------------------------------------------
def all_cuts(n):
    """every way of cutting n entries into consecutive non-empty chunks = every subset of {1..n-1}"""
    pos = list(range(1, n))
    for r in range(len(pos) + 1):
        for c in itertools.combinations(pos, r):
            yield list(c)


def sampled_cuts(n, rng, k):
    """seeded cut sets for n above the exhaustive bound; always includes the structured ones"""
    out = [[], list(range(1, n)), [1], [n - 1], list(range(2, n, 2)), list(range(1, n, 3)), [n // 2]]
    out = [c for c in out if all(0 < x < n for x in c)]
    seen = {tuple(c) for c in out}
    while len(out) < k:
        c = tuple(sorted(i for i in range(1, n) if rng.random() < rng.choice((0.2, 0.5, 0.8))))
        if c not in seen:
            seen.add(c)
            out.append(list(c))
    return out


def cuts_with_empties(n, max_empty):
    """every cut list (weakly increasing, values 0..n) that cuts n entries into consecutive chunks of which 1..max_empty
    are EMPTY: each cutting into non-empty chunks x each multiset of positions (before the first chunk, between two chunks,
    after the last chunk) at which an empty chunk is inserted.  pieces() turns a repeated cut position into an empty chunk."""
    if n == 0:
        for e in range(0, max_empty):
            yield [0] * e           # e + 1 chunks, all empty
        return
    for cuts in all_cuts(n):
        b = [0] + cuts + [n]
        for e in range(1, max_empty + 1):
            for pos in itertools.combinations_with_replacement(range(len(b)), e):
                yield sorted(cuts + [b[p] for p in pos])


def compositions(n):
    """ordered group sizes summing to n"""
    for cuts in all_cuts(n):
        b = [0] + cuts + [n]
        yield [y - x for x, y in zip(b[:-1], b[1:])]


def pieces(x, cuts):
    b = [0] + list(cuts) + [len(x)]
    return [x[i:j] for i, j in zip(b[:-1], b[1:])]


def values(n, pat):
    if pat == "up":
        return [i for i in range(n)]
    if pat == "down":
        return [n - 1 - i for i in range(n)]
    if pat == "mix":
        return [(i * 7 + 3) % 5 for i in range(n)]
    if pat == "peak":  # maximum in the middle, zeros at the ends
        return [min(i, n - 1 - i) * 2 for i in range(n)]
    raise ValueError(pat)


PATTERNS = ("up", "down", "mix", "peak")


def array_stream(x, cuts, container):
    """a stream of the chunks of numpy array x"""
    import numpy as np
    from bionumpy.streams import BnpStream, NpDataclassStream
    from bionumpy.datatypes import Interval
    if container == "bnp":
        return BnpStream(iter(pieces(x, cuts)))
    if container == "gen":
        return (p for p in pieces(x, cuts))
    if container == "dc":
        full = Interval(["chr1"] * len(x), np.asarray(x), np.asarray(x) + 1)
        return NpDataclassStream((p for p in pieces(full, cuts)), dataclass=Interval).start
    raise ValueError(container)


def flat(x):
    import numpy as np
    if hasattr(x, "to_array"):
        x = x.to_array()
    return np.asarray(x).reshape(-1).tolist()


def close(a, b):
    a, b = list(a), list(b)
    return len(a) == len(b) and all(abs(x - y) <= 1e-9 * max(1.0, abs(y)) for x, y in zip(a, b))


# ----------------------------------------------------------------------------------------------------------------------
# plain-Python models
# ----------------------------------------------------------------------------------------------------------------------
def model_bincount(vals, minlength=0):
    out = [0] * max(minlength, (max(vals) + 1) if vals else 0)
    for v in vals:
        out[v] += 1
    return out


def model_histogram(vals, edges):
    out = [0] * (len(edges) - 1)
    for v in vals:
        if v < edges[0] or v > edges[-1]:
            continue
        if v == edges[-1]:
            out[-1] += 1
            continue
        i = max(j for j in range(len(edges) - 1) if edges[j] <= v)
        out[i] += 1
    return out


def model_quantile(vals, qs):
    bc = model_bincount(vals)
    cum = list(itertools.accumulate(bc))
    res = []
    for q in qs:
        t = q * cum[-1]
        res.append(next((i for i, c in enumerate(cum) if c >= t), len(cum)))
    return res


def model_kmers(seqs, k):
    counts = {}
    for s in seqs:
        for i in range(len(s) - k + 1):
            counts[s[i:i + k]] = counts.get(s[i:i + k], 0) + 1
    return counts


COMP = {"A": "T", "C": "G", "G": "C", "T": "A"}


# ----------------------------------------------------------------------------------------------------------------------
# kind "reduce"
# ----------------------------------------------------------------------------------------------------------------------
REDUCE_OPS = ("mean", "mean:float", "mean:axis0", "mean:axis1", "mean:ragged", "bincount", "bincount:minlength",
              "histogram:range", "histogram:edges", "quantile", "user:sum", "user:map", "user:two-streams",
              "user:list")


def check_reduce(col, case):
    import numpy as np
    import bionumpy as bnp
    from npstructures import RaggedArray
    op, n, pat, cuts, cont = case["op"], case["n"], case["pat"], case["cuts"], case["container"]
    vals = values(n, pat)
    sig = "reduce:" + op
    col.case(case, contract="streamed " + op + " == in-memory")
    x = np.array(vals)

    def run():
        if op == "mean":
            got = bnp.mean(array_stream(x, cuts, cont))
            return close(flat(got), [sum(vals) / n]), got, sum(vals) / n
        if op == "mean:float":
            fv = [v * 0.25 - 1.0 for v in vals]
            got = bnp.mean(array_stream(np.array(fv), cuts, cont))
            return close(flat(got), [sum(fv) / n]), got, sum(fv) / n
        if op in ("mean:axis0", "mean:axis1"):
            rows = [[v, 2 * (n - v), 1] for v in vals]
            s = array_stream(np.array(rows), cuts, cont)
            if op == "mean:axis0":
                got = bnp.mean(s, axis=0)
                exp = [sum(r[j] for r in rows) / n for j in range(3)]
                return close(flat(got), exp), got, exp
            got = [flat(c) for c in bnp.mean(s, axis=1)]
            exp = [[sum(r) / 3 for r in p] for p in pieces(rows, cuts)]
            return (len(got) == len(exp) and all(close(g, e) for g, e in zip(got, exp))), got, exp
        if op == "mean:ragged":
            rows = [[v + j for j in range(1 + (v + i) % 3)] for i, v in enumerate(vals)]
            ra = RaggedArray(rows)
            got = bnp.mean(array_stream(ra, cuts, cont))
            allv = [e for r in rows for e in r]
            return close(flat(got), [sum(allv) / len(allv)]), got, sum(allv) / len(allv)
        if op == "bincount":
            got = bnp.bincount(array_stream(x, cuts, cont))
            exp = model_bincount(vals)
            return flat(got) == exp, got, exp
        if op == "bincount:minlength":
            got = bnp.bincount(array_stream(x, cuts, cont), minlength=4)
            exp = model_bincount(vals, 4)
            return flat(got) == exp, got, exp
        if op == "histogram:range":
            got = bnp.histogram(array_stream(x, cuts, cont), bins=3, range=(0, 6))
            edges = [0.0, 2.0, 4.0, 6.0]
            exp = model_histogram(vals, edges)
            return flat(got[0]) == exp and close(flat(got[1]), edges), got, (exp, edges)
        if op == "histogram:edges":
            edges = [0, 1, 3, 4, 8]
            got = bnp.histogram(array_stream(x, cuts, cont), bins=edges)
            exp = model_histogram(vals, edges)
            return flat(got[0]) == exp and close(flat(got[1]), edges), got, (exp, edges)
        if op == "quantile":
            qs = [0.25, 0.5, 1.0]
            got = bnp.quantile(array_stream(x, cuts, cont), np.array(qs))
            exp = model_quantile(vals, qs)
            return flat(got) == exp, got, exp
        if op == "user:sum":
            f = bnp.streamable(sum)(lambda a, w: int((a * w).sum()))
            got = f(array_stream(x, cuts, cont), 3)
            return got == 3 * sum(vals), got, 3 * sum(vals)
        if op == "user:list":
            f = bnp.streamable(list)(lambda a: a.tolist())
            got = f(array_stream(x, cuts, cont))
            exp = pieces(vals, cuts)
            return got == exp, got, exp
        if op == "user:map":
            f = bnp.streamable()(lambda a, w: a * w + 1)
            got = [flat(c) for c in f(array_stream(x, cuts, cont), 2)]
            exp = [[v * 2 + 1 for v in p] for p in pieces(vals, cuts)]
            return got == exp, got, exp
        if op == "user:two-streams":
            f = bnp.streamable(sum)(lambda a, b: int((a * b).sum()))
            y = np.array(vals[::-1]) + 1
            got = f(array_stream(x, cuts, cont), array_stream(y, cuts, "bnp"))
            exp = sum(a * (b + 1) for a, b in zip(vals, vals[::-1]))
            return got == exp, got, exp
        raise ValueError(op)

    r = col.guarded(run, sig, case)
    if r is not None:
        ok, got, exp = r
        col.check(ok, sig + ":differs-from-in-memory", case, "got %r expected %r" % (got, exp))


def gen_reduce(tier, rng):
    nmax = NMAX[tier]["reduce"]
    for n in range(1, nmax + 1):
        for cuts in all_cuts(n):
            for op in REDUCE_OPS:
                # every op on the 'mix' pattern; the other patterns (position of the maximum moves between the chunks)
                # for the ops whose chunk results differ in length or whose first chunk is special
                pats = PATTERNS if op in ("bincount", "bincount:minlength", "quantile", "histogram:range", "mean") else ("mix",)
                for pat in pats:
                    conts = ("bnp",)
                    if n <= 5 and op in ("mean", "bincount", "histogram:range", "user:sum", "user:map"):
                        conts = ("bnp", "gen", "dc")
                    elif op in ("mean:float", "mean:axis0", "mean:axis1", "mean:ragged"):
                        conts = ("bnp",) if n > 4 else ("bnp", "gen")
                    for cont in conts:
                        yield {"kind": "reduce", "op": op, "n": n, "pat": pat, "cuts": cuts, "container": cont}
    # above the exhaustive bound: sampled cut sets
    for n in ((12, 16) if tier == "quick" else (12, 16, 24, 40)):
        for cuts in sampled_cuts(n, rng, 12 if tier == "quick" else 40):
            for op in ("mean", "bincount", "histogram:range", "quantile", "mean:axis0", "user:two-streams"):
                yield {"kind": "reduce", "op": op, "n": n, "pat": "mix", "cuts": cuts, "container": "bnp", "sampled": True}


# ----------------------------------------------------------------------------------------------------------------------
# kind "histauto": literal statement, data-dependent bin edges
# ----------------------------------------------------------------------------------------------------------------------
def check_histauto(col, case):
    import numpy as np
    import bionumpy as bnp
    vals, cuts = values(case["n"], case["pat"]), case["cuts"]
    col.case(case, contract="streamed histogram(bins=int) == in-memory")
    sig = "histogram:auto-range"
    got = col.guarded(lambda: bnp.histogram(array_stream(np.array(vals), cuts, "bnp"), bins=3), sig, case)
    if got is None:
        return
    lo, hi = min(vals), max(vals)
    if lo == hi:
        lo, hi = lo - 0.5, hi + 0.5
    edges = [lo + (hi - lo) * i / 3 for i in range(4)]
    edges[-1] = hi
    exp = model_histogram(vals, edges)
    col.check(flat(got[0]) == exp and close(flat(got[1]), edges), sig + ":edges-taken-from-first-chunk", case,
              "got %r expected %r" % (got, (exp, edges)))


def gen_histauto(tier, rng):
    for n in (2, 3, 4, 5):
        for cuts in all_cuts(n):
            yield {"kind": "histauto", "n": n, "pat": "up", "cuts": cuts}


# ----------------------------------------------------------------------------------------------------------------------
# kind "kmers"
# ----------------------------------------------------------------------------------------------------------------------
SEQ_POOL = ["ACGT", "AC", "GGTTA", "A", "TTT", "CAGTCA", "GG", "TACG", "CCCA", "GATTACA", "T", "ACGTAC"]


def check_kmers(col, case):
    import numpy as np
    import bionumpy as bnp
    from bionumpy.streams import NpDataclassStream
    from bionumpy.datatypes import SequenceEntry
    n, cuts, op = case["n"], case["cuts"], case["op"]
    seqs = [SEQ_POOL[(i + case["shift"]) % len(SEQ_POOL)] for i in range(n)]
    col.case(case, contract="streamed " + op + " == in-memory")
    full = SequenceEntry(["s%d" % i for i in range(n)], bnp.as_encoded_array(seqs, bnp.DNAEncoding))
    stream = NpDataclassStream((p for p in pieces(full, cuts)), dataclass=SequenceEntry)
    if op.startswith("count_kmers"):
        k = int(op[-1])
        sig = "kmers:count_kmers"
        got = col.guarded(lambda: bnp.sequence.count_kmers(stream.sequence, k), sig, case)
        if got is None:
            return
        exp = model_kmers(seqs, k)
        gd = {a: int(c) for a, c in zip(got.alphabet, np.asarray(got.counts).reshape(-1)) if int(c)}
        col.check(gd == exp, sig + ":differs-from-in-memory", case, "got %r expected %r" % (gd, exp))
    else:
        sig = "kmers:reverse_complement-map"
        got = col.guarded(lambda: [to_py(c.sequence) for c in bnp.sequence.get_reverse_complement(stream)], sig, case)
        if got is None:
            return
        exp = [["".join(COMP[c] for c in reversed(s)) for s in p] for p in pieces(seqs, cuts)]
        col.check(got == exp, sig + ":differs-from-in-memory", case, "got %r expected %r" % (got, exp))


def gen_kmers(tier, rng):
    nmax = NMAX[tier]["kmers"]
    for n in range(1, nmax + 1):
        for cuts in all_cuts(n):
            for shift in ((0, 3) if n <= 5 else (0,)):
                for op in ("count_kmers:2", "count_kmers:3", "revcomp"):
                    yield {"kind": "kmers", "op": op, "n": n, "cuts": cuts, "shift": shift}


# ----------------------------------------------------------------------------------------------------------------------
# kind "bigcount": symbol / k-mer counts of chunks and in-memory tables with MORE values than the block size (1,000,000)
# above which count_encoded counts block-wise.  The statement has no size bound: the count of a big chunk, of the big
# in-memory table and of the same data streamed in small chunks must all be the per-element count.
# ----------------------------------------------------------------------------------------------------------------------
BIG_BLOCK = 1000000
BIG_LENS = {"equal": (100,), "ragged": (37, 100, 6, 250, 64, 151)}    # read lengths, cyclic (all >= largest k)
# number of counted values (k-mers, symbols) per dataset: just above the block size, between one and two blocks; thorough:
# the sizes around one block, an exact multiple, just above two blocks, between three and four blocks
BIG_TOTALS = {"quick": ((1000001, "ragged"), (1237411, "equal")),
              "thorough": ((1000001, "ragged"), (1237411, "equal"), (999999, "equal"), (1000000, "ragged"), (2000000, "equal"),
                           (2000001, "ragged"), (3141593, "ragged"))}
BIG_FNS = ("count_kmers:3", "count_encoded:flat", "count_encoded:ragged-axis-None")   # thorough: + count_kmers:5 on two datasets
_BIG = {}


def big_read_lens(total, lens, k):
    """lengths of the reads that hold exactly `total` windows of k symbols (windows never span two reads)"""
    pat, out, left, i = BIG_LENS[lens], [], total, 0
    while left > 0:
        m = min(pat[i % len(pat)] - k + 1, left)
        out.append(m + k - 1)
        left -= m
        i += 1
    return out


def big_dataset(total, lens, k):
    """(text of all reads, read lengths, per-element k-mer counts {k-mer text: count}); cached (one dataset at a time)"""
    key = (total, lens, k)
    if key not in _BIG:
        import numpy as np
        _BIG.clear()
        read_lens = big_read_lens(total, lens, k)
        a = np.arange(sum(read_lens), dtype=np.uint64)
        codes = (((a * np.uint64(2654435761)) >> np.uint64(13)) % np.uint64(4)).astype(np.uint8)  # fixed pseudo-random bases
        text = codes.tobytes().translate(bytes.maketrans(bytes(range(4)), b"ACGT")).decode("ascii")
        ref, pos = {}, 0
        if k == 1:
            ref = {c: text.count(c) for c in "ACGT" if text.count(c)}
        else:
            for L in read_lens:     # one dictionary update per window: the per-element reference
                r = text[pos:pos + L]
                pos += L
                for i in range(L - k + 1):
                    w = r[i:i + k]
                    ref[w] = ref.get(w, 0) + 1
        assert sum(ref.values()) == total
        _BIG[key] = (text, read_lens, ref)
    return _BIG[key]


def check_bigcount(col, case):
    import numpy as np
    import bionumpy as bnp
    from bionumpy.streams import BnpStream
    from bionumpy.encoded_array import EncodedRaggedArray
    fn, total, lens, cuts, mode = case["fn"], case["total"], case["lens"], case["cuts"], case["mode"]
    k = int(fn.split(":")[1]) if fn.startswith("count_kmers") else 1
    text, read_lens, ref = big_dataset(total, lens, k)
    sig = "bigcount:" + fn.split(":")[0] + ":" + mode
    col.case(case, contract=fn + " of chunks / tables larger than the block size == per-element count")

    def run():
        flat_seq = bnp.as_encoded_array(text, bnp.DNAEncoding)
        if fn == "count_encoded:flat":
            data, f = flat_seq, (lambda c: bnp.count_encoded(c))
        else:
            data = EncodedRaggedArray(flat_seq, np.array(read_lens))
            f = (lambda c: bnp.count_encoded(c, axis=None)) if fn.startswith("count_encoded") else \
                (lambda c: bnp.sequence.count_kmers(c, k))
        if mode == "in-memory":
            return f(data)
        chunks = pieces(data, cuts)
        if fn.startswith("count_kmers"):
            return f(BnpStream(iter(chunks)))          # count_kmers is itself @streamable(sum)
        return bnp.streamable(sum)(f)(BnpStream(iter(chunks)))

    got = col.guarded(run, sig, case)
    if got is None:
        return
    gd = {a: int(c) for a, c in zip(got.alphabet, np.asarray(got.counts).reshape(-1)) if int(c)}
    diff = sorted(w for w in set(gd) | set(ref) if gd.get(w, 0) != ref.get(w, 0))
    col.check(not diff, sig + ":differs-from-per-element-count", case,
              "%d values counted, expected %d; e.g. %s" % (sum(gd.values()), total,
                                                           [(w, gd.get(w, 0), ref.get(w, 0)) for w in diff[:4]]))


def gen_bigcount(tier, rng):
    for di, (total, lens) in enumerate(BIG_TOTALS[tier]):
        for fn in BIG_FNS + (("count_kmers:5",) if tier == "thorough" and di < 2 else ()):
            k = int(fn.split(":")[1]) if fn.startswith("count_kmers") else 1
            e = total if fn == "count_encoded:flat" else len(big_read_lens(total, lens, k))   # entries that can be cut
            yield {"kind": "bigcount", "fn": fn, "total": total, "lens": lens, "cuts": [], "mode": "in-memory"}
            # one chunk; five chunks (each below the block size up to 5M values); a one-entry chunk followed by a chunk
            # above the block size; the same mirrored; 10 % + 90 %; two halves
            for cuts in ([], [e * i // 5 for i in range(1, 5)], [1], [e - 1], [e // 10], [e // 2]):
                yield {"kind": "bigcount", "fn": fn, "total": total, "lens": lens, "cuts": cuts, "mode": "streamed"}


# ----------------------------------------------------------------------------------------------------------------------
# kind "groupby"
# ----------------------------------------------------------------------------------------------------------------------
GROUP_NAMES = ["chr1", "chr2", "chr10", "chr1_alt", "chrX", "c", "chr11", "chr21", "chrY", "chrM"]
KEYKINDS = ("text", "encoded", "int", "ragged-nocolumn")


def group_rows(sizes):
    """rows (name, start, stop); start restarts in each group, int key = group index * 3 + 2"""
    rows = []
    for g, size in enumerate(sizes):
        for j in range(size):
            rows.append((GROUP_NAMES[g], 2 * j + g, 2 * j + g + 3, g * 3 + 2))
    return rows


def check_groupby(col, case):
    import numpy as np
    import bionumpy as bnp
    from bionumpy.streams import NpDataclassStream, BnpStream
    from bionumpy.datatypes import Interval, BedGraph
    from bionumpy.encoded_array import EncodedArray
    from bionumpy.encodings.string_encodings import StringEncoding
    sizes, cuts, kk = case["sizes"], case["cuts"], case["key"]
    rows = group_rows(sizes)
    sig = "groupby:" + kk
    col.case(case, contract="groupby(stream) == groupby(concatenated)")
    names = [r[0] for r in rows]

    def run():
        if kk == "ragged-nocolumn":
            # each chunk is encoded on its own (row-indexing a *sliced* ragged array raises inside npstructures with
            # this numpy; that is unrelated to streaming)
            stream = BnpStream(iter([bnp.as_encoded_array(p) for p in pieces(names, cuts)]))
            return [(k, to_py(g)) for k, g in bnp.groupby(stream)]
        if kk == "encoded":
            enc = StringEncoding(GROUP_NAMES)
            chrom = EncodedArray(np.array([GROUP_NAMES.index(x) for x in names]), enc)
        else:
            chrom = names
        full = BedGraph(chrom, [r[1] for r in rows], [r[2] for r in rows], [r[3] for r in rows])
        stream = NpDataclassStream((p for p in pieces(full, cuts)), dataclass=BedGraph)
        column = "value" if kk == "int" else "chromosome"
        def chrom_names(c):
            return [GROUP_NAMES[i] for i in c.raw().tolist()] if kk == "encoded" else to_py(c)
        return [(k, list(zip(chrom_names(g.chromosome), g.start.tolist(), g.stop.tolist(), g.value.tolist())))
                for k, g in bnp.groupby(stream, column)]

    got = col.guarded(run, sig, case)
    if got is None:
        return
    if kk == "ragged-nocolumn":
        exp = [(k, [r[0] for r in g]) for k, g in itertools.groupby(rows, key=lambda r: r[0])]
    elif kk == "int":
        exp = [(str(k), list(g)) for k, g in itertools.groupby(rows, key=lambda r: r[3])]
    else:
        exp = [(k, list(g)) for k, g in itertools.groupby(rows, key=lambda r: r[0])]
    gk, ek = [k for k, _ in got], [k for k, _ in exp]
    if not col.check(gk == ek, sig + ":wrong-group-keys", case, "got keys %r expected %r" % (gk, ek)):
        return
    col.check([list(map(tuple, g)) if kk != "ragged-nocolumn" else g for _, g in got] == [g for _, g in exp],
              sig + ":wrong-group-content", case, "got %r expected %r" % (got, exp))


def gen_groupby(tier, rng):
    nmax = NMAX[tier]["groupby"]
    for n in range(1, nmax + 1):
        for sizes in compositions(n):
            for cuts in all_cuts(n):
                for kk in KEYKINDS:
                    if n >= 6 and kk in ("ragged-nocolumn", "int") and len(sizes) > 4:
                        continue
                    yield {"kind": "groupby", "sizes": sizes, "cuts": cuts, "key": kk}
    # n = 10 (statement bound): three group structures x all 512 chunkings (thorough), sampled (quick)
    for sizes in ([4, 1, 3, 2], [1, 1, 1, 1, 1, 1, 1, 1, 1, 1], [10], [5, 5]):
        cs = list(all_cuts(10)) if tier == "thorough" else sampled_cuts(10, rng, 25)
        for cuts in cs:
            yield {"kind": "groupby", "sizes": sizes, "cuts": cuts, "key": "text" if len(cuts) % 2 else "encoded"}


# ----------------------------------------------------------------------------------------------------------------------
# kind "chrommap": streams/grouped.py chromosome_map over the grouped stream of a chunked table
# ----------------------------------------------------------------------------------------------------------------------
def check_chrommap(col, case):
    import bionumpy as bnp
    from bionumpy.streams import NpDataclassStream
    from bionumpy.streams.grouped import chromosome_map
    from bionumpy.datatypes import BedGraph
    sizes, cuts, op = case["sizes"], case["cuts"], case["op"]
    rows = group_rows(sizes)
    sig = "chrommap:" + op
    col.case(case, contract="chromosome_map over groupby(stream) == per-group value of the whole table")

    def run():
        full = BedGraph([r[0] for r in rows], [r[1] for r in rows], [r[2] for r in rows], [r[3] for r in rows])
        stream = NpDataclassStream((p for p in pieces(full, cuts)), dataclass=BedGraph)
        grouped = bnp.groupby(stream, "chromosome")
        if op == "map":
            f = chromosome_map()(lambda data, w: int((data.stop - data.start).sum()) * w + len(data))
            return [(k, v) for k, v in f(grouped, 10)]
        f = chromosome_map(reduction=sum)(lambda data, w: int(data.start.sum()) * w)
        return f(grouped, w=2)

    got = col.guarded(run, sig, case)
    if got is None:
        return
    if op == "map":
        exp = [(k, (lambda g: sum(r[2] - r[1] for r in g) * 10 + len(g))(list(g))) for k, g in itertools.groupby(rows, key=lambda r: r[0])]
    else:
        exp = 2 * sum(r[1] for r in rows)
    col.check(got == exp, sig + ":differs-from-in-memory", case, "got %r expected %r" % (got, exp))


def gen_chrommap(tier, rng):
    for n in range(1, (5 if tier == "quick" else 7) + 1):
        for sizes in compositions(n):
            for cuts in all_cuts(n):
                for op in ("map", "reduce"):
                    yield {"kind": "chrommap", "op": op, "sizes": sizes, "cuts": cuts}


# ----------------------------------------------------------------------------------------------------------------------
# kind "rechunk"
# ----------------------------------------------------------------------------------------------------------------------
def check_rechunk(col, case):
    import numpy as np
    from bionumpy.streams import NpDataclassStream, BnpStream
    from bionumpy.streams.chunk_entries import chunk_entries
    from bionumpy.io.parser import chunk_lines
    from bionumpy.datatypes import Interval
    n, cuts, m, fn, data = case["n"], case["cuts"], case["m"], case["fn"], case["data"]
    sig = "rechunk:" + fn
    vals = [(i * 5 + 1) % 11 + 10 * i for i in range(n)]  # all different: order is observable
    if any(len(p) == 0 for p in pieces(vals, cuts)):
        # cut lists with repeated positions / 0 / n: the incoming stream contains EMPTY chunks (what a chunk-wise filter
        # or an empty chromosome leaves behind); own signatures, the contract is the same
        sig += ":empty-incoming-chunks"
    col.case(case, contract=fn + ": chunks of exactly n except the last, order kept")

    def run():
        if data == "array":
            stream = BnpStream(iter(pieces(np.array(vals), cuts)))
            conv = lambda c: np.asarray(c).tolist()
        else:
            full = Interval(["chr%d" % (v % 3) for v in vals], vals, [v + 1 for v in vals])
            stream = NpDataclassStream((p for p in pieces(full, cuts)), dataclass=Interval)
            conv = lambda c: c.start.tolist()
        out = chunk_entries(stream, m) if fn == "chunk_entries" else chunk_lines(stream, m)
        return [conv(c) for c in out]

    got = col.guarded(run, sig, case)
    if got is None:
        return
    col.check([v for c in got for v in c] == vals, sig + ":content-or-order-changed", case, "got %r from %r" % (got, vals))
    col.check(all(len(c) == m for c in got[:-1]), sig + ":non-final-chunk-not-n-entries", case,
              "chunk sizes %r for n_entries=%d, incoming %r" % ([len(c) for c in got], m, [len(p) for p in pieces(vals, cuts)]))


def gen_rechunk(tier, rng):
    nmax = NMAX[tier]["rechunk"]
    for n in range(1, nmax + 1):
        for cuts in all_cuts(n):
            for m in range(1, n + 2):
                for fn in ("chunk_entries", "chunk_lines"):
                    datas = ("array", "dataclass") if n <= 5 else (("array",) if (m + len(cuts)) % 2 else ("dataclass",))
                    for data in datas:
                        yield {"kind": "rechunk", "fn": fn, "n": n, "cuts": cuts, "m": m, "data": data}
    # incoming streams WITH empty chunks: every cutting into non-empty chunks x every way of inserting 1..e empty chunks
    # (leading, between any two chunks, trailing, several in a row) x every n_entries; n = 0 is the all-empty stream
    nmax_e, max_e = RECHUNK_EMPTY[tier]
    for n in range(0, nmax_e + 1):
        for cuts in cuts_with_empties(n, 1 if n == nmax_e else max_e - 1 if tier == "thorough" and n == nmax_e - 1 else max_e):
            for m in range(1, n + 2):
                for fn in ("chunk_entries", "chunk_lines"):
                    datas = ("array", "dataclass") if n <= 3 else (("array",) if (m + len(cuts)) % 2 else ("dataclass",))
                    for data in datas:
                        yield {"kind": "rechunk", "fn": fn, "n": n, "cuts": cuts, "m": m, "data": data}


# ----------------------------------------------------------------------------------------------------------------------
# kind "graph": computation_graph over StreamNode columns
# ----------------------------------------------------------------------------------------------------------------------
GRAPH_OPS = ("add", "two_step", "where", "sum", "mean", "mean:axis0", "histogram", "joint:tuple", "joint:dict",
             "join:list", "shared-upstream", "node.compute", "index")


def check_graph(col, case):
    import numpy as np
    from bionumpy.computation_graph import StreamNode, compute
    n, cuts, op = case["n"], case["cuts"], case["op"]
    A = values(n, "mix")
    B = values(n, "down")
    sig = "graph:" + op
    col.case(case, contract="compute(graph over chunks) == numpy on whole columns")

    def node(v):
        return StreamNode(iter(pieces(np.array(v), cuts)))

    def run():
        a, b = node(A), node(B)
        if op == "add":
            return flat(compute(a + b)), [x + y for x, y in zip(A, B)]
        if op == "two_step":
            return flat(compute(a * b + b - a)), [x * y + y - x for x, y in zip(A, B)]
        if op == "where":
            return flat(compute(np.where(a - b > 0, a + b, 1000))), [x + y if x - y > 0 else 1000 for x, y in zip(A, B)]
        if op == "sum":
            return [int(compute(np.sum(a * b)))], [sum(x * y for x, y in zip(A, B))]
        if op == "mean":
            return flat(compute(np.mean(a))), [sum(A) / n]
        if op == "mean:axis0":
            rows = [[x, y] for x, y in zip(A, B)]
            return flat(compute(np.mean(node(rows), axis=0))), [sum(A) / n, sum(B) / n]
        if op == "histogram":
            h = compute(np.histogram(a, bins=3, range=(0, 6)))
            return flat(h[0]) + flat(h[1]), model_histogram(A, [0, 2, 4, 6]) + [0, 2, 4, 6]
        if op == "joint:tuple":
            h, s, m = compute((np.histogram(a, bins=3, range=(0, 6)), np.sum(b), np.mean(a + b)))
            return flat(h[0]) + [int(s)] + flat(m), model_histogram(A, [0, 2, 4, 6]) + [sum(B)] + [(sum(A) + sum(B)) / n]
        if op == "joint:dict":
            d = compute({"s": np.sum(a), "t": np.sum(b * 2)})
            return [sorted(d), int(d["s"]), int(d["t"])], [["s", "t"], sum(A), 2 * sum(B)]
        if op == "join:list":
            r = compute([a + 1, 7, b * 2])
            return [flat(r[0]), r[1], flat(r[2])], [[x + 1 for x in A], 7, [y * 2 for y in B]]
        if op == "shared-upstream":
            x = a + 1
            y = a + 2
            z = y + x
            r = compute([x, y, z])
            return [flat(v) for v in r], [[v + 1 for v in A], [v + 2 for v in A], [2 * v + 3 for v in A]]
        if op == "node.compute":
            return flat((a * 2).compute()), [2 * v for v in A]
        if op == "index":
            return flat(compute((a + b)[::2])), [v for p in pieces([x + y for x, y in zip(A, B)], cuts) for v in p[::2]]
        raise ValueError(op)

    r = col.guarded(run, sig, case)
    if r is not None:
        got, exp = r
        ok = got == exp if op in ("joint:dict", "join:list", "shared-upstream") else close(got, exp)
        col.check(ok, sig + ":differs-from-in-memory", case, "got %r expected %r" % (got, exp))


def gen_graph(tier, rng):
    nmax = NMAX[tier]["graph"]
    for n in range(1, nmax + 1):
        for cuts in all_cuts(n):
            for op in GRAPH_OPS:
                yield {"kind": "graph", "op": op, "n": n, "cuts": cuts}


# ----------------------------------------------------------------------------------------------------------------------
# kind "genomic": per-chromosome pipelines
# ----------------------------------------------------------------------------------------------------------------------
CHROMS = [("chr1", 10), ("chr2", 8), ("chr3", 6), ("chr4", 7)]
# sorted intervals per chromosome (overlapping, adjacent, reaching the chromosome end); all of width >= 2
IV_POOL = {"chr1": [(1, 4), (3, 5), (6, 10)], "chr2": [(0, 3), (2, 8), (5, 7)], "chr3": [(0, 2), (2, 4), (4, 6)],
           "chr4": [(2, 5), (2, 5), (3, 7)]}
STRANDS = "+--+-"
# non-overlapping bedgraph rows per chromosome
BG_POOL = {"chr1": [(0, 4, 1), (4, 9, 3), (9, 10, 2)], "chr2": [(1, 3, 5), (3, 4, 1), (6, 8, 2)],
           "chr3": [(0, 6, 4), None, None], "chr4": [(0, 1, 2), (5, 6, 3), (6, 7, 3)]}
GENOMIC_OPS = ("intervals", "pileup", "pileup:sum", "pileup:histogram", "mask", "mask:sum", "joint", "values",
               "values:stranded", "values:mean", "track", "track:sum", "track:values", "location")


# windows of UNEQUAL length for mean(axis=0) over extracted windows: starts per chromosome (any of the widths fits), the
# widths of the windows of one chromosome are the first c values of a width set, rotated
WIN_START = {"chr1": [0, 3, 6], "chr2": [0, 2, 4], "chr3": [0, 1, 2], "chr4": [0, 2, 3]}
WIDTH_SETS = {"421": (4, 2, 1), "442": (4, 4, 2), "413": (4, 1, 3)}
UNEQUAL_OPS = ("values:mean:unequal-windows", "values:mean:unequal-windows:longest-differs-between-chromosomes")


def window_rows(wcounts, wset, rot, cap=None):
    """(chrom, start, stop) windows, wcounts[i] on chromosome i.  Every chromosome that has windows has a longest window
    of width 4 (the first value of every width set), at a position that depends on rot and the chromosome - unless
    cap = index of a chromosome whose windows are all cut to width <= 2."""
    rows = []
    for ci, ((name, _), c) in enumerate(zip(CHROMS, wcounts)):
        for j in range(c):
            w = WIDTH_SETS[wset][(j - rot - ci) % c]
            if cap == ci:
                w = min(w, 2)
            rows.append((name, WIN_START[name][j], WIN_START[name][j] + w))
    return rows


def genomic_rows(counts):
    rows = []
    for (name, _), c in zip(CHROMS, counts):
        for j in range(c):
            s, e = IV_POOL[name][j]
            rows.append((name, s, e, STRANDS[(len(rows)) % len(STRANDS)]))
    return rows


def bedgraph_rows(counts):
    rows = []
    for (name, _), c in zip(CHROMS, counts):
        for j in range(c):
            if BG_POOL[name][j] is not None:
                rows.append((name,) + BG_POOL[name][j])
    return rows


def model_pileup(rows, sizes):
    p = {name: [0] * size for name, size in sizes}
    for r in rows:
        for i in range(r[1], r[2]):
            p[r[0]][i] += 1
    return p


def expand_runs(entries, sizes, what):
    """(chrom, start, stop, value) runs -> per-base lists; every base must be covered exactly once"""
    out = {name: [None] * size for name, size in sizes}
    for name, s, e, v in entries:
        for i in range(s, e):
            if out[name][i] is not None:
                raise AssertionError("%s: base %s:%d covered twice" % (what, name, i))
            out[name][i] = v
    return out


_GENOMES = {}


def check_genomic(col, case):
    import numpy as np
    import bionumpy as bnp
    from bionumpy.streams import NpDataclassStream
    from bionumpy.datatypes import Interval, Bed6, BedGraph
    from bionumpy.computation_graph import compute
    counts, cuts, cuts2, op = case["counts"], case["cuts"], case.get("cuts2"), case["op"]
    sizes = CHROMS[:len(counts)]
    if len(counts) not in _GENOMES:
        _GENOMES[len(counts)] = bnp.Genome.from_dict(dict(sizes))
    genome = _GENOMES[len(counts)]
    rows = genomic_rows(counts)
    sig = "genomic:" + op
    col.case(case, contract="compute(stream pipeline) == per-base model of the whole data")
    pile = model_pileup(rows, sizes)

    def istream(c, stranded=False):
        if stranded:
            full = Bed6([r[0] for r in rows], [r[1] for r in rows], [r[2] for r in rows], ["n%d" % i for i in range(len(rows))],
                        [0] * len(rows), [r[3] for r in rows])
            return genome.get_intervals(NpDataclassStream((p for p in pieces(full, c)), dataclass=Bed6), stranded=True)
        full = Interval([r[0] for r in rows], [r[1] for r in rows], [r[2] for r in rows])
        return genome.get_intervals(NpDataclassStream((p for p in pieces(full, c)), dataclass=Interval))

    def rows_of(r):
        return [np.asarray(x.to_array() if hasattr(x, "to_array") else x).tolist() for x in r]

    def run():
        if op == "intervals":
            r = istream(cuts).compute()
            return list(zip(to_py(r.chromosome), r.start.tolist(), r.stop.tolist())), [r[:3] for r in rows]
        if op == "location":
            loc = istream(cuts).get_location("start")
            c, p = compute((loc.chromosome, loc.position))
            return list(zip(to_py(c), p.tolist())), [(r[0], r[1]) for r in rows]
        if op == "pileup":
            d = compute(istream(cuts).get_pileup().get_data())
            e = list(zip(to_py(d.chromosome), d.start.tolist(), d.stop.tolist(), d.value.tolist()))
            return expand_runs(e, sizes, "pileup"), pile
        if op == "pileup:sum":
            return int(compute(istream(cuts).get_pileup().sum())), sum(sum(v) for v in pile.values())
        if op == "pileup:histogram":
            h = compute(np.histogram(istream(cuts).get_pileup(), bins=3, range=(0, 3)))
            return [flat(h[0]), flat(h[1])], [model_histogram([x for v in pile.values() for x in v], [0, 1, 2, 3]), [0, 1, 2, 3]]
        if op == "mask":
            d = compute(istream(cuts).get_mask().get_data())
            e = [(c, s, t, True) for c, s, t in zip(to_py(d.chromosome), d.start.tolist(), d.stop.tolist())]
            got = {k: [bool(x) for x in v] for k, v in expand_runs(e, sizes, "mask").items()}
            return got, {k: [x > 0 for x in v] for k, v in pile.items()}
        if op == "mask:sum":
            return int(compute(istream(cuts).get_mask().sum())), sum(1 for v in pile.values() for x in v if x > 0)
        if op == "joint":
            p = istream(cuts).get_pileup()
            d = compute({"h": np.histogram(p, bins=3, range=(0, 3)), "s": p.sum()})
            allv = [x for v in pile.values() for x in v]
            return [flat(d["h"][0]), int(d["s"])], [model_histogram(allv, [0, 1, 2, 3]), sum(allv)]
        if op == "values":
            r = compute(istream(cuts).get_pileup()[istream(cuts2)])
            return rows_of(r), [pile[c][s:e] for c, s, e, _ in rows]
        if op == "values:stranded":
            r = compute(istream(cuts, True).get_pileup()[istream(cuts2, True)])
            return rows_of(r), [pile[c][s:e] if st == "+" else pile[c][s:e][::-1] for c, s, e, st in rows]
        if op == "values:mean":
            # equal-width windows [start, start+2)
            full = Interval([r[0] for r in rows], [r[1] for r in rows], [r[1] + 2 for r in rows])
            w = genome.get_intervals(NpDataclassStream((p for p in pieces(full, cuts2)), dataclass=Interval))
            r = compute(istream(cuts).get_pileup()[w].mean(axis=0))
            win = [pile[c][s:s + 2] for c, s, e, _ in rows]
            return flat(r), [sum(w_[j] for w_ in win) / len(win) for j in range(2)]
        if op in UNEQUAL_OPS:
            # windows of different length: column j of the mean is over the windows that reach column j
            wins = window_rows(case["wcounts"], case["wset"], case["rot"], case.get("cap"))
            full = Interval([r[0] for r in wins], [r[1] for r in wins], [r[2] for r in wins])
            w = genome.get_intervals(NpDataclassStream((p for p in pieces(full, cuts2)), dataclass=Interval))
            r = compute(istream(cuts).get_pileup()[w].mean(axis=0))
            cols = [[pile[c][s + j] for c, s, e in wins if s + j < e] for j in range(max(e - s for c, s, e in wins))]
            return flat(r), [sum(v) / len(v) for v in cols]
        if op.startswith("track"):
            brow = bedgraph_rows(counts)
            full = BedGraph([r[0] for r in brow], [r[1] for r in brow], [r[2] for r in brow], [r[3] for r in brow])
            cc = [c for c in cuts if c < len(brow)]
            t = genome.get_track(NpDataclassStream((p for p in pieces(full, cc)), dataclass=BedGraph))
            model = {name: [0] * size for name, size in sizes}
            for c, s, e, v in brow:
                model[c][s:e] = [v] * (e - s)
            if op == "track":
                d = compute(t.get_data())
                e = list(zip(to_py(d.chromosome), d.start.tolist(), d.stop.tolist(), d.value.tolist()))
                return expand_runs(e, sizes, "track"), model
            if op == "track:sum":
                return int(compute(t.sum())), sum(sum(v) for v in model.values())
            if op == "track:values":
                r = compute(t[istream(cuts2)])
                return rows_of(r), [model[c][s:e] for c, s, e, _ in rows]
        raise ValueError(op)

    r = col.guarded(run, sig, case)
    if r is not None:
        got, exp = r
        ok = close(got, exp) if op == "values:mean" or op in UNEQUAL_OPS else got == exp
        col.check(ok, sig + ":differs-from-in-memory", case, "got %r expected %r" % (got, exp))


def winmean_bounds(tier):
    return (2, {1: 2, 2: 4, 3: 4, 4: 3}) if tier == "quick" else (3, {1: 3, 2: 5, 3: 4, 4: 4})


def gen_winmean(tier, rng):
    """mean(axis=0) over windows of unequal length: reads as in the other genomic cases (counts, all cuts), windows with
    their own per-chromosome counts (same as the reads / reversed: chromosomes with reads and no windows and vice versa)
    and their own chunking; at least one chromosome has two or more windows (of different length)"""
    quick = tier == "quick"
    maxper, nmax = winmean_bounds(tier)
    i = 0
    for nchrom in (1, 2, 3, 4):
        for counts in itertools.product(range(maxper + 1), repeat=nchrom):
            n = sum(counts)
            if n == 0 or n > nmax[nchrom]:
                continue
            counts = list(counts)
            for wcounts in ([counts] if counts == counts[::-1] else [counts, counts[::-1]]):
                if max(wcounts) < 2:
                    continue      # all windows of width 4: that is op "values:mean"
                for cuts in all_cuts(n):
                    # the windows' chunking: all for n <= 2, else the reads' cut set and the complementary one
                    # (4 chromosomes: the complementary one only)
                    c2s = list(all_cuts(n)) if n <= 2 else [cuts, [k for k in range(1, n) if k not in cuts]]
                    for c2 in c2s[1 if nchrom == 4 and n > 2 else 0:]:
                        i += 1
                        # width set and rotation: all combinations for the small cases, one or two (rotating) above (time)
                        combos = [(ws, rot) for ws in sorted(WIDTH_SETS) for rot in range(max(wcounts))]
                        if not (nchrom == 1 or (nchrom == 2 and n <= (2 if quick else 3))):
                            two = not quick and nchrom == 2
                            combos = [combos[i % len(combos)]] + ([combos[(i + 4) % len(combos)]] if two else [])
                        for ws, rot in combos:
                            yield {"kind": "genomic", "op": UNEQUAL_OPS[0], "counts": counts, "wcounts": wcounts, "cuts": cuts,
                                   "cuts2": c2, "wset": ws, "rot": rot}
    # the longest window is shorter on one chromosome than on the others (small scope: the streamed mean adds the
    # per-chromosome column sums, which have different lengths then)
    for counts in ([2, 1], [1, 2], [2, 2]) if quick else ([2, 1], [1, 2], [2, 2], [2, 0, 2], [1, 2, 1], [3, 2]):
        n = sum(counts)
        for cap in [ci for ci, c in enumerate(counts) if c]:
            for cuts in all_cuts(n) if not quick else ([], list(range(1, n))):
                yield {"kind": "genomic", "op": UNEQUAL_OPS[1], "counts": counts, "wcounts": counts, "cuts": cuts,
                       "cuts2": [k for k in range(1, n) if k not in cuts], "wset": "421", "rot": 0, "cap": cap}


def genomic_bounds(tier):
    """(max entries per chromosome, {number of chromosomes: max n})"""
    return (2, {1: 2, 2: 4, 3: 4, 4: 4}) if tier == "quick" else (3, {1: 3, 2: 6, 3: 6, 4: 5})


def gen_genomic(tier, rng):
    maxper, nmax = genomic_bounds(tier)
    for nchrom in (1, 2, 3, 4):
        for counts in itertools.product(range(maxper + 1), repeat=nchrom):
            n = sum(counts)
            if n == 0 or n > nmax[nchrom]:
                continue
            counts = list(counts)
            for cuts in all_cuts(n):
                for op in GENOMIC_OPS:
                    if op.startswith("track") and not bedgraph_rows(counts):
                        continue
                    if op in ("values", "values:stranded", "values:mean", "track:values"):
                        if tier == "quick" and nchrom == 4 and n == 4:
                            continue   # quick tier: two-stream ops on 4 chromosomes only up to n = 3 (time)
                        # the second stream gets its own chunking: every one for n <= 3, else the same cut set and the
                        # complementary cut set
                        if n <= 3:
                            c2s = list(all_cuts(n))
                        else:
                            c2s = [cuts, [i for i in range(1, n) if i not in cuts]]
                        for c2 in c2s:
                            yield {"kind": "genomic", "op": op, "counts": counts, "cuts": cuts, "cuts2": c2}
                    else:
                        yield {"kind": "genomic", "op": op, "counts": counts, "cuts": cuts}
    # statement bound n = 10 on 4 chromosomes
    for counts in ([3, 2, 3, 2], [3, 3, 1, 3]):
        cs = list(all_cuts(10)) if tier == "thorough" else sampled_cuts(10, rng, 10)
        for cuts in cs:
            for op in ("pileup", "intervals", "joint", "mask:sum"):
                yield {"kind": "genomic", "op": op, "counts": counts, "cuts": cuts}


# ----------------------------------------------------------------------------------------------------------------------
# kind "nd": the streamable reductions on 1-D chunks and on 2-D chunks (fixed-width rows, 1..5 columns) with axis None, 0
# and -1.  The in-memory value is what numpy gives for the concatenated array: axis None -> one number; axis 0 -> one
# number (1-D) / one per column (2-D); axis -1 -> one number (1-D) / one per row (2-D).
# ----------------------------------------------------------------------------------------------------------------------
ND_FNS = ("mean", "mean:float", "user:sum", "histogram", "graph:mean", "graph:sum", "graph:histogram")
ND_WIDTHS = {"quick": (None, 1, 2, 5), "thorough": (None, 1, 2, 3, 5)}     # None = 1-D chunks
ND_NMAX = {"quick": 6, "thorough": 7}


def nd_rows(n, width, floats=False):
    """n entries: numbers (width None) or rows of `width` numbers; no two columns / rows alike"""
    vals = values(n, "mix")
    conv = (lambda v: v * 0.25 - 1.0) if floats else (lambda v: v)
    if width is None:
        return [conv(v) for v in vals]
    return [[conv((v * (j + 2) + 3 * j + i) % 7) for j in range(width)] for i, v in enumerate(vals)]


def model_axis(rows, width, axis, f):
    """f (sum or mean of a list) of the concatenated data over `axis`, as a flat list of numbers"""
    if width is None:
        return [f(rows)]                                        # 1-D: every axis reduces the only axis
    if axis is None:
        return [f([e for r in rows for e in r])]
    if axis == 0:
        return [f([r[j] for r in rows]) for j in range(width)]
    return [f(r) for r in rows]                                 # axis -1: one value per row


def check_nd(col, case):
    import numpy as np
    import bionumpy as bnp
    from bionumpy.streams import BnpStream
    from bionumpy.computation_graph import StreamNode, compute
    fn, n, width, axis, cuts = case["fn"], case["n"], case["width"], case["axis"], case["cuts"]
    rows = nd_rows(n, width, floats=fn == "mean:float")
    sig = "reduce:nd:%s:%s:axis%s" % (fn.replace(":float", ""), "1d" if width is None else "2d", axis)
    col.case(case, contract="streamed %s(axis=%s) on %s chunks == in-memory" % (fn, axis, "1-d" if width is None else "2-d"))
    x = np.array(rows)
    mean = lambda v: sum(v) / len(v)

    def out(r):
        """value of a reduction, or the concatenated chunks of a stream of per-chunk results"""
        if isinstance(r, BnpStream) or hasattr(r, "__next__"):
            return [e for c in r for e in flat(c)]
        return flat(r)

    def run():
        stream = BnpStream(iter(pieces(x, cuts)))
        if fn in ("mean", "mean:float"):
            return out(bnp.mean(stream, axis=axis)), model_axis(rows, width, axis, mean)
        if fn == "user:sum":
            f = bnp.streamable(sum)(lambda a, axis=None: np.sum(a, axis=axis))
            return out(f(stream, axis=axis)), model_axis(rows, width, axis, sum)
        allv = rows if width is None else [e for r in rows for e in r]
        if fn == "histogram":
            h = bnp.histogram(stream, bins=3, range=(0, 6))
            return flat(h[0]) + flat(h[1]), model_histogram(allv, [0, 2, 4, 6]) + [0, 2, 4, 6]
        node = StreamNode(iter(pieces(x, cuts)))
        if fn == "graph:mean":
            return out(compute(np.mean(node, axis=axis))), model_axis(rows, width, axis, mean)
        if fn == "graph:sum":
            return out(compute(np.sum(node, axis=axis))), model_axis(rows, width, axis, sum)
        if fn == "graph:histogram":
            h = compute(np.histogram(node, bins=3, range=(0, 6)))
            return flat(h[0]) + flat(h[1]), model_histogram(allv, [0, 2, 4, 6]) + [0, 2, 4, 6]
        raise ValueError(fn)

    # an exception and a wrong value are the same defect class here (e.g. per-chunk results of different length are
    # added: wrong when the chunks have equal length, an exception otherwise): one signature per (function, ndim, axis)
    try:
        got, exp = run()
    except Exception as e:
        col.check(False, sig + ":differs-from-in-memory", case, "raised %s: %s" % (type(e).__name__, str(e)[-300:]))
        return
    col.check(close(got, exp), sig + ":differs-from-in-memory", case, "got %r expected %r" % (got, exp))


def gen_nd(tier, rng):
    for n in range(1, ND_NMAX[tier] + 1):
        for cuts in all_cuts(n):
            for width in ND_WIDTHS[tier]:
                for fn in ND_FNS:
                    if fn.endswith("histogram"):
                        axes = (None,)                      # np.histogram has no axis: the chunks are flattened
                    elif fn == "user:sum":
                        axes = (None, 0)                    # a sum over the last axis of rows is not a reduction of the stream
                    else:
                        axes = (None, 0, -1)
                    for axis in axes:
                        yield {"kind": "nd", "fn": fn, "n": n, "width": width, "axis": axis, "cuts": cuts}


# ----------------------------------------------------------------------------------------------------------------------
# kind "stranded": values of a streamed track / pileup under STRANDED windows whose strands are drawn from all three
# legal strand symbols '+', '-' and '.'; rows and mean(axis=0).  Track values are chosen so that no window is a palindrome.
# ----------------------------------------------------------------------------------------------------------------------
# bedgraph rows per chromosome (sorted, non-overlapping, with gaps): every window of IV_POOL and every width-3 window at
# WIN_START reads values that differ from their reverse when all four rows are present
TR_POOL = {"chr1": [(0, 2, 1), (2, 3, 5), (4, 7, 2), (7, 10, 3)], "chr2": [(0, 2, 3), (2, 3, 1), (5, 6, 2), (6, 8, 5)],
           "chr3": [(0, 1, 2), (2, 3, 1), (3, 5, 3), (5, 6, 4)], "chr4": [(0, 2, 1), (2, 3, 2), (4, 6, 4), (6, 7, 7)]}
STRAND_SYMBOLS = "+-."
STRANDED_OPS = ("rows", "mean")
_STRANDED_REF = {}


def strand_patterns(n, everything):
    """strand assignments of n windows: all 3^n (small n), else the three rotations of '+-.' and of '.-+', all '.',
    and '.' at each single position among alternating '+'/'-' """
    if everything:
        return ["".join(p) for p in itertools.product(STRAND_SYMBOLS, repeat=n)]
    out = ["".join("+-."[(i + r) % 3] for i in range(n)) for r in range(3)]
    out += ["".join(".-+"[(i + r) % 3] for i in range(n)) for r in range(3)]
    out += ["." * n]
    out += ["".join("." if i == p else "+-"[(i + p) % 2] for i in range(n)) for p in range(n)]
    return list(dict.fromkeys(out))


def stranded_windows(counts, op):
    rows = []
    for (name, _), c in zip(CHROMS, counts):
        for j in range(c):
            rows.append((name,) + (IV_POOL[name][j] if op == "rows" else (WIN_START[name][j], WIN_START[name][j] + 3)))
    return rows


def stranded_source_rows(tcounts, source):
    pool = TR_POOL if source == "track" else IV_POOL
    return [(name,) + tuple(pool[name][j]) for (name, _), c in zip(CHROMS, tcounts) for j in range(c)]


def check_stranded(col, case):
    import numpy as np
    import bionumpy as bnp
    from bionumpy.streams import NpDataclassStream
    from bionumpy.datatypes import Interval, Bed6, BedGraph
    from bionumpy.computation_graph import compute
    counts, tcounts, strands, op, source = case["counts"], case["tcounts"], case["strands"], case["op"], case["source"]
    cuts, cuts2 = case["cuts"], case["cuts2"]
    sizes = CHROMS[:len(counts)]
    if len(counts) not in _GENOMES:
        _GENOMES[len(counts)] = bnp.Genome.from_dict(dict(sizes))
    genome = _GENOMES[len(counts)]
    wins = stranded_windows(counts, op)
    src = stranded_source_rows(tcounts, source)
    sig = "genomic:stranded-windows:%s:%s" % (source, op)
    col.case(case, contract="compute(streamed %s[stranded windows with strands +, -, .]%s) == in-memory"
                            % (source, ".mean(axis=0)" if op == "mean" else ""))
    # per-base model of the indexed array
    if source == "track":
        dense = {name: [0] * size for name, size in sizes}
        for c, s, e, v in src:
            dense[c][s:e] = [v] * (e - s)
    else:
        dense = model_pileup(src, sizes)

    def rows_of(r):
        return [np.asarray(x.to_array() if hasattr(x, "to_array") else x).tolist() for x in r]

    def full_source():
        if source == "track":
            return BedGraph([r[0] for r in src], [r[1] for r in src], [r[2] for r in src], [r[3] for r in src])
        return Interval([r[0] for r in src], [r[1] for r in src], [r[2] for r in src])

    def array_of(data):
        return genome.get_track(data) if source == "track" else genome.get_intervals(data).get_pileup()

    full_w = Bed6([r[0] for r in wins], [r[1] for r in wins], [r[2] for r in wins], ["w%d" % i for i in range(len(wins))],
                  [0] * len(wins), list(strands))

    def run():
        # the in-memory computation (no stream anywhere): it decides the direction of the '.' windows - the property is
        # "streamed == in-memory"; the rows of '+' and '-' windows come from the per-base model
        key = (source, op, tuple(counts), tuple(tcounts), strands)
        if key not in _STRANDED_REF:
            if len(_STRANDED_REF) > 5000:
                _STRANDED_REF.clear()
            _STRANDED_REF[key] = rows_of(array_of(full_source())[genome.get_intervals(full_w, stranded=True)])
        mem = _STRANDED_REF[key]
        exp = []
        for (c, s, e), st, m in zip(wins, strands, mem):
            base = dense[c][s:e]
            if st == ".":
                if m != base and m != base[::-1]:
                    return "in-memory", m, base, None
                exp.append(m)
            else:
                exp.append(base if st == "+" else base[::-1])
        ctype = BedGraph if source == "track" else Interval
        arr = array_of(NpDataclassStream((p for p in pieces(full_source(), cuts)), dataclass=ctype))
        if cuts2 is None:
            w = genome.get_intervals(full_w, stranded=True)          # windows in memory, array streamed
        else:
            w = genome.get_intervals(NpDataclassStream((p for p in pieces(full_w, cuts2)), dataclass=Bed6), stranded=True)
        if op == "rows":
            return "rows", rows_of(compute(arr[w])), exp, exp
        return "mean", flat(compute(arr[w].mean(axis=0))), [sum(r[j] for r in exp) / len(exp) for j in range(3)], exp

    r = col.guarded(run, sig, case)
    if r is None:
        return
    what, got, exp, exp_rows = r
    if what == "in-memory":
        col.check(False, sig + ":in-memory-row-of-dot-strand-window-is-neither-the-values-nor-their-reverse", case,
                  "in-memory row %r, values under the window %r" % (got, exp))
        return
    if close(got, exp) if what == "mean" else got == exp:
        col.check(True, sig + ":differs-from-in-memory", case)
        return
    # own signature when exactly the '.' windows are at fault (streamed and in-memory path treat strand '.' differently)
    if what == "rows":
        only_dot = len(got) == len(exp) and all(g == e or st == "." for g, e, st in zip(got, exp, strands))
    else:
        flipped = [r[::-1] if st == "." else r for r, st in zip(exp_rows, strands)]
        only_dot = close(got, [sum(r[j] for r in flipped) / len(flipped) for j in range(3)])
    col.check(False, sig + (":dot-strand-windows-differ-from-in-memory" if only_dot else ":differs-from-in-memory"), case,
              "strands %r got %r expected %r" % (strands, got, exp))


def stranded_bounds(tier):
    """(max windows per chromosome, {number of chromosomes: max number of windows}, largest n with all 3^n strand assignments
    {number of chromosomes: n})"""
    if tier == "quick":
        return 2, {1: 2, 2: 4, 3: 3, 4: 2}, {1: 2, 2: 2, 3: 1, 4: 1}
    return 3, {1: 3, 2: 4, 3: 4, 4: 3}, {1: 3, 2: 3, 3: 2, 4: 1}


def source_cuts(tcounts):
    """chunkings of the indexed array's own stream: one chunk, one entry per chunk, cuts at the chromosome borders, one
    entry after each border (inside a chromosome), every second entry"""
    nt = sum(tcounts)
    borders = list(itertools.accumulate(tcounts))[:-1]
    out = [[], list(range(1, nt)), borders, [b + 1 for b in borders], list(range(2, nt, 2))]
    res = []
    for c in out:
        c = sorted({k for k in c if 0 < k < nt})
        if c not in res:
            res.append(c)
    return res


def gen_stranded(tier, rng):
    quick = tier == "quick"
    maxper, nmax, allmax = stranded_bounds(tier)
    i = 0
    for nchrom in (1, 2, 3, 4):
        # beyond the bound on n: one dataset with windows on every chromosome
        extra = {3: [[1, 1, 2]], 4: [[1, 1, 1, 1]]}.get(nchrom, [])
        for counts in [list(c) for c in itertools.product(range(maxper + 1), repeat=nchrom)]:
            n = sum(counts)
            if n == 0 or (n > nmax[nchrom] and counts not in extra):
                continue
            # the source stream: all four bedgraph rows (three reads) per chromosome; also sources with chromosomes that have
            # no / one entry
            tfull = [4] * nchrom
            tvariants = [tfull, [(4, 0, 1, 2)[(k + 1) % 4] for k in range(nchrom)], [(1, 4, 0, 3)[k % 4] for k in range(nchrom)]]
            tvariants = [t for k, t in enumerate(tvariants) if sum(t) and t not in tvariants[:k]]
            # the windows' chunking: in memory (None) and every cutting for n <= 3, else in memory + five structured ones
            c2s = [None] + (list(all_cuts(n)) if n <= 3 else source_cuts(counts))
            pats = strand_patterns(n, n <= allmax[nchrom])
            # pattern lists (n above the all-assignments bound) on 3 and 4 chromosomes and for n = 4 (thorough: 4 chromosomes,
            # and 3 with n = 4): a third of the list per chunking, rotating
            thin = n > allmax[nchrom] and (nchrom >= (3 if quick else 4) or (n >= 4 and (quick or nchrom == 3)))
            for ci, c2 in enumerate(c2s):
                for pi, strands in enumerate(pats):
                    if thin and (pi + ci) % 3:
                        continue
                    i += 1
                    # quick: rows and mean alternate; every third pair reads a pileup instead of a track; every fifth case has
                    # a source with empty / one-entry chromosomes; the source's chunking rotates
                    for op in ([STRANDED_OPS[i % 2]] if quick else STRANDED_OPS):
                        source = "pileup" if (i // 2) % 3 == 2 else "track"
                        tc = tvariants[(i // 5) % len(tvariants)] if i % 5 == 0 else tfull
                        if source == "pileup":
                            tc = [min(t, 3) for t in tc]
                        scs = source_cuts(tc)
                        yield {"kind": "stranded", "op": op, "source": source, "counts": counts, "tcounts": tc,
                               "strands": strands, "cuts": scs[i % len(scs)], "cuts2": c2}


# ----------------------------------------------------------------------------------------------------------------------
# kind "file": chunks made by the file reader (every min_chunk_size)
# ----------------------------------------------------------------------------------------------------------------------
def check_file(col, case, tmp):
    import bionumpy as bnp
    from bionumpy.computation_graph import compute
    counts, k, op = case["counts"], case["chunk_size"], case["op"]
    sizes = CHROMS[:len(counts)]
    rows = genomic_rows(counts)
    path = os.path.join(tmp, "c11_%s.bed" % "_".join(map(str, counts)))
    if not os.path.exists(path):
        with open(path, "w") as f:
            for r in rows:
                f.write("%s\t%d\t%d\n" % r[:3])
    sig = "file:" + op
    col.case(case, contract="read_chunks(min_chunk_size) stream == whole file")

    def run():
        with bnp.open(path) as f:
            stream = f.read_chunks(min_chunk_size=k)
            if op == "groupby":
                got = [(name, list(zip(g.start.tolist(), g.stop.tolist()))) for name, g in bnp.groupby(stream, "chromosome")]
                return got, [(name, [(r[1], r[2]) for r in g]) for name, g in itertools.groupby(rows, key=lambda r: r[0])]
            if op == "mean":
                return flat(bnp.mean(stream.start)), [sum(r[1] for r in rows) / len(rows)]
            if op == "bincount":
                return flat(bnp.bincount(stream.stop)), model_bincount([r[2] for r in rows])
            if op == "pileup:sum":
                genome = bnp.Genome.from_dict(dict(sizes))
                got = int(compute(genome.get_intervals(stream).get_pileup().sum()))
                return got, sum(r[2] - r[1] for r in rows)
            if op.startswith("filter:"):
                # chunk-wise filter (rows of the first / last chromosome) leaves empty chunks behind (trailing / leading),
                # then re-chunk to m entries
                from bionumpy.streams import BnpStream
                from bionumpy.streams.chunk_entries import chunk_entries
                from bionumpy.io.parser import chunk_lines
                keep, m = (rows[0][0] if case["keep"] == "first" else rows[-1][0]), case["m"]
                filtered = (c[c.chromosome == keep] for c in stream)
                out = chunk_lines(filtered, m) if op == "filter:chunk_lines" else chunk_entries(BnpStream(filtered), m)
                got = [list(zip(to_py(c.chromosome), c.start.tolist(), c.stop.tolist())) for c in out]
                return ([r for c in got for r in c], all(len(c) == m for c in got[:-1])), ([r[:3] for r in rows if r[0] == keep], True)
        raise ValueError(op)

    r = col.guarded(run, sig, case)
    if r is not None:
        got, exp = r
        col.check(got == exp, sig + ":differs-from-whole-file", case, "got %r expected %r" % (got, exp))


def gen_file(tier, rng):
    for counts in ([2, 2], [1, 3, 1], [3, 0, 2]) if tier == "quick" else ([2, 2], [1, 3, 1], [3, 0, 2], [2, 3, 1, 2], [1]):
        rows = genomic_rows(counts)
        total = sum(len("%s\t%d\t%d\n" % r[:3]) for r in rows)
        for k in range(12, total + 3):
            for op in ("groupby", "mean", "bincount", "pileup:sum"):
                yield {"kind": "file", "op": op, "counts": counts, "chunk_size": k}
            for op in ("filter:chunk_lines", "filter:chunk_entries"):
                for m in ((1, 2, 3) if tier == "thorough" else (1 + k % 3,)):
                    yield {"kind": "file", "op": op, "counts": counts, "chunk_size": k, "keep": ("first", "last")[(k + m) % 2], "m": m}


# ----------------------------------------------------------------------------------------------------------------------
# kind "windows": windows around the start locations of a stream of intervals, for every option of get_windows
# ----------------------------------------------------------------------------------------------------------------------
# interleaved so that any four consecutive options hold a flank, an odd and an even window_size
WINDOW_OPTIONS = (("flank", 0), ("window_size", 2), ("window_size", 1), ("flank", 1), ("window_size", 4), ("window_size", 3),
                  ("flank", 2), ("window_size", 6), ("window_size", 5), ("flank", 3), ("window_size", 8), ("window_size", 7))
WINDOW_OPS = ("windows", "pileup", "mask:sum", "values")
WINDOW_SOURCES = ("chunks", "read_intervals", "read_chunks")
_WINDOWS_REF = {}


def window_candidates(rows, sizes, option, value):
    """the readings of 'windows around the locations' as lists of (chrom, start, stop), clipped to the chromosome:
    flank=k: [p-k, p+k+1) (documented: 2k+1 wide); window_size=w: w wide around p: [p - w//2, p - w//2 + w); for even w the
    location cannot be in the middle - the reading with the extra base on the left and the one with it on the right"""
    size = dict(sizes)
    if option == "flank":
        lefts, width = [value], 2 * value + 1
    else:
        lefts, width = ([value // 2] if value % 2 else [value // 2, value // 2 - 1]), value
    return [[(r[0], max(0, r[1] - left), min(size[r[0]], r[1] - left + width)) for r in rows] for left in lefts]


def check_windows(col, case, tmp):
    import numpy as np
    import bionumpy as bnp
    from bionumpy.streams import NpDataclassStream
    from bionumpy.datatypes import Interval
    from bionumpy.computation_graph import compute
    counts, cuts, cuts2, op, source = case["counts"], case["cuts"], case.get("cuts2"), case["op"], case["source"]
    option, value = case["option"], case["value"]
    sizes = CHROMS[:len(counts)]
    if len(counts) not in _GENOMES:
        _GENOMES[len(counts)] = bnp.Genome.from_dict(dict(sizes))
    genome = _GENOMES[len(counts)]
    rows = genomic_rows(counts)
    okind = option if option == "flank" else "window_size-" + ("odd" if value % 2 else "even")
    sig = "genomic:windows:%s:%s" % (okind, op)
    kwargs = {option: value}
    col.case(case, contract="compute(streamed intervals -> get_location('start').get_windows(%s) -> %s) == in-memory" % (option, op))
    names = [name for name, _ in sizes]

    def table():
        return Interval([r[0] for r in rows], [r[1] for r in rows], [r[2] for r in rows])

    def istream(c):
        return genome.get_intervals(NpDataclassStream((p for p in pieces(table(), c)), dataclass=Interval))

    def triples(iv):
        chrom = iv.chromosome
        chrom = [names[i] for i in np.asarray(chrom.raw()).tolist()] if hasattr(chrom.encoding, "get_labels") else to_py(chrom)
        return list(zip(chrom, np.asarray(iv.start).tolist(), np.asarray(iv.stop).tolist()))

    def rows_of(r):
        return [np.asarray(x.to_array() if hasattr(x, "to_array") else x).tolist() for x in r]

    def run():
        # the in-memory windows pick the reading (placement of an even-sized window); all values come from the plain model
        key = (tuple(counts), option, value)
        if key not in _WINDOWS_REF:
            mem = genome.get_intervals(table()).get_location("start").get_windows(**kwargs)
            _WINDOWS_REF[key] = [(str(c), int(a), int(b)) for c, a, b in
                                 zip([x.to_string() for x in mem.chromosome], mem.start.tolist(), mem.stop.tolist())]
        mem = _WINDOWS_REF[key]
        cands = window_candidates(rows, sizes, option, value)
        if mem not in cands:
            return "in-memory", mem, cands[0]
        wins = mem
        if source == "chunks":
            streamed, handle = istream(cuts), None
        else:
            path = os.path.join(tmp, "c11w_%s.bed" % "_".join(map(str, counts)))
            if not os.path.exists(path):
                with open(path, "w") as f:
                    for r in rows:
                        f.write("%s\t%d\t%d\n" % r[:3])
            if source == "read_intervals":
                streamed, handle = genome.read_intervals(path, stream=True), None
            else:
                handle = bnp.open(path)
                streamed = genome.get_intervals(handle.read_chunks(min_chunk_size=case["chunk_size"]))
        try:
            w = streamed.get_location("start").get_windows(**kwargs)
            if op == "windows":
                return op, triples(w.compute()), wins
            wpile = model_pileup(wins, sizes)
            if op == "pileup":
                d = compute(w.get_pileup().get_data())
                e = list(zip(to_py(d.chromosome), d.start.tolist(), d.stop.tolist(), d.value.tolist()))
                return op, expand_runs(e, sizes, "pileup of windows"), wpile
            if op == "mask:sum":
                return op, int(compute(w.get_mask().sum())), sum(1 for v in wpile.values() for x in v if x > 0)
            if op == "values":
                pile = model_pileup(rows, sizes)
                return op, rows_of(compute(istream(cuts2).get_pileup()[w])), [pile[c][a:b] for c, a, b in wins]
            raise ValueError(op)
        finally:
            if handle is not None:
                handle.close()

    r = col.guarded(run, sig, case)
    if r is None:
        return
    what, got, exp = r
    if what == "in-memory":
        col.check(False, "genomic:windows:%s:in-memory-windows-are-not-the-requested-size-around-the-location" % okind, case,
                  "in-memory windows %r, model %r" % (got, exp))
        return
    col.check(got == exp, sig + ":differs-from-in-memory", case, "get_windows(%s=%d): got %r expected %r" % (option, value, got, exp))


def gen_windows(tier, rng):
    quick = tier == "quick"
    maxper, nmax = genomic_bounds(tier)
    nopt, nops = len(WINDOW_OPTIONS), len(WINDOW_OPS)
    j, used = 0, [0] * nopt
    for nchrom in (1, 2, 3, 4):
        for counts in itertools.product(range(maxper + 1), repeat=nchrom):
            n = sum(counts)
            if n == 0 or n > nmax[nchrom]:
                continue
            counts = list(counts)
            for cuts in all_cuts(n):
                j += 1
                # 1-2 chromosomes: every option; 3-4 chromosomes: three consecutive options (a flank, an even and an odd
                # window_size), rotating with the chunking.  The op rotates with the case (thorough: every op on one
                # chromosome, two ops per case on two)
                ois = range(nopt) if nchrom <= 2 else [(j * 3 + t) % nopt for t in range(3)]
                for oi in ois:
                    option, value = WINDOW_OPTIONS[oi]
                    used[oi] += 1
                    i = used[oi] + oi       # round robin per option: every option meets every op
                    if quick or nchrom > 2:
                        ops = (WINDOW_OPS[i % nops],)
                    else:
                        ops = WINDOW_OPS if nchrom == 1 else (WINDOW_OPS[i % nops], WINDOW_OPS[(i + 2) % nops])
                    for op in ops:
                        case = {"kind": "windows", "source": "chunks", "op": op, "counts": counts, "cuts": cuts,
                                "option": option, "value": value}
                        if op == "values":     # the reads' own stream: the complementary cut set
                            case["cuts2"] = [c for c in range(1, n) if c not in cuts]
                        yield case
    # the file based entry points: Genome.read_intervals(stream=True) for every option; reader-made chunks for every
    # min_chunk_size x 4 (thorough: 6) consecutive options, rotating
    for di, counts in enumerate(([2, 2], [3, 0, 2]) if quick else ([2, 2], [3, 0, 2], [1, 3, 1], [2, 3, 1, 2])):
        rows = genomic_rows(counts)
        total = sum(len("%s\t%d\t%d\n" % r[:3]) for r in rows)
        for option, value in WINDOW_OPTIONS:
            for op in WINDOW_OPS[:3]:
                yield {"kind": "windows", "source": "read_intervals", "op": op, "counts": counts, "cuts": [],
                       "option": option, "value": value}
        if di >= (1 if quick else 3):
            continue
        per = 4 if quick else 6
        for k in range(12, total + 3):
            for t in range(per):
                oi = (k * per + t) % nopt
                option, value = WINDOW_OPTIONS[oi]
                used[oi] += 1
                yield {"kind": "windows", "source": "read_chunks", "op": WINDOW_OPS[(used[oi] + oi) % 3], "counts": counts, "cuts": [],
                       "chunk_size": k, "option": option, "value": value}


# ----------------------------------------------------------------------------------------------------------------------
CHECKS = {"bigcount": check_bigcount, "reduce": check_reduce, "histauto": check_histauto, "kmers": check_kmers, "groupby": check_groupby,
          "rechunk": check_rechunk, "graph": check_graph, "genomic": check_genomic,
          "chrommap": check_chrommap, "nd": check_nd, "stranded": check_stranded}
GENS = [("rechunk", gen_rechunk), ("bigcount", gen_bigcount), ("winmean", gen_winmean), ("reduce", gen_reduce), ("histauto", gen_histauto), ("graph", gen_graph),
        ("kmers", gen_kmers), ("groupby", gen_groupby), ("chrommap", gen_chrommap), ("genomic", gen_genomic), ("windows", gen_windows),
        ("file", gen_file), ("nd", gen_nd), ("stranded", gen_stranded)]

def run_case(col, case, tmp):
    if case["kind"] == "file":
        check_file(col, case, tmp)
    elif case["kind"] == "windows":
        check_windows(col, case, tmp)
    else:
        CHECKS[case["kind"]](col, case)


def run(tier="quick", seed=0):
    col = Collector(PID, tier, seed,
                    "exhaustive: dataset of n entries x all 2^(n-1) cuts into consecutive non-empty chunks x every listed computation "
                    "(reductions, k-mer counts, group-by over every composition of n into groups, re-chunking for every n_entries "
                    "incl. incoming streams with empty chunks at every position, symbol/k-mer counts of chunks above the 1,000,000 block size, "
                    "mean over windows of unequal length, reductions on 1-d and 2-d chunks with axis None/0/-1, stranded windows with "
                    "strands from {+,-,.} over streamed tracks / pileups, "
                    "windows around streamed locations for every flank / odd / even window_size, "
                    "computation-graph expressions, per-chromosome pipelines on genomes of 1..4 chromosomes with every "
                    "per-chromosome entry count, reader-made chunks for every min_chunk_size); seeded cut sets above the bound; "
                    "distinct = distinct (kind, computation, dataset, cut set); non-trivial = all (n=1 / one chunk are the base cases)",
                    budget_s=75 if tier == "quick" else 640)
    quick = tier == "quick"
    nm = NMAX[tier]
    maxper, gmax = genomic_bounds(tier)
    col.bounds = {
        "cuts": "all 2^(n-1) per dataset",
        "reduce n": "1..%d exhaustive; sampled cuts for n in %s" % (nm["reduce"], "12,16" if quick else "12,16,24,40"),
        "reduce ops": list(REDUCE_OPS), "value patterns": list(PATTERNS),
        "containers": ["BnpStream", "generator", "NpDataclassStream attribute"],
        "kmers n": "1..%d, k in 2,3" % nm["kmers"],
        "groupby n": "1..%d x all compositions into groups; n=10 x 4 group structures x %s"
                     % (nm["groupby"], "25 sampled cuts" if quick else "all 512 cuts"),
        "groupby keys": list(KEYKINDS),
        "chrommap n": "1..%d x all compositions" % (5 if quick else 7),
        "rechunk": "n 1..%d x n_entries 1..n+1 x {chunk_entries, chunk_lines} x {ndarray, dataclass}" % nm["rechunk"],
        "rechunk with empty incoming chunks": "n 0..%d x all cuts x every multiset of 1..%d positions for empty chunks (n = %d: 1%s) "
                                              "x n_entries 1..n+1 x {chunk_entries, chunk_lines}"
                                              % (RECHUNK_EMPTY[tier][0], RECHUNK_EMPTY[tier][1], RECHUNK_EMPTY[tier][0],
                                                 "" if quick else "; n = %d: 1..%d" % (RECHUNK_EMPTY[tier][0] - 1, RECHUNK_EMPTY[tier][1] - 1)),
        "bigcount": "numbers of counted values %s (block size of count_encoded: %d) x {count_kmers k=3%s, count_encoded flat, "
                    "count_encoded ragged axis=None} x {in-memory, one chunk, 5 chunks, 1 entry + rest, rest + 1 entry, 10%%+90%%, halves}"
                    % ([t for t, _ in BIG_TOTALS[tier]], BIG_BLOCK, "" if quick else " (k=5 on two datasets)"),
        "genomic mean over unequal windows": "1..4 chromosomes, 0..%d reads per chromosome, n <= %s; windows per chromosome = read counts "
                                             "or reversed, >= 2 windows on some chromosome; width sets %s x rotations (all for <= 2 "
                                             "chromosomes and small n, rotating above); windows' chunking: all cuts for n<=2, else same + "
                                             "complementary (4 chromosomes: complementary only); longest window shorter on one chromosome: %d datasets"
                                             % (winmean_bounds(tier)[0], winmean_bounds(tier)[1], sorted(WIDTH_SETS), 3 if quick else 6),
        "graph n": "1..%d" % nm["graph"], "graph ops": list(GRAPH_OPS),
        "nd reductions": "n 1..%d x all cuts x chunk shapes %s (None = 1-d, else rows of that many columns) x %s x axis None, 0, -1 "
                         "(histogram: no axis; user sum: None, 0)" % (ND_NMAX[tier], list(ND_WIDTHS[tier]), list(ND_FNS)),
        "stranded windows": "1..4 chromosomes, 0..%d windows per chromosome, n <= %s; strands: all 3^n assignments over '+-.' for n <= %s "
                            "(by number of chromosomes; one larger dataset on 3 and 4 chromosomes), else rotations of '+-.' / '.-+', all '.', "
                            "one '.' at each position%s; windows in "
                            "memory or streamed (all cuts for n <= 3, else 5 structured); source track (4 bedgraph rows per chromosome) "
                            "or pileup (3 reads), also with chromosomes without / with one source entry, source chunking one of 5 "
                            "structured cut sets (rotating); ops rows / mean(axis=0)%s"
                            % (stranded_bounds(tier)[0], stranded_bounds(tier)[1], stranded_bounds(tier)[2],
                               " (%s: a third of them per chunking)" % ("3-4 chromosomes, n = 4" if quick else "4 chromosomes, 3 with n = 4"),
                               " alternating" if quick else ""),
        "genomic": "1..4 chromosomes, 0..%d entries per chromosome, n <= %s (by number of chromosomes); second stream: all cuts "
                   "for n<=3, else same + complementary cut set (quick: two-stream ops on 4 chromosomes only for n<=3); n=10 x 2 datasets x %s"
                   % (maxper, gmax, "10 sampled cuts" if quick else "all 512 cuts"),
        "genomic ops": list(GENOMIC_OPS),
        "windows around streamed locations": "datasets and cuts of 'genomic' x get_windows options %s (1-2 chromosomes: all; 3-4 "
                                             "chromosomes: 3 consecutive ones = a flank, an even and an odd window_size, rotating) x ops %s "
                                             "(%s); file based: BED files of 4..%d lines x all options x read_intervals(stream=True); "
                                             "BED files of 4..5 lines x read_chunks for every min_chunk_size 12..file size+2 x %d options (rotating)"
                                             % (["%s=%d" % o for o in WINDOW_OPTIONS], list(WINDOW_OPS),
                                                "rotating" if quick else "1 chromosome: all, 2: two per case, else rotating",
                                                5 if quick else 8, 4 if quick else 6),
        "file": "BED files of %s lines x every min_chunk_size 12..file size+2 x {groupby, mean, bincount, pileup sum, chunk-wise filter on "
                "the first/last chromosome + chunk_lines / chunk_entries to %s entries}" % ("4..5" if quick else "1..8", "1..3 (rotating)" if quick else "1,2,3"),
    }
    with TmpDir() as tmp:
        for kind, gen in GENS:
            for i, case in enumerate(gen(tier, col.rng)):
                if i % 50 == 0 and col.out_of_time():   # safety net only; the bounds are sized to fit the budget
                    break
                run_case(col, case, tmp)
    return col.result()


def replay(case):
    col = Collector(PID, "quick", 0, "replay")
    with TmpDir() as tmp:
        run_case(col, case, tmp)
    if col.failures:
        return False, "; ".join(f["signature"] + ": " + f["message"] for f in col.failures)
    return True, "ok"
