"""C19 bounded stand-in: tables (bnpdataclass objects) behave like column-aligned records.

Model: a table is (schema, list of rows); a row is a list of plain Python values (str, int, float, bool, list,
nested row).  Every library operation is mirrored on the model with list operations and the library result is
read back through several independent channels (column containers, t[i], iteration, tolist, todict, topandas).

Sections
  construct   every column kind x n = 0..3 rows x input form (python lists, numpy / encoded containers, keyword
              arguments, cls.empty()): container = declared type, values = given values, inputs unchanged;
              unequal column lengths, letters outside the alphabet and ill-typed columns must raise (or convert)
  programs    every schema (one per column kind: [k:int, v:kind]; a wide table with all kinds; nested tables; every
              class of bionumpy.datatypes) x n = 0..3 rows x every sequence of table operations up to the depth of
              the tier (mask, slice, integer-array index, concatenate, sort_by, replace, add_fields, and the round
              trips from_entry_tuples(tolist) / from_dict(todict) / from_data_frame(topandas)); after every step the
              result and the operands are read back; every table reached is observed through t[i], iteration,
              tolist/toiter, todict and topandas.  Tables are rebuilt (program re-run) for every use, because reading a
              table makes the library materialise lazy ragged views inside it and would hide what user code sees
  datatypes   the field names / kinds of every class in bionumpy.datatypes against a table written from the docs
  input forms every further accepted input form of a column kind (FORM_KINDS: a rectangular 2-D ndarray for a
              list-of-numbers column, a tuple of tuples, a pandas Series) x the construct contracts, and x the programs:
              the base table is handed over in that form, and concatenation with tables handed over in that form (of the
              same and of other row widths; the ordinary operands have ragged columns), replace and add_fields with a
              column in that form join the operation alphabet.  A failure that the same rows and program also show with
              the canonical input form keeps its signature, one that needs the form ends in ':input-form=<form>'
  histories   every program keeps all its intermediate tables alive; after every operation not only the operands but
              every EARLIER result of the program (the base table, the result of the 1st, 2nd ... operation) is read back
              and must still hold the rows it had when it was made ('<op>:<kind>:ancestor-changed').  Column assignment
              (t.col = values, on a table nobody has read and on one that was read before) is an operation of the alphabet:
              it changes the rows of that one table and of no other
  file-backed the tables that bnp.open(path).read() returns (FILE_SPECS: bed, bed6, bedgraph, narrowPeak, chrom.sizes,
              fastq, pairs; the file is written from the model rows by a plain writer) x the same programs: every
              operand of the program (base table, concatenation operands) is read from a file.  A failure that the
              same rows and program also show with tables built in memory keeps its signature, one that needs the
              file-backed table ends in ':file-backed'
  re-encode   a column that is ALREADY encoded in alphabet X handed to a field declared with another alphabet Y
              (constructor, bnp.replace, add_fields; ragged and one-letter-per-row columns): every ordered pair of the
              public alphabet encodings and custom AlphabetEncoding objects x every largest letter present (1st, 2nd ...
              letter of X: before / at / after the first position where X and Y differ) x 0..3 rows: either refused or
              the table holds exactly the letters that were put in, in the declared encoding
  code dtypes text / encoded columns handed over as the library's own containers made from CHARACTER CODES of an integer
              type other than uint8 (CODE_FORMS: EncodedRaggedArray(EncodedArray(np.array(codes, dtype), encoding), lengths);
              one-letter-per-row columns: a flat EncodedArray; int8 .. uint64 - np.array([65, 67 ..]) and np.where(c, ord('-'),
              ord('+')) give int64): plain text, Union[table, str] and every alphabet-encoded kind x the construct contracts
              and x the programs (base table, concatenation operands - joined with ordinary uint8 operands too -, replace,
              add_fields in that form), all channels.  Plus [k:int, v:str] tables whose text column is one character per row
              in a flat EncodedArray (CHAR_*), 0..3 rows x code type x selection / concatenation / sort / replace x every
              channel.  A failure that needs codes wider than one byte ends in ':input-form=wide-integer-codes'
"""
import atexit
import copy
import hashlib
import itertools
import json
import os
import shutil
import tempfile
import traceback

from .common import Collector

PID = "C19"

# ------------------------------------------------------------------------------------------------------------------
# column kinds, their value pools (canonical = what a row holds) and alphabets (public encodings)

ALPHABETS = {"strand": "+-.", "dna": "ACGT", "cigop": "MIDNSHP=X", "bam": "=ACMGRSVTWYHKDBN"}

POOL = {
    "str": ["ab", "", "c", "Hello w, a longer text of 40 characters..", "zz9", "q"],
    "union": ["a=1", "", "b", "DP=4;AF=0.5", "x", "."],
    "sid": ["x1", "chr10", "z", "scaffold_1234567.1_random", "ab_c", "y"],
    "int": [5, -3, 2 ** 53 + 1, 0, 7, -(2 ** 62)],
    "float": [1.5, -0.25, 1e300, 0.0, 2.5e-10, -7.0],
    "bool": [True, False, True, True, False, False],
    "optint": [3, -4, 5, 0, 17, 8],
    "li": [[1, 2], [7], [], [0, -5, 2 ** 40] + list(range(20)), [3], [4, 4]],
    "lf": [[1.5, 2.0], [7.0], [], [-0.5], [0.0, 1e10], [3.25]],
    "lb": [[True, False], [True], [], [False], [False, True, True], [True, True]],
    "ls": [["a", "b"], ["c", "dd"], ["e", "f"], ["gg", "h"], ["i", "j"], ["k", "l"]],
    "strand": ["+", "-", ".", "-", "+", "."],
    "dna": ["ACG", "", "T", "GGTTACGTACGTTTGACCAGTACGATCGATCGGAT", "A", "CA"],
    "qual": [[0, 0, 2], [40], [], [1], [5, 6], [93]],
    "cigop": ["MID", "", "S", "=X", "HP", "N"],
    "ciglen": [[1, 2, 3], [4], [], [100, 2 ** 20], [7], [8, 9]],
    "bam": ["ACG", "", "T", "NN", "=A", "GT"],
    # declared str, one character per row, held in a flat EncodedArray (as np.where(flag, ord("-"), ord("+")) columns are);
    # only in the schema K_char of the 'code dtypes' section
    "char": ["+", "x", "7", "-", "A", "z"],
}
SORTABLE = {"int", "float", "bool", "optint", "strand"}     # one totally ordered value per row
INFERABLE = {"int", "float", "bool", "str"}                 # add_fields documents type inference for basic types
RAGGED_TEXT = {"str", "union", "dna", "cigop", "bam"}
RAGGED_NUM = {"li", "lf", "lb", "qual", "ciglen"}
NUM = {"int": "iu", "optint": "iu", "float": "f", "bool": "b"}

# further accepted input forms of a column (besides 'list', 'native', 'alt'): the kinds that have the form.  Columns
# of the other kinds of a table are given as 'auto'.
#   ndarray2d  the rows of a list-of-numbers column as one rectangular 2-D ndarray of the declared element type
#              (needs rows of one width: make_rows(..., width=w))
#   tuple      a tuple of tuples instead of a list of lists
#   series     a pandas Series as user code makes it (object dtype: python strings / python lists; numeric dtype)
FORM_KINDS = {"ndarray2d": {"li", "lf", "lb", "qual", "ciglen"},
              "tuple": {"li", "lf", "lb"},
              "series": {"int", "float", "bool", "optint", "str", "union", "sid", "li", "lf", "lb", "strand", "dna",
                         "cigop", "bam"}}
RECT_FORMS = {"ndarray2d"}
# character codes of an integer type other than uint8 inside the library's own containers (see 'code dtypes' above)
CODE_FORMS = {"codes-int64": "int64", "codes-int32": "int32", "codes-uint16": "uint16", "codes-int16": "int16",
              "codes-uint32": "uint32", "codes-uint64": "uint64", "codes-int8": "int8"}
CODE_KINDS = {"str", "union", "dna", "cigop", "bam", "strand", "char"}
for _f in CODE_FORMS:
    FORM_KINDS[_f] = CODE_KINDS
# name of an input form in signatures: one class for all code types wider than one byte
FORM_TAG = {f: ("wide-integer-codes" if d != "int8" else "int8-codes") for f, d in CODE_FORMS.items()}


def ftag(form):
    return FORM_TAG.get(form, form)


def code_column(kind, vals, dtype):
    """a text / encoded column made from the character codes (ord / position in the documented alphabet - not by the text
    encoder) held in an integer array of the given type"""
    import numpy as np
    from bionumpy.encoded_array import EncodedArray, EncodedRaggedArray
    from bionumpy.encodings import BaseEncoding
    alph = ALPHABETS.get(kind)
    code = alph.index if alph else ord
    enc = types()[kind] if alph else BaseEncoding
    if kind in ("strand", "char"):
        return EncodedArray(np.array([code(v) for v in vals], dtype=dtype), enc)
    flat = EncodedArray(np.array([code(c) for v in vals for c in v], dtype=dtype), enc)
    return EncodedRaggedArray(flat, np.array([len(v) for v in vals], dtype=int))

FLAT = {k: [x for v in POOL[k] for x in v] for k in RAGGED_NUM}   # element pools of the rectangular rows

INNER = [["a", "int"], ["s", "str"]]
INNER2 = [["p", "sid"], ["q", {"nested": INNER}], ["r", "li"]]
WIDE = [["k", "int"], ["name", "str"], ["sid", "sid"], ["f", "float"], ["b", "bool"], ["o", "optint"], ["li", "li"],
        ["strand", "strand"], ["dna", "dna"], ["inner", {"nested": INNER}]]

# the classes of bionumpy.datatypes, written from the documentation of the formats (field order = column order)
_IV = [["chromosome", "sid"], ["start", "int"], ["stop", "int"]]
_BED6 = _IV + [["name", "sid"], ["score", "optint"], ["strand", "strand"]]
_VCF = [["chromosome", "sid"], ["position", "int"], ["id", "str"], ["ref_seq", "str"], ["alt_seq", "str"],
        ["quality", "str"], ["filter", "str"]]
_GTF = [["chromosome", "sid"], ["source", "str"], ["feature_type", "sid"], ["start", "int"], ["stop", "int"],
        ["score", "str"], ["strand", "strand"], ["phase", "str"], ["atributes", "str"]]
DATATYPES = {
    "LocationEntry": [["chromosome", "sid"], ["position", "int"]],
    "StrandedLocationEntry": [["chromosome", "sid"], ["position", "int"], ["strand", "strand"]],
    "BedGraph": _IV + [["value", "float"]],
    "RawSeqeuence": [["sequence", "str"]],
    "SequenceEntry": [["name", "sid"], ["sequence", "str"]],
    "SequenceEntryWithQuality": [["name", "sid"], ["sequence", "str"], ["quality", "qual"]],
    "Interval": _IV,
    "StrandedInterval": _IV + [["strand", "strand"]],
    "NamedInterval": _IV + [["name", "sid"]],
    "Bed6": _BED6,
    "NarrowPeak": _BED6 + [["signal_value", "float"], ["p_value", "float"], ["q_value", "float"], ["summit", "int"]],
    "Bed12": _BED6 + [["thick_start", "int"], ["thick_end", "int"], ["item_rgb", "str"], ["block_count", "int"],
                      ["block_sizes", "li"], ["block_starts", "li"]],
    "Variant": [["chromosome", "sid"], ["position", "int"], ["ref_seq", "str"], ["alt_seq", "str"]],
    "SNP": [["chromosome", "sid"], ["position", "int"], ["ref_seq", "str"], ["alt_seq", "str"]],
    "VCFEntry": _VCF + [["info", "union"]],
    "VCFWithInfoAsStringEntry": _VCF + [["info", "str"]],
    "VCFEntryWithGenotypes": _VCF + [["info", "union"], ["genotype", "ls"]],
    "SAMEntry": [["name", "sid"], ["flag", "int"], ["chromosome", "sid"], ["position", "int"], ["mapq", "int"],
                 ["cigar", "str"], ["next_chromosome", "str"], ["next_position", "int"], ["length", "int"],
                 ["sequence", "str"], ["quality", "str"], ["extra", "str"]],
    "BamEntry": [["chromosome", "sid"], ["name", "sid"], ["flag", "int"], ["position", "int"], ["mapq", "int"],
                 ["cigar_op", "cigop"], ["cigar_length", "ciglen"], ["sequence", "bam"], ["quality", "qual"]],
    "ChromosomeSize": [["name", "str"], ["size", "int"]],
    "GfaPath": [["name", "str"], ["node_ids", "li"], ["directions", "li"]],
    "PairsEntry": [["read_id", "str"], ["chrom1", "sid"], ["pos1", "int"], ["chrom2", "sid"], ["pos2", "int"],
                   ["strand1", "strand"], ["strand2", "strand"]],
    "GTFEntry": _GTF,
    "GFFEntry": _GTF,
    "GFFGeneEntry": _GTF + [["gene_id", "sid"]],
    "GFFTranscriptEntry": _GTF + [["gene_id", "sid"], ["transcript_id", "sid"]],
    "GFFExonEntry": _GTF + [["gene_id", "sid"], ["transcript_id", "sid"], ["exon_id", "sid"]],
}
# not modelled (their column type is a VCF genotype-row encoding that only accepts raw VCF text; property C-VCF)
DATATYPES_SKIPPED = ["VCFGenotypeEntry", "PhasedVCFGenotypeEntry", "PhasedVCFHaplotypeEntry"]

# ------------------------------------------------------------------------------------------------------------------
# file-backed tables: what bnp.open(path).read() returns.  The file is written from the model rows by a plain writer
# (one text line per row, tab separated; fastq: four lines), so the rows of a file are limited to values that the text
# formats can hold without any convention of their own (non-empty names without white space, non-negative integers,
# short decimal numbers); the values given to replace / column assignment later are not limited.
FILE_POOL = {
    "sid": POOL["sid"],
    "str": ["ACG", "N", "T", "GGTTACGTACGTTTGACCAGTACGATCGATCGGAT", "A", "CA"],
    "int": [5, 3, 2 ** 40 + 1, 0, 7, 12],
    "float": [1.5, -0.25, 1024.0, 0.0, 2.5, -7.0],
    "optint": [3, 4, 5, 0, 17, 8],
    "strand": POOL["strand"],
    "qual": POOL["qual"],               # replaced by _fastq_fix: as many values as the sequence has letters
}


def _fastq_fix(rows):
    for i, r in enumerate(rows):
        r[2] = [(7 * i + 11 * k) % 94 for k in range(len(r[1]))]
    return rows


def _fmt(v):
    return repr(v) if isinstance(v, float) else str(v)


def _tab_line(row):
    return "\t".join(_fmt(v) for v in row) + "\n"


def _fastq_entry(row):
    return "@%s\n%s\n+\n%s\n" % (row[0], row[1], "".join(chr(33 + q) for q in row[2]))


# name -> (class of bionumpy.datatypes the reader documents, file extension, buffer_type argument of bnp.open or None,
#          writer of one row, fix-up of generated rows or None)
FILE_SPECS = {
    "bed": ("Interval", ".bed", None, _tab_line, None),
    "bed6": ("Bed6", ".bed", "Bed6Buffer", _tab_line, None),
    "bedgraph": ("BedGraph", ".bdg", None, _tab_line, None),
    "narrowPeak": ("NarrowPeak", ".narrowPeak", None, _tab_line, None),
    "sizes": ("ChromosomeSize", ".chrom.sizes", None, _tab_line, None),
    "fastq": ("SequenceEntryWithQuality", ".fq", None, _fastq_entry, _fastq_fix),
    "pairs": ("PairsEntry", ".pairs", None, _tab_line, None),
}
_SCRATCH = [None]
_FILE = [False]             # True in the file-backed programs: see extract_col


def scratch_dir():
    if _SCRATCH[0] is None or not os.path.isdir(_SCRATCH[0]):
        _SCRATCH[0] = tempfile.mkdtemp(prefix="bnpverif_c19_")
        atexit.register(shutil.rmtree, _SCRATCH[0], ignore_errors=True)
    return _SCRATCH[0]


def drop_scratch():
    if _SCRATCH[0] is not None:
        shutil.rmtree(_SCRATCH[0], ignore_errors=True)
        _SCRATCH[0] = None


def read_table(source, rows):
    """the rows written to a file of format `source` (once per distinct content) and read back with bnp.open().read()"""
    import bionumpy as bnp
    _, ext, buffer, writer, _ = FILE_SPECS[source]
    text = "".join(writer(r) for r in rows)
    path = os.path.join(scratch_dir(), source + "_" + hashlib.md5(text.encode()).hexdigest()[:16] + ext)
    if not os.path.exists(path):
        with open(path, "w") as f:
            f.write(text)
    f = bnp.open(path, buffer_type=getattr(bnp, buffer)) if buffer else bnp.open(path)
    try:
        return f.read()
    finally:
        f.close()


class Obs(Exception):
    """an observation that cannot be read as a column of rows (wrong container, unequal lengths ...)"""

    def __init__(self, tag, msg):
        Exception.__init__(self, msg)
        self.tag = tag


def tr(v):
    """typed representation: 5, 5.0 and True are different rows"""
    if isinstance(v, bool):
        return "b:%s" % v
    if isinstance(v, int):
        return "i:%d" % v
    if isinstance(v, float):
        return "f:%r" % v
    if isinstance(v, str):
        return "s:" + v
    if isinstance(v, (list, tuple)):
        return "[" + ",".join(tr(x) for x in v) + "]"
    return "?%s:%r" % (type(v).__name__, v)


# ------------------------------------------------------------------------------------------------------------------
# schemas

class Field:
    def __init__(self, name, kind):
        self.name = name
        if isinstance(kind, dict):
            (self.kind, sub), = kind.items()
            self.sub = Sch("Inner_" + name, sub)
        else:
            self.kind, self.sub = kind, None
        self.desc = [name, kind]


class Sch:
    def __init__(self, name, fields, datatype=None, decorator=False):
        self.name, self.datatype, self.decorator = name, datatype, decorator
        self.fields = [f if isinstance(f, Field) else Field(*f) for f in fields]
        self.desc = {"name": name, "fields": [f.desc for f in self.fields], "datatype": datatype, "decorator": decorator}

    @staticmethod
    def from_desc(d):
        return Sch(d["name"], d["fields"], d.get("datatype"), d.get("decorator", False))

    def extended(self, name, kind):
        return Sch("Dynamic" + self.name if not self.name.startswith("Dynamic") else self.name,
                   [f.desc for f in self.fields] + [[name, kind]], None, self.decorator)

    def names(self):
        return [f.name for f in self.fields]


_TYPES = {}
_CLS = {}
_FORM_MEMO = {}
_LENIENT = [False]          # True in the input-form programs: see extract_col
_CANONICAL = [False]        # True while a failing input-form case is re-run with the canonical input form (FormCol)


def types():
    if not _TYPES:
        from typing import List, Optional, Union
        from bionumpy.typing import SequenceID
        from bionumpy.encodings import (StrandEncoding, DNAEncoding, QualityEncoding, CigarOpEncoding, CigarEncoding,
                                        BamEncoding)
        from bionumpy.bnpdataclass import BNPDataClass
        _TYPES.update({"char": str, "str": str, "sid": SequenceID, "int": int, "float": float, "bool": bool,
                       "optint": Optional[int], "li": List[int], "lf": List[float], "lb": List[bool], "ls": List[str],
                       "strand": StrandEncoding, "dna": DNAEncoding, "qual": QualityEncoding, "cigop": CigarOpEncoding,
                       "ciglen": CigarEncoding, "bam": BamEncoding, "union": Union[BNPDataClass, str]})
    return _TYPES


def type_of(field):
    if field.kind == "nested":
        return cls_of(field.sub)
    return types()[field.kind]


def cls_of(sch):
    """the library class of a schema (made once per distinct schema)"""
    key = json.dumps(sch.desc)
    if key not in _CLS:
        from bionumpy.bnpdataclass import bnpdataclass, make_dataclass
        if sch.datatype:
            import bionumpy.datatypes as dt
            _CLS[key] = getattr(dt, sch.datatype)
        elif sch.decorator:
            base = type(sch.name, (), {"__annotations__": {f.name: type_of(f) for f in sch.fields}})
            _CLS[key] = bnpdataclass(base)
        else:
            _CLS[key] = make_dataclass([(f.name, type_of(f)) for f in sch.fields], name=sch.name)
    return _CLS[key]


def value(field, idx, width=None, safe=False):
    """width: every list-of-numbers value has exactly `width` elements (rectangular columns); safe: a value that the
    text formats can hold (FILE_POOL)"""
    if safe and field.kind in FILE_POOL:
        p = FILE_POOL[field.kind]
        return copy.deepcopy(p[idx % len(p)])
    if field.sub is not None:
        return [value(f, idx + j, width) for j, f in enumerate(field.sub.fields)]
    if width is not None and field.kind in RAGGED_NUM:
        p = FLAT[field.kind]
        return [p[(idx * 3 + j * 5) % len(p)] for j in range(width)]
    p = POOL[field.kind]
    return copy.deepcopy(p[idx % len(p)])


def make_rows(sch, n, offset=0, width=None, source=None):
    """source: rows for a file of that format (FILE_SPECS)"""
    rows = [[value(f, offset + i + j, width, bool(source)) for j, f in enumerate(sch.fields)] for i in range(n)]
    if source and FILE_SPECS[source][4]:
        rows = FILE_SPECS[source][4](rows)
    return rows


# ------------------------------------------------------------------------------------------------------------------
# model -> library input

def to_input(field, vals, form):
    """a column of canonical values as constructor argument. form: 'list' python lists only; 'native' numpy /
    bionumpy containers of the declared type; 'auto' = 'list' when the lists hold at least one element, else 'native'
    (a bare [] or [[], []] carries no type; what the library makes of those is checked in the construct section)"""
    import numpy as np
    import bionumpy as bnp
    from npstructures import RaggedArray
    k = field.kind
    if field.sub is not None:
        return build(field.sub, copy.deepcopy(list(vals)), form)
    if k == "char":
        # always the flat container; the codes are uint8 unless the form names another type
        return code_column(k, list(vals), "uint8" if _CANONICAL[0] else CODE_FORMS.get(form, "uint8"))
    if form in FORM_KINDS:
        # the further input forms (see FORM_KINDS); a column whose kind does not have the form is given as 'auto'
        vals = copy.deepcopy(list(vals))
        if _CANONICAL[0] or k not in FORM_KINDS[form]:
            form = "auto"
        elif form == "ndarray2d":
            dt = {"li": np.int64, "lf": np.float64, "lb": bool, "ciglen": np.int64, "qual": np.uint8}[k]
            return np.array(vals, dtype=dt).reshape(len(vals), len(vals[0]) if vals else 2)
        elif form in CODE_FORMS:
            return code_column(k, vals, CODE_FORMS[form])            # (typed also without rows / without letters)
        elif len(vals) == 0 or (k in RAGGED_NUM and not any(len(v) for v in vals)):
            form = "native"                                         # element-free tuples / object Series carry no type
        elif form == "tuple":
            return tuple(tuple(v) for v in vals)
        else:
            import pandas as pd
            if k in NUM:
                return pd.Series(np.array(vals, dtype={"int": np.int64, "optint": np.int64, "float": np.float64, "bool": bool}[k]))
            return pd.Series(vals, dtype=object)
    if form == "auto":
        untyped = len(vals) == 0 or (k in RAGGED_NUM and not any(len(v) for v in vals))
        form = "native" if untyped else "list"
    vals = copy.deepcopy(list(vals))
    if form == "alt":
        # a second container that the conversion documents / the file readers produce for this kind
        if k in NUM:
            return tuple(vals)
        if k == "union" and len(vals):
            return [bnp.as_encoded_array(v) for v in vals]           # a list of encoded rows
        if k in ("str", "union"):
            return np.array(vals, dtype="U") if len(vals) else np.array([], dtype="U1")
        if k == "sid":
            return bnp.as_encoded_array(vals)                       # text as read from a file
        if k in ("dna", "cigop", "bam"):
            return bnp.as_encoded_array(vals)                       # base-encoded text, to be re-encoded
        if k == "strand":
            return "".join(vals)                                    # one python string
        if k in ("li", "lf", "lb", "ciglen"):
            dt = {"li": np.int64, "lf": np.float64, "lb": bool, "ciglen": np.int64}[k]
            return [np.array(v, dtype=dt) for v in vals]
        if k == "qual":
            return RaggedArray(np.array([x for v in vals for x in v], dtype=np.uint8), np.array([len(v) for v in vals], dtype=int))
        if k == "ls":
            return np.array(vals, dtype="S").reshape(len(vals), 2)
        raise ValueError(k)
    if k == "qual":
        vals = ["".join(chr(33 + q) for q in v) for v in vals]
    if form == "list":
        return vals
    if k in NUM:
        return np.array(vals, dtype={"int": np.int64, "optint": np.int64, "float": np.float64, "bool": bool}[k])
    if k in ("str", "union"):
        return bnp.as_encoded_array(vals)
    if k == "sid":
        from bionumpy.string_array import StringArray
        return StringArray(np.array(vals, dtype="S"))
    if k == "ls":
        from bionumpy.string_array import StringArray
        return StringArray(np.array(vals, dtype="S").reshape(len(vals), 2))
    if k in ("li", "lf", "lb"):
        dt = {"li": np.int64, "lf": np.float64, "lb": bool}[k]
        return RaggedArray(np.array([x for v in vals for x in v], dtype=dt), np.array([len(v) for v in vals], dtype=int))
    if k == "ciglen":
        return RaggedArray(np.array([x for v in vals for x in v], dtype=np.int64), np.array([len(v) for v in vals], dtype=int))
    if k == "strand":
        return bnp.as_encoded_array("".join(vals), types()[k])
    if k == "qual" and not any(len(v) for v in vals):
        return RaggedArray(np.array([], dtype=np.uint8), np.array([0] * len(vals), dtype=int))
    return bnp.as_encoded_array(vals, types()[k])


def build(sch, rows, form="auto", keywords=False, cls=None):
    cols = [to_input(f, [r[j] for r in rows], form) for j, f in enumerate(sch.fields)]
    cls = cls or cls_of(sch)
    if keywords:
        return cls(**dict(zip(sch.names(), cols)))
    return cls(*cols)


# ------------------------------------------------------------------------------------------------------------------
# library -> rows (observation channels)

def _decode(codes, kind, base=False):
    alph = None if base else ALPHABETS.get(kind)
    if alph is None:
        return "".join(chr(c) for c in codes)
    if any(c >= len(alph) for c in codes):
        raise Obs("bad-code", "code outside the alphabet of %s: %r" % (kind, codes))
    return "".join(alph[c] for c in codes)


def extract_col(obj, field):
    """one column container -> list of canonical values (does not use int row indexing)"""
    import numpy as np
    from npstructures import RaggedArray
    from bionumpy.encoded_array import EncodedArray, EncodedRaggedArray
    from bionumpy.string_array import StringArray
    from bionumpy.bnpdataclass import BNPDataClass
    k = field.kind
    if field.sub is not None:
        if not isinstance(obj, BNPDataClass):
            raise Obs("container:nested", "nested column is %s, not a table" % type(obj).__name__)
        return extract(obj, field.sub)
    # the file readers hand text columns over as plain (base encoded) text, whatever the declared alphabet: read as text
    base = _FILE[0] and isinstance(obj, (EncodedArray, EncodedRaggedArray)) and obj.encoding.is_base_encoding()
    if _FILE[0] and isinstance(obj, (list, tuple)):
        # one class: the column of a table is still the python list / tuple that user code handed over
        raise Obs("column-not-converted", "column %s is a python %s" % (field.name, type(obj).__name__))
    if isinstance(obj, np.ndarray):
        if _LENIENT[0] and obj.ndim == 2 and k in RAGGED_NUM and obj.dtype.kind in "iufb":
            # the programs on tables made from other input forms read an unconverted matrix as its rows (that it is not
            # the declared container is one class of the construct section) and look at what the table then does
            return obj.tolist()
        if obj.ndim != 1:
            raise Obs("container", "column %s is a %d-d ndarray" % (field.name, obj.ndim))
        if obj.dtype.kind not in "iufb":
            raise Obs("container", "column %s is an ndarray of dtype %s" % (field.name, obj.dtype))
        return obj.tolist()
    if isinstance(obj, EncodedRaggedArray):
        rows = [_decode(r, k, base) for r in obj.raw().tolist()]
        other = obj.tolist()
        if other != rows:
            raise Obs("tolist-disagrees", "column %s: codes decode to %r, .tolist() gives %r" % (field.name, rows, other))
        return rows
    if isinstance(obj, EncodedArray):
        if obj.ndim != 1:
            raise Obs("container", "column %s is a %d-d EncodedArray" % (field.name, obj.ndim))
        s = _decode(obj.raw().tolist(), k, base)
        if obj.to_string() != s:
            raise Obs("tolist-disagrees", "column %s: codes decode to %r, to_string gives %r" % (field.name, s, obj.to_string()))
        return list(s)
    if isinstance(obj, StringArray):
        raw = obj.raw()
        if raw.ndim == 1:
            rows = [b.decode() for b in raw.tolist()]
            other = obj.tolist()
            if other != rows:
                raise Obs("tolist-disagrees", "column %s: bytes %r, .tolist() %r" % (field.name, rows, other))
            return rows
        if raw.ndim == 2:
            return [[b.decode() for b in r] for r in raw.tolist()]
        raise Obs("container", "column %s is a %d-d StringArray" % (field.name, raw.ndim))
    if isinstance(obj, RaggedArray):
        return obj.tolist()
    raise Obs("container:" + k, "column %s is a %s" % (field.name, type(obj).__name__))


def extract(t, sch):
    """table -> rows, with the class invariant: all columns as long as the table"""
    import dataclasses
    names = [f.name for f in dataclasses.fields(t)]
    if names != sch.names():
        raise Obs("fields", "fields %r expected %r" % (names, sch.names()))
    cols = []
    n = len(t)
    for f in sch.fields:
        c = getattr(t, f.name)
        if len(c) != n:
            raise Obs("unequal-lengths", "len(table)=%d but column %s has %d" % (n, f.name, len(c)))
        v = extract_col(c, f)
        if len(v) != n:
            raise Obs("unequal-lengths", "len(table)=%d but column %s holds %d values" % (n, f.name, len(v)))
        cols.append(v)
    return [[c[i] for c in cols] for i in range(n)]


def entry_value(v, field):
    """a field of a single entry (t[i], iteration) -> canonical value"""
    import numpy as np
    from npstructures import RaggedArray
    from bionumpy.encoded_array import EncodedArray
    from bionumpy.string_array import StringArray
    if field.sub is not None:
        return [entry_value(getattr(v, f.name), f) for f in field.sub.fields]
    if isinstance(v, EncodedArray):
        if field.kind in ("strand", "char"):
            codes = np.ravel(v.raw()).tolist()      # a scalar or a one-element array
            if len(codes) != 1:
                raise Obs("container", "entry field %s holds %d letters" % (field.name, len(codes)))
            return _decode(codes, field.kind)
        if v.ndim != 1:
            raise Obs("container", "entry field %s is a %d-d array" % (field.name, v.ndim))
        return _decode(v.raw().tolist(), field.kind)
    if isinstance(v, StringArray):
        x = v.raw().tolist()
        return x.decode() if isinstance(x, bytes) else [b.decode() for b in x]
    if isinstance(v, (np.ndarray, np.generic)):
        if field.kind in NUM and v.ndim != 0:
            raise Obs("container", "entry field %s is a %d-d array" % (field.name, v.ndim))
        return v.tolist()
    if isinstance(v, RaggedArray):
        x = v.tolist()
        if x != []:
            raise Obs("container", "entry field %s is a ragged array %r" % (field.name, x))
        return x
    raise Obs("container", "entry field %s is a %s" % (field.name, type(v).__name__))


def entry_row(e, sch):
    return [entry_value(getattr(e, f.name), f) for f in sch.fields]


def plain_value(v, field):
    """a field of a tolist() row: must already be a plain python value"""
    if field.sub is not None:
        return [plain_value(getattr(v, f.name), f) for f in field.sub.fields]
    return v


def plain_row(e, sch):
    return [plain_value(getattr(e, f.name), f) for f in sch.fields]


def flat_columns(sch, rows, prefix=""):
    """expected todict(): nested tables are flattened to 'field.sub' keys"""
    out = []
    for j, f in enumerate(sch.fields):
        col = [r[j] for r in rows]
        if f.sub is not None:
            out += flat_columns(f.sub, col, prefix + f.name + ".")
        else:
            out.append((prefix + f.name, f, col))
    return out


def norm_dictcol(v):
    import numpy as np
    if hasattr(v, "to_numpy") and hasattr(v, "tolist"):
        v = v.tolist()
    if isinstance(v, np.ndarray):
        return v.tolist()
    if isinstance(v, list):
        return [x.tolist() if isinstance(x, np.ndarray) else x for x in v]
    raise Obs("container", "dict value of type %s" % type(v).__name__)


# ------------------------------------------------------------------------------------------------------------------
# failure classification

def origin(exc):
    """innermost frame inside bionumpy / npstructures: module.function (no line numbers: stable)"""
    best = "?"
    tb = exc.__traceback__
    while tb is not None:
        code = tb.tb_frame.f_code
        fn = code.co_filename.replace("\\", "/")
        if "/bionumpy/" in fn or "/npstructures/" in fn:
            best = fn.rsplit("/", 1)[1].rsplit(".", 1)[0] + "." + code.co_name
        tb = tb.tb_next
    return best


def diff_fields(sch, got, want):
    """names/kinds of the columns in which the rows differ"""
    bad = []
    if len(got) != len(want):
        return [f for f in sch.fields], "row-count"
    for j, f in enumerate(sch.fields):
        if any(tr(g[j]) != tr(w[j]) for g, w in zip(got, want)):
            bad.append(f)
    return bad, "rows"


def leaf_kind(field, got, want):
    """the kind of the innermost column that differs (descends into nested tables)"""
    if field.sub is None:
        return field.kind
    for j, f in enumerate(field.sub.fields):
        g, w = [r[j] for r in got], [r[j] for r in want]
        if tr(g) != tr(w):
            return leaf_kind(f, g, w)
    return field.kind


def blame(sch, bad, got=None, want=None):
    """kind named in the signature: the value column of a [k, v] schema if it differs, else the first differing one"""
    if not bad:
        return "none"
    pick = None
    for f in bad:
        if f.name == "v":
            pick = f
    if pick is None and len(bad) == len(sch.fields) and len(sch.fields) > 1:
        return "all-columns"
    pick = pick or bad[0]
    if pick.sub is not None and got is not None and len(got) == len(want):
        j = sch.fields.index(pick)
        return leaf_kind(pick, [r[j] for r in got], [r[j] for r in want])
    return pick.kind


class FormCol:
    """collector of the input-form contexts.  A failure that the same case (same rows, same program) also shows when
    every column is handed over in the canonical form is the defect class found there and keeps its signature; a
    failure that needs the input form gets the signature '<signature>:input-form=<form>'.  (The verdict always comes
    from the list-of-rows model; the second run only names the class.)"""

    def __init__(self, col, form, suffix=None):
        self._col, self._form, self._memo = col, form, _FORM_MEMO
        self._suffix = suffix or ":input-form=" + ftag(form)

    def __getattr__(self, name):
        return getattr(self._col, name)

    def fail(self, signature, case, message):
        key = (signature, self._form, case["schema"]["name"], len(case["rows"]),
               json.dumps([o[0] for o in case["program"]]), case.get("final"))
        if self._suffix == ":file-backed" and ("file-backed" in signature or "@indexablearray." in signature):
            self._memo[key] = True
        if key not in self._memo:
            scratch = Collector(PID, "quick", 0, "classification of an input-form failure")
            _CANONICAL[0] = True
            try:
                run_program_case(scratch, case)
            except Exception:
                pass
            finally:
                _CANONICAL[0] = False
            self._memo[key] = signature in scratch._fail_sigs
        if self._suffix == ":file-backed" and ("file-backed" in signature or "@indexablearray." in signature):
            pass        # classes of their own / a class of the ragged column container (npstructures), whatever table holds it
        elif not self._memo[key]:
            signature += self._suffix
        self._col.fail(signature, case, message)

    def check(self, cond, signature, case, message=""):
        if not cond:
            self.fail(signature, case, message)
        return cond


class Ctx:
    """one enumeration context: collector + case description for failures.  form / width: the input form in which
    the base table (and the form-operands of the program) are handed to the library, see FORM_KINDS"""

    def __init__(self, col, sch, base_rows, context=False, form=None, width=None, source=None, safe=None):
        """source: the base table and the concatenation operands are read from files of that format (FILE_SPECS);
        safe: the format whose value pools the generated rows come from (= source, except in the re-run of a
        file-backed case with tables built in memory)"""
        self.sch0, self.base_rows, self.context, self.form, self.width = sch, base_rows, context, form, width
        self.source, self.safe = source, safe or source
        self.col = FormCol(col, form) if form and not isinstance(col, FormCol) else col
        if source and not isinstance(col, FormCol):
            self.col = FormCol(col, "file:" + source, ":file-backed")

    def make(self, sch, rows, form="auto", cls=None):
        """a table of the context's kind (file-backed / built in memory) with these rows"""
        if self.source and sch is self.sch0:
            return read_table(self.source, rows)
        return build(sch, rows, form, cls=cls)

    def base_form(self):
        if self.form is None or (self.form in RECT_FORMS and not self.base_rows):
            return "auto"                      # a 0 x w matrix holds no element: examined in the construct section
        return self.form

    def case(self, program, final=None):
        c = {"section": "program", "schema": self.sch0.desc, "rows": self.base_rows, "program": program, "final": final}
        if self.context:
            c["context"] = True
        if self.form:
            c["form"], c["width"] = self.form, self.width
        if self.safe:
            c["source"] = self.safe
        return c

    def descr(self, d):
        if self.form:
            d["form"] = [self.form, self.width]
        if self.source:
            d["source"] = self.source
        return d


def loose_eq(a, b):
    """equal up to the numeric type (5 == 5.0 == True is False for 5, but 1 == 1.0 == True)"""
    if isinstance(a, (list, tuple)) and isinstance(b, (list, tuple)):
        return len(a) == len(b) and all(loose_eq(x, y) for x, y in zip(a, b))
    if isinstance(a, (bool, int, float)) and isinstance(b, (bool, int, float)):
        return a == b
    return tr(a) == tr(b)


def compare(ctx, opname, qual, sch, got, want, case, what="wrong-rows"):
    bad, how = diff_fields(sch, got, want)
    if not bad:
        return True
    who = blame(sch, bad, got, want)
    if how == "rows" and what == "wrong-rows" and loose_eq(got, want):
        what = "numeric-type-changed"          # same numbers, int <-> float <-> bool
        who = "ragged-numeric" if who in RAGGED_NUM else who
        qual = ""
    sig = "%s:%s:%s%s" % (opname, who, what if how == "rows" else "wrong-row-count", qual)
    ctx.col.fail(sig, case, "columns %s: got %r expected %r" % ([f.name for f in bad], got[:4], want[:4]))
    return False


def run_guarded(ctx, opname, case, fn, with_origin=True):
    """-> (ok, value). Obs and unexpected exceptions become failures"""
    try:
        return True, fn()
    except Obs as o:
        ctx.col.fail("%s:%s" % (opname, o.tag), case, str(o))
    except Exception as e:
        sig = "%s:exception:%s" % (opname, type(e).__name__) + ("@" + origin(e) if with_origin else "")
        ctx.col.fail(sig, case, "" if sig in ctx.col._fail_sigs else traceback.format_exc()[-500:])
    return False, None


# ------------------------------------------------------------------------------------------------------------------
# operations

def slice_list(n):
    s = [(None, None, None), (None, 0, None), (n, None, None), (None, None, -1), (None, None, 2), (1, None, 2),
         (None, None, -2), (-1, None, None), (None, -1, None), (-2, None, None), (None, None, 3), (n - 1, 0, -1),
         (-1, None, -1)]
    for a in range(n + 1):
        for b in range(a, n + 2):
            s.append((a, b, None))
    out, seen = [], set()
    for a, b, st in s:
        key = (tuple(range(n)[slice(a, b, st)]), (st or 1) < 0, (st or 1) not in (1, -1))
        if key not in seen:
            seen.add(key)
            out.append(["slice", a, b, st])
    return out


def has_form(field, form):
    if field.sub is not None:
        return any(has_form(f, form) for f in field.sub.fields)
    return field.kind in FORM_KINDS[form]


def form_ops(sch, n, level, depth, form, width):
    """the operations that take a column / a table in a further input form (only in the input-form contexts):
    concatenation with tables handed over in that form (rectangular forms: of the same and of other widths),
    replace and add_fields with a column in that form"""
    rect = form in RECT_FORMS
    w = width if rect else None
    other = [width + 1] + ([width - 1] if width > 1 else []) if rect else []
    ops = [["concat", "right", 1, form, w, "same"]]
    if level == "mini":
        return ops + [["concat", "left", 1, form, x, "other"] for x in other[:1]]
    ops += [["concat", "left", 2, form, w, "same"]]
    for x in other:
        ops += [["concat", "right", 1, form, x, "other"], ["concat", "left", 2, form, x, "other"]]
    if other:
        ops.append(["concat", "both", 1, form, other[0], "other"])
    fields = [f for f in sch.fields if has_form(f, form)]
    for f in fields if level == "full" else fields[-1:]:
        ops.append(["replace", f.name, form, w])
        ops += [["replace", f.name, form, x] for x in other[:1]]
    f = sch.fields[-1]
    if has_form(f, form) and form != "series":      # add_fields documents lists of values / array-likes, not pandas objects
        ops.append(["add", "w%d" % depth, f.desc[1], True, form, w])
        ops += [["add", "w%d" % depth, f.desc[1], True, form, x] for x in other[:1]]
    return ops


def history_ops(sch, level, source, depth):
    """column assignment (tables built in memory: of the last column, and as first operation also after a read; not at
    level mini, at level full as first operation only); in the file-backed programs of the first and the last column (full: every column), and replace with a
    container of the declared type for the same columns: the tables that chains of replace / assignment go through"""
    full, mini = level == "full", level == "mini"
    first_last = [f for i, f in enumerate(sch.fields) if i in (0, len(sch.fields) - 1)]
    ops = []
    if source:
        ops += [["replace", f.name, "native"] for f in (first_last if mini else sch.fields)
                if not (f is sch.fields[-1] and not mini)]          # (the last column: in the common list)
        ops += [["assign", f.name, "native"] for f in (sch.fields if full else first_last)]
    elif not mini and not (full and depth > 0):
        ops.append(["assign", sch.fields[-1].name, "native"])       # (full x full: as first operation only)
    if not mini and (source or depth == 0):
        ops.append(["assign", sch.fields[-1].name, "after-read"])
    return ops


def table_ops(sch, n, level, depth, form=None, width=None, source=None):
    """operations applicable to a table with schema sch and n rows. level: 'full' every parameter of the bounds,
    'rep' one representative per parameter class, 'mini' one per operation"""
    if level == "hist":
        # the operations that chains of tables go through: replace / assign of the first and the last column, one
        # selection of each kind, one concatenation, one sort
        first_last = [f for i, f in enumerate(sch.fields) if i in (0, len(sch.fields) - 1)]
        ops = [["replace", f.name, "native"] for f in first_last] + [["assign", f.name, "native"] for f in first_last]
        ops += [["assign", sch.fields[-1].name, "after-read"], ["mask", [i % 2 == 0 for i in range(n)]],
                ["slice", 1, None, None], ["idx", [n - 1, 0] if n else [], "array"], ["concat", "right", 1]]
        ops += [["sort", f.name] for f in sch.fields if f.kind in SORTABLE][:1]
        return ops
    full, mini = level == "full", level == "mini"
    ops = form_ops(sch, n, level, depth, form, width) if form else []
    ops += history_ops(sch, level, source, depth)
    # boolean masks
    if n <= 3 and full:
        masks = [list(m) for m in itertools.product([False, True], repeat=n)]
    elif mini:
        masks = [[i % 2 == 0 for i in range(n)]]
    else:
        masks = [[False] * n, [True] * n, [i % 2 == 0 for i in range(n)], [i == n - 1 for i in range(n)]]
        masks = [m for i, m in enumerate(masks) if m not in masks[:i]]
    ops += [["mask", m] for m in masks]
    # slices
    if full and n <= 4:
        ops += slice_list(n)
    elif mini:
        ops += [["slice", 1, None, None], ["slice", None, None, -1]]
    else:
        ops += [["slice", 1, None, None], ["slice", None, -1, None], ["slice", None, None, -1], ["slice", None, None, 2],
                ["slice", None, 0, None]]
    # integer arrays (numpy array and list)
    if full and n <= 3:
        idx = [[]] + [[i] for i in range(-n, n)] + [[i, j] for i in range(n) for j in range(n)]
        if n:
            idx += [[-1, 0], list(range(n - 1, -1, -1)), [0] * (n + 1)]
    elif mini:
        idx = [[n - 1, 0]] if n else [[]]
    else:
        idx = [[]] + ([[n - 1, 0], [0, 0], [-1]] if n else [])
    idx = [x for i, x in enumerate(idx) if x not in idx[:i]]
    ops += [["idx", x, "array"] for x in idx]
    if not mini:
        ops += [["idx", x, "list"] for x in idx if len(x) != 1][:4 if full else 1]
    # concatenation
    if mini:
        ops += [["concat", "right", 1], ["concat", "emptyslice"]]
    else:
        ops += [["concat", "self"], ["concat", "right", 1], ["concat", "left", 1], ["concat", "right", 0],
                ["concat", "left", 0], ["concat", "emptyslice"]]
    if full:
        ops += [["concat", "right", 2], ["concat", "both", 1], ["concat", "left", 2]]
    # sort
    for f in sch.fields:
        if f.kind in SORTABLE:
            ops.append(["sort", f.name])
            if mini:
                break
    # replace: every column (python values), the last column also with a library container
    for f in sch.fields if full else sch.fields[-1:]:
        ops.append(["replace", f.name, "list"])
    if not mini:
        ops.append(["replace", sch.fields[-1].name, "native"])
    if full and sch.fields[-1].sub is None:
        ops.append(["replace", sch.fields[-1].name, "alt"])
    if len(sch.fields) > 1 and full:
        ops.append(["replace2", sch.fields[0].name, sch.fields[-1].name])
    # add_fields: a column of the kind of the last column, with a type map and (basic types) by inference
    f = sch.fields[-1]
    newname = "w%d" % depth
    ops.append(["add", newname, f.desc[1], True])
    if f.kind in INFERABLE and not mini:
        ops.append(["add", newname, f.desc[1], False])
    if full and f.kind != "int":
        ops.append(["add", newname, "int", False])
    # round trips
    if mini:
        ops += [["rt_dict"]]
    else:
        ops += [["rt_tuples", "tolist"], ["rt_tuples", "model"], ["rt_dict"], ["rt_pandas"]]
    return ops


TERMINALS = ["int", "iter", "tolist", "todict", "topandas"]


def op_qual(op, node_n, operand_n=None):
    """qualifier in signatures (class of the parameters, never the parameters themselves)"""
    if op[0] == "slice":
        st = op[3] or 1
        return ":step<0" if st < 0 else (":step>1" if st > 1 else "")
    if op[0] == "idx":
        return (":negative" if any(i < 0 for i in op[1]) else "") + (":list" if op[2] == "list" else "")
    if op[0] == "concat":
        if op[1] == "self":
            return ":self"
        formq = ":operand-%s%s" % (ftag(op[3]), ":other-width" if op[5] == "other" else "") if len(op) > 3 else ""
        if node_n == 0:
            return ":empty-self" + formq
        if op[1] == "emptyslice" or op[2] == 0:
            return ":empty-operand"
        return formq
    if op[0] in ("replace", "assign"):
        return ":" + ftag(str(op[2]))
    if op[0] == "add":
        return (":typed" if op[3] else ":inferred") + (":" + ftag(op[4]) if len(op) > 4 else "")
    if op[0] == "rt_tuples":
        return ":" + op[1]
    return ""


class Node:
    """a table reached by a program. The table itself is not kept: reading a table back makes the library cache
    things inside it (lazy ragged views are materialised), so every operation and every observation channel gets
    a table rebuilt by re-running the program on unobserved tables, as user code would"""

    def __init__(self, steps, rows, sch, path, hist=None):
        self.steps, self.rows, self.sch, self.path = steps, rows, sch, path
        # hist[i] = (rows, schema) of the i-th table of the program (0 = base table ... len(steps) = this one);
        # None: that table was changed in place later (column assignment) and is the same object as its successor
        self.hist = hist if hist is not None else [(rows, sch)]


def fresh(ctx, node, keep=None):
    """keep: a list that receives every table of the program, in order (base table first)"""
    t = ctx.make(ctx.sch0, ctx.base_rows, ctx.base_form())
    if ctx.context:
        t.set_context("header", "##some header\n")     # what the file readers attach to every chunk
    if keep is not None:
        keep.append(t)
    for st in node.steps:
        t = st(t, {})
        if keep is not None:
            keep.append(t)
    return t


def _file_backed(t):
    from bionumpy.bnpdataclass.lazybnpdataclass import LazyBNPDataClass
    return isinstance(t, LazyBNPDataClass)


def make_step(node, op, ctx=None):
    """-> (step(t, info) -> table, expected rows or None for sort, new schema, extra). Library side of one operation"""
    import numpy as np
    import bionumpy as bnp
    sch, rows = node.sch, node.rows
    n = len(rows)
    name = op[0]
    new_sch, extra = sch, {}
    if name == "mask":
        m = np.array(op[1], dtype=bool)
        want = [r for r, keep in zip(rows, op[1]) if keep]
        step = lambda t, info: t[m]
    elif name == "slice":
        sl = slice(op[1], op[2], op[3])
        want = rows[sl]
        step = lambda t, info: t[sl]
    elif name == "idx":
        ix = np.array(op[1], dtype=int) if op[2] == "array" else list(op[1])
        want = [rows[i] for i in op[1]]
        step = lambda t, info: t[ix]
    elif name == "concat":
        if op[1] == "self":
            want = rows + rows
            step = lambda t, info: np.concatenate([t, t])
        elif op[1] == "emptyslice":
            want = list(rows)
            step = lambda t, info: np.concatenate([t, t[:0]])
        else:
            uform, uwidth = (op[3], op[4]) if len(op) > 3 else ("auto", None)
            safe = ctx.safe if ctx is not None and sch is ctx.sch0 else None
            urows = make_rows(sch, op[2], 3 + len(node.path), width=uwidth, source=safe)
            want = {"right": rows + urows, "left": urows + rows, "both": urows + rows + urows}[op[1]]

            def step(t, info):
                if ctx is not None and ctx.source and sch is ctx.sch0 and _file_backed(t):
                    u = read_table(ctx.source, urows)       # a file-backed table is joined with file-backed tables
                else:
                    u = build(sch, urows, uform, cls=type(t))
                info["operand"] = (u, urows)
                return np.concatenate({"right": [t, u], "left": [u, t], "both": [u, t, u]}[op[1]])
    elif name == "sort":
        want = None
        extra["j"] = sch.names().index(op[1])
        step = lambda t, info: t.sort_by(op[1])
    elif name in ("replace", "replace2"):
        names = [op[1]] if name == "replace" else [op[1], op[2]]
        form = op[2] if name == "replace" else "list"
        want = [list(r) for r in rows]
        cols = {}
        for nm in names:
            j = sch.names().index(nm)
            newvals = [value(sch.fields[j], 4 + i + len(node.path), op[3] if name == "replace" and len(op) > 3 else None)
                       for i in range(n)]
            for r, v in zip(want, newvals):
                r[j] = v
            cols[nm] = (sch.fields[j], newvals)

        def step(t, info):
            def typed(f, vals):
                return len(vals) > 0 and (f.kind not in RAGGED_NUM or any(len(v) for v in vals))
            kw = {nm: to_input(f, vals, "auto" if form == "list" else (form if typed(f, vals) else "native"))
                  for nm, (f, vals) in cols.items()}
            info["lists"] = [(v, copy.deepcopy(v)) for v in kw.values() if isinstance(v, list) and form == "list"]
            return bnp.replace(t, **kw)
    elif name == "assign":
        # t.col = values: changes this table in place (and no other); the values are a container of the declared type.
        # 'after-read': the table has been converted to rows once before the assignment
        j = sch.names().index(op[1])
        newvals = [value(sch.fields[j], 5 + i + len(node.path)) for i in range(n)]
        want = [list(r) for r in rows]
        for r, v in zip(want, newvals):
            r[j] = v
        extra["mutates"] = True

        def step(t, info):
            arg = to_input(sch.fields[j], newvals, "native")
            if op[2] == "after-read":
                t.tolist()
            setattr(t, op[1], arg)
            return t
    elif name == "add":
        new_sch = sch.extended(op[1], op[2])
        f = new_sch.fields[-1]
        newvals = [value(f, 2 + i, op[5] if len(op) > 5 else None) for i in range(n)]
        want = [list(r) + [v] for r, v in zip(rows, newvals)]

        def step(t, info):
            arg = to_input(f, newvals, op[4] if len(op) > 4 and n > 0 else "auto")
            info["lists"] = [(arg, copy.deepcopy(arg))] if isinstance(arg, list) else []
            return t.add_fields({op[1]: arg}, {op[1]: type_of(f)}) if op[3] else t.add_fields({op[1]: arg})
    elif name == "rt_tuples":
        want = rows
        if op[1] == "tolist":
            step = lambda t, info: type(t).from_entry_tuples(
                [tuple(getattr(r, f.name) for f in sch.fields) for r in t.tolist()])
        else:
            def as_tuple_row(r, s):
                return tuple(as_tuple_row(v, f.sub) if f.sub is not None else
                             ("".join(chr(33 + q) for q in v) if f.kind == "qual" else copy.deepcopy(v))
                             for v, f in zip(r, s.fields))
            step = lambda t, info: type(t).from_entry_tuples([as_tuple_row(r, sch) for r in rows])
    elif name == "rt_dict":
        want = rows
        step = lambda t, info: type(t).from_dict(t.todict())
    elif name == "rt_pandas":
        want = rows
        step = lambda t, info: type(t).from_data_frame(t.topandas())
    else:
        raise ValueError(op)
    return step, want, new_sch, extra


def apply_op(ctx, node, op):
    """apply one table operation to node (library + model), check result and operands. -> Node or None"""
    col = ctx.col
    sch, rows = node.sch, node.rows
    n = len(rows)
    program = node.path + [op]
    case = ctx.case(program)
    name = op[0]
    qual = op_qual(op, n)
    col.case(ctx.descr({"s": sch.name, "base": len(ctx.base_rows), "p": program, "ctx": ctx.context}), contract=name)
    step, want, new_sch, extra = make_step(node, op, ctx)
    tables = []
    ok, t = run_guarded(ctx, "prefix", case, lambda: fresh(ctx, node, tables))
    if not ok:
        return None
    info = {}
    if n == 0 and name in ("add", "rt_tuples"):
        # one class: these two need a first row to look at
        ok, res = run_guarded(ctx, name + ":zero-rows", case, lambda: step(t, info), with_origin=False)
    elif ctx.context and name == "add":
        # one class: add_fields of a table that carries a context (every chunk read from a file does)
        ok, res = run_guarded(ctx, "add:with-context", case, lambda: step(t, info), with_origin=False)
    elif ctx.source and name == "add" and _file_backed(t):
        # one class: add_fields of a table read from a file
        ok, res = run_guarded(ctx, "add:file-backed", case, lambda: step(t, info), with_origin=False)
    elif ctx.source and name == "rt_tuples" and _file_backed(t):
        # one class: the class of a table read from a file cannot build a table from rows
        try:
            res = step(t, info)
            extract(res, new_sch)
            ok = True
        except Exception as e:
            col.fail("rt_tuples:file-backed:class-cannot-build-from-rows", case, "%s: %s" % (type(e).__name__, e))
            return None
    else:
        ok, res = run_guarded(ctx, name + qual, case, lambda: step(t, info))
    if not ok:
        return None
    from bionumpy.bnpdataclass import BNPDataClass
    if not isinstance(res, BNPDataClass):
        col.fail("%s:result-not-a-table" % name, case, "result is a %s" % type(res).__name__)
        return None
    if ctx.source and want is not None and len(want) == 0 and _file_backed(res):
        # one class: a selection of no rows of a table read from a file
        ok, got = run_guarded(ctx, "zero-rows:file-backed", case, lambda: extract(res, new_sch))
    else:
        ok, got = run_guarded(ctx, name + ":result", case, lambda: extract(res, new_sch))
    if not ok:
        return None
    if extra.get("mutates"):
        # the rows of the table changed in place, as the conversion to rows gives them (one class for all column kinds)
        ok, lst = run_guarded(ctx, name + ":tolist" + qual, case, lambda: [plain_row(e, new_sch) for e in res.tolist()])
        if not ok:
            return None
        if [tr(r) for r in lst] != [tr(r) for r in want]:
            col.fail("assign:rows-not-updated", case, "columns say %r, tolist() says %r" % (got[:4], lst[:4]))
            return None
    good = True
    if want is not None:
        good = compare(ctx, name, qual, new_sch, got, want, case)
    else:
        # sorted: a permutation of the rows, key column non-decreasing (ties in any order)
        j = extra["j"]
        if sorted(tr(r) for r in got) != sorted(tr(r) for r in rows):
            col.fail("sort:%s:not-a-permutation" % sch.fields[j].kind, case, "got %r from %r" % (got[:4], rows[:4]))
            good = False
        else:
            keys = [r[j] for r in got]
            keyf = (lambda x: ALPHABETS["strand"].index(x)) if sch.fields[j].kind == "strand" else (lambda x: x)
            if any(keyf(a) > keyf(b) for a, b in zip(keys, keys[1:])):
                col.fail("sort:%s:not-sorted" % sch.fields[j].kind, case, "key column after sort_by: %r" % (keys,))
                good = False
    # operands unchanged (a column assignment changes its operand: that is its result)
    operands = ([] if extra.get("mutates") else [(t, rows)]) + ([info["operand"]] if "operand" in info else [])
    for (o, orows) in operands:
        ok2, again = run_guarded(ctx, name + ":operand", case, lambda: extract(o, sch))
        if ok2:
            compare(ctx, name, qual, sch, again, orows, case, what="operand-changed")
    # every earlier table of the program still holds the rows it had when it was made
    for old, h in zip(tables, node.hist[:-1]):
        if h is not None:
            ok2, again = run_guarded(ctx, name + ":ancestor", case, lambda: extract(old, h[1]))
            if ok2:
                compare(ctx, name, qual, h[1], again, h[0], case, what="ancestor-changed")
    for now, before in info.get("lists", []):
        col.check(now == before, "%s:argument-changed" % name, case, "a list passed to %s was modified" % name)
    if not good:
        return None
    newrows = got if want is None else want
    hist = (node.hist[:-1] + [None] if extra.get("mutates") else node.hist) + [(newrows, new_sch)]
    return Node(node.steps + [step], newrows, new_sch, program, hist)


def terminal(ctx, node, name, t=None):
    """observation channels of one table: -> nothing, failures recorded"""
    col, sch, rows = ctx.col, node.sch, node.rows
    n = len(rows)
    case = ctx.case(node.path, name)
    col.case(ctx.descr({"s": sch.name, "base": len(ctx.base_rows), "p": node.path, "obs": name, "ctx": ctx.context}),
             contract="observe:" + name)
    if t is None:
        ok, t = run_guarded(ctx, "prefix", case, lambda: fresh(ctx, node))
        if not ok:
            return
    if name == "int":
        def f():
            ln = len(t)
            if ln != n:
                raise Obs("len", "len(table)=%d expected %d" % (ln, n))
            return [entry_row(t[i], sch) for i in list(range(n)) + list(range(-n, 0))]
        ok, got = run_guarded(ctx, "getitem-int", case, f)
        if ok:
            compare(ctx, "getitem-int", "", sch, got, rows + rows, case)
    elif name == "iter":
        ok, got = run_guarded(ctx, "iter", case, lambda: [entry_row(e, sch) for e in t])
        if ok:
            compare(ctx, "iter", "", sch, got, rows, case)
    elif name == "tolist":
        def f():
            cls = type(t)
            out = t.tolist()
            if not isinstance(out, list):
                raise Obs("container", "tolist() returned %s" % type(out).__name__)
            for e in out:
                if not isinstance(e, cls.dataclass):
                    raise Obs("container", "tolist() row is a %s" % type(e).__name__)
            it = [plain_row(e, sch) for e in t.toiter()]
            lst = [plain_row(e, sch) for e in out]
            if [tr(r) for r in it] != [tr(r) for r in lst]:
                raise Obs("toiter-differs", "toiter %r tolist %r" % (it, lst))
            return lst
        ok, got = run_guarded(ctx, "tolist", case, f)
        if ok:
            compare(ctx, "tolist", "", sch, got, rows, case)
    elif name in ("todict", "topandas"):
        expect = flat_columns(sch, rows)

        def f():
            if name == "todict":
                d = t.todict()
                keys = list(d.keys())
                cols = {k: norm_dictcol(v) for k, v in d.items()}
            else:
                df = t.topandas()
                if len(df) != n:
                    raise Obs("len", "data frame has %d rows expected %d" % (len(df), n))
                keys = list(df.columns)
                cols = {k: norm_dictcol(df[k]) for k in keys}
            if keys != [k for k, _, _ in expect]:
                raise Obs("keys", "keys %r expected %r" % (keys, [k for k, _, _ in expect]))
            return cols
        ok, cols = run_guarded(ctx, name, case, f)
        if ok:
            for k, fld, want in expect:
                got = cols[k]
                if fld.kind in ("strand", "char") and isinstance(got, str):
                    got = list(got)
                if n == 0 and len(got) == 0:
                    continue
                if tr(got) != tr(want):
                    col.fail("%s:%s:wrong-column" % (name, fld.kind), case, "key %s: got %r expected %r" % (k, got, want))
                    break
    else:
        raise ValueError(name)


# ------------------------------------------------------------------------------------------------------------------
# enumeration of programs

def all_terminals(ctx, node):
    """t[i] and iteration on tables nobody has looked at yet; the three conversions share one table"""
    terminal(ctx, node, "int")
    terminal(ctx, node, "iter")
    ok, t = run_guarded(ctx, "prefix", ctx.case(node.path, "tolist"), lambda: fresh(ctx, node))
    if ok:
        for name in ("tolist", "todict", "topandas"):
            terminal(ctx, node, name, t)


def explore(ctx, node, depth, levels, seen):
    """depth-first over table operations. levels[d] = parameter level of the d-th operation.  A node is expanded once
    per (schema, operation kinds / parameter classes on the path, rows); below depth 1 the observation channels run
    once per (schema, last operation, rows)"""
    col = ctx.col
    last = (node.path[-1][0] + op_qual(node.path[-1], 1)) if node.path else "fresh"
    tkey = ("T", ctx.sch0.name, node.sch.name, len(node.sch.fields), last, json.dumps(node.rows)) + \
           ((ctx.form, ctx.width) if ctx.form else ()) + (("file", ctx.source) if ctx.source else ())
    if depth <= 1 or tkey not in seen:
        seen.add(tkey)
        all_terminals(ctx, node)
    if depth >= len(levels) or col.out_of_time():
        return
    for op in table_ops(node.sch, len(node.rows), levels[depth], depth, ctx.form, ctx.width, ctx.source):
        if col.out_of_time():
            return
        if len(node.rows) > 6 and op[0] == "concat":
            continue
        child = apply_op(ctx, node, op)
        if child is None:
            continue
        # (tables built in memory: what follows an assignment does not depend on whether the table was read before it)
        key = (ctx.sch0.name, len(ctx.base_rows),
               tuple(o[0] + (op_qual(o, 1) if ctx.source or o[0] != "assign" else "") for o in child.path),
               json.dumps(child.rows), child.sch.name, len(child.sch.fields), tuple(levels[depth + 1:]))
        if ctx.form:
            key += (ctx.form, ctx.width)
        if ctx.source:
            key += ("file", ctx.source)
        if key in seen:
            if op[0] == "assign" and not ctx.source:
                all_terminals(ctx, child)
            continue
        seen.add(key)
        if op[0].startswith("rt_") and any(f.kind == "char" for f in child.sch.fields):
            # a table rebuilt from rows holds its text in the ragged container: observed, not joined with flat columns
            explore(ctx, child, len(levels), levels, seen)
            continue
        explore(ctx, child, depth + 1, levels, seen)


def run_programs(col, sch, ns, levels, seen=None, context=False, form=None, width=None, source=None):
    """form / width: the base table is handed to the library in that input form (rectangular forms: list columns
    with `width` elements per row) and the operations that take a table / column in that form are added;
    source: the base table (and the operands of concatenation) are read from a file of that format"""
    seen = set() if seen is None else seen
    _LENIENT[0] = bool(form)
    _FILE[0] = bool(source)
    try:
        for n in ns:
            rows = make_rows(sch, n, width=width if form in RECT_FORMS else None, source=source)
            ctx = Ctx(col, sch, rows, context, form, width, source)
            case = ctx.case([])
            ok, t = run_guarded(ctx, "construct", case, lambda: ctx.make(sch, rows, ctx.base_form()))
            if not ok:
                continue
            ok, got = run_guarded(ctx, "construct:result", case, lambda: extract(t, sch))
            if not ok or not compare(ctx, "construct", "", sch, got, rows, case):
                continue
            explore(ctx, Node([], rows, sch, []), 0, levels, seen)
            if col.out_of_time():
                return
    finally:
        _LENIENT[0] = False
        _FILE[0] = False


def sample_programs(col, sch, n, length, count):
    """random programs of `length` table operations (full parameter sets), above the exhaustive depth"""
    rows = make_rows(sch, n)
    ctx = Ctx(col, sch, rows)
    for _ in range(count):
        if col.out_of_time():
            return
        ok, t = run_guarded(ctx, "construct", ctx.case([]), lambda: build(sch, rows))
        if not ok:
            return
        node = Node([], rows, sch, [])
        for d in range(length):
            ops = table_ops(node.sch, len(node.rows), "full", d)
            if len(node.rows) > 6:
                ops = [o for o in ops if o[0] != "concat"]
            nxt = apply_op(ctx, node, col.rng.choice(ops))
            if nxt is None:
                break
            node = nxt
        all_terminals(ctx, node)


# ------------------------------------------------------------------------------------------------------------------
# construction contracts

def check_container(obj, field):
    """declared type of a freshly constructed column; -> None or a message"""
    import numpy as np
    from npstructures import RaggedArray
    from bionumpy.encoded_array import EncodedArray, EncodedRaggedArray
    from bionumpy.string_array import StringArray
    from bionumpy.bnpdataclass import BNPDataClass
    k = field.kind
    if field.sub is not None:
        if not isinstance(obj, cls_of(field.sub)):
            return "nested column is a %s" % type(obj).__name__
        for f in field.sub.fields:
            m = check_container(getattr(obj, f.name), f)
            if m:
                return m
        return None
    if k in NUM:
        if not isinstance(obj, np.ndarray):
            return "%s column is a %s" % (k, type(obj).__name__)
        if obj.dtype.kind not in NUM[k]:
            return "dtype:%s column has dtype %s" % (k, obj.dtype)
        return None
    if k in ("sid", "ls"):
        return None if isinstance(obj, StringArray) else "%s column is a %s" % (k, type(obj).__name__)
    if k in ("li", "lf", "lb", "qual", "ciglen"):
        if not isinstance(obj, RaggedArray) or isinstance(obj, EncodedRaggedArray):
            return "%s column is a %s" % (k, type(obj).__name__)
        want = {"li": "iu", "lf": "f", "lb": "b", "qual": "iu", "ciglen": "iu"}[k]
        if obj.dtype.kind not in want:
            return "dtype:%s column has dtype %s" % (k, obj.dtype)
        return None
    if k in ("strand", "char"):
        if not isinstance(obj, EncodedArray) or obj.ndim != 1:
            return "%s column is a %s" % (k, type(obj).__name__)
    elif not isinstance(obj, EncodedRaggedArray):
        return "%s column is a %s" % (k, type(obj).__name__)
    if k in ALPHABETS:
        try:
            labels = "".join(obj.encoding.get_labels())
        except Exception:
            labels = None
        if labels != ALPHABETS[k]:
            return "%s column has encoding %r" % (k, obj.encoding)
    else:
        from bionumpy.encodings import BaseEncoding
        if obj.encoding != BaseEncoding:
            return "%s column has encoding %r" % (k, obj.encoding)
    return None


def construct_case(col, case):
    """case: section=construct, schema, rows, form ('list'|'native'|'auto'|'empty()'), keywords"""
    sch = Sch.from_desc(case["schema"])
    rows = case["rows"]
    form = case["form"]
    ctx = Ctx(col, sch, rows)
    n = len(rows)
    def no_elements(v):
        return all(no_elements(x) for x in v) if isinstance(v, list) else False
    untyped = form in ("list", "alt") and any(no_elements([r[j] for r in rows]) for j, f in enumerate(sch.fields)
                                               if f.kind in NUM or f.kind in RAGGED_NUM)
    zero = ":untyped-empty-lists" if untyped or (form == "list" and n == 0) else (":empty()" if form == "empty()" else "")
    fsuffix = ""
    if form in FORM_KINDS:
        # a typed matrix without elements (0 rows or 0 columns) is its own class
        fsuffix = ":" + ftag(form)
        def element_free(f, vals):
            if f.sub is not None:
                return any(element_free(g, [v[i] for v in vals]) for i, g in enumerate(f.sub.fields))
            return f.kind in FORM_KINDS[form] and no_elements(vals)
        if form in RECT_FORMS and any(element_free(f, [r[j] for r in rows]) for j, f in enumerate(sch.fields)):
            zero = ":element-free"
    descr = {"k": "construct", "s": sch.name, "n": n, "form": form, "kw": case.get("keywords", False)}
    if form in FORM_KINDS:
        descr["w"] = case.get("width")
    col.case(descr, contract="construct")
    if form == "empty()":
        ok, t = run_guarded(ctx, "construct:empty()", case, lambda: cls_of(sch).empty())
    else:
        cols = [to_input(f, [r[j] for r in rows], form) for j, f in enumerate(sch.fields)]
        snapshot = [copy.deepcopy(c) if isinstance(c, list) and form == "list" else None for c in cols]
        cls = cls_of(sch)
        ok, t = run_guarded(ctx, "construct" + zero + fsuffix, case,
                            (lambda: cls(**dict(zip(sch.names(), cols)))) if case.get("keywords") else (lambda: cls(*cols)))
    if not ok:
        return
    declared = True
    for f in sch.fields:
        m = check_container(getattr(t, f.name), f)
        if m:
            what = "dtype-not-declared" if m.startswith("dtype:") else "container-not-declared"
            if fsuffix:
                # one class per kind of the innermost column concerned that is not converted (with or without elements);
                # one class for the element type lost by a matrix without elements
                kind = m.split(" ", 1)[0].split(":")[-1]
                sig = "construct:%s:%s%s" % (kind, what, fsuffix) if not zero or what == "container-not-declared" else \
                    "construct:any:%s%s%s" % (what, zero, fsuffix)
                col.fail(sig, case, "column %s of %s: %s" % (f.name, sch.name, m))
                declared = declared and what != "container-not-declared"
            else:
                col.fail("construct:%s:%s%s" % (f.kind if not zero else "any", what, zero), case, m)
    if not declared:
        return                  # one class: the column is not converted; what follows from that is not a new class
    ok, got = run_guarded(ctx, "construct:result" + zero + fsuffix, case, lambda: extract(t, sch))
    if ok:
        compare(ctx, "construct", zero + (":" + ftag(form) if form in ("native", "alt") or fsuffix else ""), sch, got, rows, case)
    if form != "empty()":
        for c, s in zip(cols, snapshot):
            if s is not None:
                col.check(c == s, "construct:argument-changed", case, "a list passed to the constructor was modified")
    if zero and ok:
        # what such a table does to the rows it is concatenated with
        import numpy as np
        urows = make_rows(sch, 2, 3)
        ok, u = run_guarded(ctx, "construct", case, lambda: build(sch, urows))
        if ok:
            for order in ("left", "right"):
                col.case({"k": "construct-concat", "s": sch.name, "form": form, "order": order}, contract="concat")
                ok, r = run_guarded(ctx, "concat%s%s" % (zero, fsuffix), case, lambda: np.concatenate([t, u] if order == "left" else [u, t]))
                if ok:
                    ok, got = run_guarded(ctx, "concat:result%s%s" % (zero, fsuffix), case, lambda: extract(r, sch))
                    if ok:
                        wantc = (rows + urows) if order == "left" else (urows + rows)
                        bad, how = diff_fields(sch, got, wantc)
                        if bad:
                            col.fail("concat:rows-changed%s%s" % (zero, fsuffix), case,
                                     "columns %s: got %r expected %r" % ([f.name for f in bad], got, wantc))


# ill-typed constructor arguments: (declared kind, name of the bad input, builder)
def bad_inputs():
    import numpy as np
    return [("int", "strings", lambda n: ["a", "b", "c"][:n]),
            ("float", "strings", lambda n: ["a", "b", "c"][:n]),
            ("bool", "strings", lambda n: ["a", "b", "c"][:n]),
            ("int", "ragged-lists", lambda n: [[1, 2], [3], []][:n]),
            ("str", "ints", lambda n: [1, 2, 3][:n]),
            ("sid", "nested-lists", lambda n: [["a", "b"], ["c"], []][:n]),
            ("li", "strings", lambda n: ["ab", "c", ""][:n]),
            ("strand", "letters-outside-alphabet", lambda n: ["+", "x", "-"][:n]),
            ("dna", "letters-outside-alphabet", lambda n: ["AC", "AXG", ""][:n]),
            ("dna", "ints", lambda n: [1, 2, 3][:n]),
            ("nested", "list-of-tuples", lambda n: [(1, "a"), (2, "b"), (3, "c")][:n]),
            ("nested", "ints", lambda n: [1, 2, 3][:n])]


def illtyped_case(col, case):
    kind, bad, n = case["kind"], case["bad"], case["n"]
    sch = Sch("K_" + kind, [["k", "int"], ["v", kind if kind != "nested" else {"nested": INNER}]], None, True)
    ctx = Ctx(col, sch, [])
    col.case({"k": "illtyped", "kind": kind, "bad": bad, "n": n}, contract="construct-or-raise")
    arg = [b for k2, b2, b in bad_inputs() if (k2, b2) == (kind, bad)][0](n)
    try:
        t = cls_of(sch)(list(range(n)), arg)
    except Exception:
        return                                   # raised: allowed
    m = check_container(t.v, sch.fields[1])
    col.check(m is None, "construct:ill-typed:%s<-%s:accepted-unconverted" % (kind, bad), case,
              "no exception and the column is not of the declared type: %s" % m)


def unequal_case(col, case):
    """columns of different lengths must be refused"""
    sch = Sch.from_desc(case["schema"])
    n, short, op = case["n"], case["short"], case["op"]
    ctx = Ctx(col, sch, [])
    col.case({"k": "unequal", "s": sch.name, "n": n, "short": short, "op": op}, contract="equal-lengths")
    rows = make_rows(sch, n)
    j = sch.names().index(short)
    f = sch.fields[j]
    delta = case["delta"]
    vals = [value(f, i) for i in range(n + delta)]
    import bionumpy as bnp
    try:
        if op == "construct":
            cols = [to_input(g, [r[i] for r in rows], "auto") if i != j else to_input(f, vals, "auto")
                    for i, g in enumerate(sch.fields)]
            t = cls_of(sch)(*cols)
        elif op == "replace":
            t = bnp.replace(build(sch, rows), **{short: to_input(f, vals, "auto")})
        else:
            t = build(sch, rows).add_fields({"w": to_input(f, vals, "list")}, {"w": type_of(f)})
    except Exception:
        return
    lens = None
    try:
        import dataclasses
        lens = [len(getattr(t, g.name)) for g in dataclasses.fields(t)]
    except Exception:
        pass
    col.fail("%s:unequal-column-lengths-accepted" % op, case, "column lengths %r" % (lens,))


def datatypes_case(col, case):
    """field names / kinds of a class of bionumpy.datatypes"""
    import dataclasses
    import inspect
    import bionumpy.datatypes as dt
    from bionumpy.bnpdataclass import BNPDataClass
    name = case["datatype"]
    col.case({"k": "datatype-schema", "name": name}, contract="datatype-schema")
    if name == "*":
        present = sorted(k for k, c in vars(dt).items() if inspect.isclass(c) and issubclass(c, BNPDataClass)
                         and c is not BNPDataClass)
        known = sorted(list(DATATYPES) + DATATYPES_SKIPPED)
        col.check(present == known, "datatypes:class-list-differs", case,
                  "missing %r, unknown %r" % (sorted(set(known) - set(present)), sorted(set(present) - set(known))))
        return
    cls = getattr(dt, name, None)
    if not col.check(cls is not None, "datatypes:%s:missing" % name, case, "no such class"):
        return
    got = [f.name for f in dataclasses.fields(cls)]
    want = [f[0] for f in DATATYPES[name]]
    col.check(got == want, "datatypes:%s:fields-differ" % name, case, "fields %r expected %r" % (got, want))


# ------------------------------------------------------------------------------------------------------------------
# re-encoding: a column that is already encoded in one alphabet handed to a field declared with another alphabet

# name -> (alphabet in code order, written from the documentation of the encodings; how to get the library object)
ENCODINGS = {
    "DNA": "ACGT", "ACGTn": "ACGTN", "RNA": "ACUG", "AminoAcid": "ACDEFGHIKLMNPQRSTVWY*", "Bam": "=ACMGRSVTWYHKDBN",
    "CigarOp": "MIDNSHP=X", "Strand": "+-.",
    # objects that user code makes with AlphabetEncoding(letters)
    "custom:ACTG": "ACTG", "custom:ACGT": "ACGT", "custom:CAGT": "CAGT", "custom:AC": "AC", "custom:ACGU": "ACGU",
    "custom:+.-": "+.-",
}
FLAT_ONLY = {"Strand"}          # declared as one letter per row (rows of other lengths are not values of such a field)
_ENC = {}
_ENC_CLS = {}


def encoding_of(name):
    if name not in _ENC:
        import bionumpy as bnp
        import bionumpy.encodings as be
        if name.startswith("custom:"):
            _ENC[name] = be.AlphabetEncoding(name.split(":", 1)[1])
        else:
            _ENC[name] = {"DNA": lambda: bnp.DNAEncoding, "ACGTn": lambda: be.ACGTnEncoding, "RNA": lambda: bnp.RNAENcoding,
                          "AminoAcid": lambda: bnp.AminoAcidEncoding, "Bam": lambda: be.BamEncoding,
                          "CigarOp": lambda: be.CigarOpEncoding, "Strand": lambda: be.StrandEncoding}[name]()
    return _ENC[name]


def reencode_cls(dst):
    if dst not in _ENC_CLS:
        from bionumpy.bnpdataclass import bnpdataclass
        base = type("Enc_" + dst.replace(":", "_").replace("+", "p").replace("-", "m").replace(".", "d"), (),
                    {"__annotations__": {"k": int, "v": encoding_of(dst)}})
        _ENC_CLS[dst] = bnpdataclass(base)
    return _ENC_CLS[dst]


def reencode_words(alphabet, m, variant, flat):
    """rows over the first m letters of the alphabet in which the m-th letter occurs (m = 0: no letter at all).
    flat: one letter per row"""
    if m == 0:
        return [[], [""], ["", ""]][variant] if not flat else []
    top, low = alphabet[m - 1], alphabet[:m]
    if flat:
        return [[top], [low[0], top], [top, low[(m - 1) // 2], top]][variant]
    return [[top], [low, "", low[0] + top], [top + top + low[0], low[::-1], low[0]]][variant]


def reencode_case(col, case):
    """case: src, dst (names of ENCODINGS), words, flat, op ('construct' | 'replace' | 'add')"""
    import bionumpy as bnp
    from bionumpy.encoded_array import EncodedArray, EncodedRaggedArray
    src, dst, words, flat, op = case["src"], case["dst"], case["words"], case["flat"], case["op"]
    xa, ya = ENCODINGS[src], ENCODINGS[dst]
    col.case({"k": "reencode", "src": src, "dst": dst, "words": words, "flat": flat, "op": op}, contract="convert-or-raise")
    n = len(words)
    # the argument, made from the codes (position of each letter in the source alphabet) - not by the text encoder
    import numpy as np
    from npstructures import RaggedArray
    codes = [[xa.index(c) for c in w] for w in words]
    if flat:
        arg = EncodedArray(np.array([c[0] for c in codes], dtype=np.uint8), encoding_of(src))
    else:
        arg = EncodedRaggedArray(EncodedArray(np.array([c for w in codes for c in w], dtype=np.uint8), encoding_of(src)),
                                 [len(w) for w in codes])
    cls = reencode_cls(dst)
    keys = list(range(n))
    base = None
    try:
        if op == "construct":
            t = cls(keys, arg)
        else:
            filler = [ya[0]] * n if not flat else ya[0] * n
            base = cls(keys, filler)
            if op == "replace":
                t = bnp.replace(base, v=arg)
            else:
                t = base.add_fields({"w": arg}, {"w": encoding_of(dst)})
    except Exception:
        t = None                    # refused: allowed
    # the argument still holds the letters it held
    col.check(arg.raw().tolist() == (codes if not flat else [c[0] for c in codes]) and arg.encoding == encoding_of(src),
              "reencode:argument-changed", case, "the encoded column handed over was modified")
    if t is None:
        return "refused"

    def read():
        c = getattr(t, "w" if op == "add" else "v")
        if not isinstance(c, (EncodedArray, EncodedRaggedArray)):
            raise Obs("container", "column is a %s" % type(c).__name__)
        labels = "".join(c.encoding.get_labels()) if hasattr(c.encoding, "get_labels") else None
        if labels != ya:
            raise Obs("encoding-not-declared", "the field declares the alphabet %r, the column has %r" % (ya, c.encoding))
        raw = c.raw().tolist()
        if n and isinstance(c, EncodedRaggedArray) == flat:
            raise Obs("container", "column is a %s" % type(c).__name__)
        if not n:
            raw = []
        if any(x >= len(ya) for x in (raw if flat else [x for r in raw for x in r])):
            raise Obs("bad-code", "codes outside the declared alphabet: %r" % (raw,))
        by_codes = [ya[x] for x in raw] if flat else ["".join(ya[x] for x in r) for r in raw]
        by_rows = [getattr(e, "w" if op == "add" else "v") for e in t.tolist()]
        return by_codes, by_rows
    try:
        by_codes, by_rows = read()
    except Obs as o:
        col.fail("reencode:accepted:%s" % o.tag, case, str(o))
        return "built"
    except Exception as e:
        col.fail("reencode:accepted:exception-when-read:%s" % type(e).__name__, case, traceback.format_exc()[-500:])
        return "built"
    want = list(words)
    if len(by_codes) != n or len(by_rows) != n or len(t) != n:
        col.fail("reencode:accepted:wrong-row-count", case, "put in %r, column holds %r, rows %r" % (want, by_codes, by_rows))
    elif by_codes != want or by_rows != want:
        col.fail("reencode:accepted:letters-changed", case,
                 "%s-encoded %r into a field declared %s (%s): not refused, column holds %r, rows %r"
                 % (src, want, dst, op, by_codes, by_rows))
    if base is not None:
        col.check(base.v.raw().tolist() == ([0] * n if flat else [[0]] * n), "reencode:operand-changed", case,
                  "the table that %s was applied to changed" % op)
    return "built"


def reencode_cases(quick):
    names = list(ENCODINGS)
    seen = set()
    for src in names:
        xa = ENCODINGS[src]
        for dst in names:
            ya = ENCODINGS[dst]
            if src == dst:
                continue
            d = next((i for i, (a, b) in enumerate(zip(xa, ya)) if a != b), min(len(xa), len(ya)))    # first difference
            # m letters in use, the m-th is present.  near = the largest letter present is the one before / at / behind
            # the first position where the alphabets differ
            ms = sorted({0, d, d + 1, d + 2, len(xa)}) if quick else range(len(xa) + 1)
            for m in ms:
                if m > len(xa):
                    continue
                near = abs(m - 1 - d) <= 1
                if quick:
                    plan = {d + 1: [(False, (0, 1, 2), ("construct",)), (False, (1,), ("replace", "add")), (True, (1,), ("construct",))],
                            d: [(False, (1,), ("construct", "replace", "add")), (True, (1,), ("construct",))]}.get(
                        m, [(False, (1,), ("construct",))])
                elif near:
                    plan = [(False, (0, 1, 2), ("construct", "replace", "add")), (True, (0, 1, 2), ("construct", "replace", "add"))]
                else:
                    plan = [(False, (1,), ("construct",)), (True, (1,), ("construct",))]
                for flat, variants, ops in plan:
                    if dst in FLAT_ONLY and not flat:
                        flat = True                 # a field of one letter per row is given one letter per row
                    for variant in variants:
                        if flat and m == 0 and variant:
                            continue
                        words = reencode_words(xa, m, variant, flat)
                        for op in ops:
                            if op != "construct" and not words:
                                continue            # (add_fields / replace on tables without rows: the programs section)
                            key = (src, dst, tuple(words), flat, op)
                            if key not in seen:
                                seen.add(key)
                                yield {"section": "reencode", "src": src, "dst": dst, "words": words, "flat": flat, "op": op}


def run_reencode(col, quick):
    import bionumpy  # noqa
    for name, alphabet in ENCODINGS.items():
        c = {"section": "reencode-table", "name": name}
        col.case({"k": "reencode-table", "name": name}, contract="encoding-table")
        ok = col.guarded(lambda: "".join(encoding_of(name).get_labels()) == alphabet, "reencode:alphabet-table", c)
        if not col.check(bool(ok), "reencode:alphabet-table-differs:%s" % name, c, "the alphabet of %s is not %r" % (name, alphabet)):
            return {}
    outcome = {"built": 0, "refused": 0}
    for c in reencode_cases(quick):
        if col.out_of_time():
            break
        r = col.guarded(lambda: reencode_case(col, c), "reencode:crash", c)
        if r in outcome:
            outcome[r] += 1
    return outcome


# ------------------------------------------------------------------------------------------------------------------
# driver

def kind_schemas():
    out = []
    for k in ["int", "float", "bool", "optint", "str", "sid", "li", "strand", "dna", "union", "lf", "lb", "qual",
              "cigop", "ciglen", "bam", "ls"]:
        out.append(Sch("K_" + k, [["k", "int"], ["v", k]], None, True))
    out.append(Sch("K_nested", [["k", "int"], ["v", {"nested": INNER}]], None, True))
    return out


def other_schemas():
    return [Sch("Wide", WIDE), Sch("Nested2", [["k", "int"], ["v", {"nested": INNER2}]]),
            Sch("Single_str", [["v", "str"]]), Sch("Single_int", [["v", "int"]], None, True)]


def datatype_schemas():
    return [Sch(name, fields, datatype=name) for name, fields in DATATYPES.items()]


def run(tier="quick", seed=0):
    quick = tier == "quick"
    col = Collector(PID, tier, seed,
                    "exhaustive: schema (one per column kind, wide, nested, every bionumpy.datatypes class) x n=0..3 rows x "
                    "every sequence of table operations up to the stated depth, each followed by all observation channels; "
                    "a node is expanded once per (schema, operation kinds+parameter classes on the path, resulting rows); "
                    "distinct = distinct (schema, base size, program, channel); non-trivial = every case")
    _FORM_MEMO.clear()
    col.bounds = {
        "rows": "base tables 0..3 rows, operands of concatenate 0..2 rows; concatenate is cut above 6 rows",
        "parameter levels": "full = every mask (2^n), every slice result incl. negative / strided / out-of-range bounds, "
                            "every index array of length <= 2 + reversal + repeats + negatives (array and list), concatenate "
                            "self / left / right / both sides / empty operand / empty slice, sort_by every sortable column, "
                            "replace every column (list, container, alternative container, two at once), add_fields typed / "
                            "inferred, 4 round trips; rep = one parameter per class (~28 operations); mini = one per operation (~10)",
        "primary kind schemas [k:int, v:kind] (int float bool Optional[int] str SequenceID List[int] strand DNA nested)":
            "int str SequenceID List[int] strand nested: n=3 and n=0: full x mini, n=1,2: full (depth 1); the others as the secondary kinds" if quick else "n=0..3: full x full; n=3, kinds int str SequenceID List[int] strand nested: rep x mini x rep (depth 3)",
        "secondary kind schemas (Union[..,str] List[float] List[bool] quality cigar-op cigar-length BAM-sequence List[str])":
            "n in {1,3}: rep (depth 1), n=0: rep x mini" if quick else "n=0..3: full x rep",
        "wide (10 kinds) / nested-in-nested / single-column": "n=3: rep x mini (singles: rep), n=0,1: rep" if quick else "n=3: full x rep, n=0..2: rep x mini",
        "bionumpy.datatypes (27 classes; 3 genotype-row classes not modelled)":
            "n=3: rep for 11 classes covering every kind combination, mini for the others; n=0: mini (depth 1)" if quick else "n=3: rep x mini, n=0..2: rep",
        "sampled": "%d random programs of 3 operations (full parameters) per kind / wide / nested schema, n=3, seeded" % (15 if quick else 200),
        "construct": "every schema x n=0..3 x input forms python lists / keyword arguments / library containers / alternative "
                     "containers (tuple, numpy U/S arrays, base-encoded text, list of arrays) / cls.empty(); 12 ill-typed inputs x n in {1,3}; "
                     "one column shorter / longer by 1 in constructor, replace, add_fields",
        "input forms (2-D ndarray of width w for List[int] / List[float] / List[bool] / quality / cigar-length columns; tuple of "
        "tuples for the List kinds; pandas Series for numeric, text, identifier, encoded and List kinds)":
            "construct: every schema with such a column x n=0..3 (x w=0..2); programs with the base table and form operands "
            "(concatenate same / other width w+1, w-1, replace, add_fields in that form; ordinary operands are ragged): " +
            ("ndarray2d: List[int] n in {1,3} w=2 rep, n=2 w=1 rep x mini, List[float]/List[bool] n=3 w=2 rep, Bed12 GfaPath "
             "nested-in-nested n=3 mini; tuple: List[int] List[bool] n=3 rep; Series: int str List[int] strand n=3 rep" if quick else
             "ndarray2d: List[int] n=0..3 w in {1,2} rep x mini, List[float]/List[bool] n in {1,3} w=2 rep x mini and n in {0,2} w=1 rep, "
             "Bed12 GfaPath wide nested-in-nested n in {1,3} rep, GfaPath n=3 w=1 rep x mini; tuple: List kinds n=1..3 rep, "
             "List[int] n=3 rep x mini; Series: every kind with the form and the wide table n in {1,3} rep, int str List[int] n=3 rep x mini"),
        "code dtypes (text / Union / DNA / cigar-op / BAM-sequence / strand columns, and a str column of one character per row "
        "in a flat EncodedArray [K_char], handed over as EncodedRaggedArray / EncodedArray made from integer character codes of "
        "type " + ", ".join(CODE_FORMS.values()) + "; uint8 is the ordinary form)":
            "construct: the kind schemas and K_char x every code type, every other schema with such a column x " +
            ("int64 int32 uint16" if quick else "every code type") + ", n=0..3; programs with the base table and form operands "
            "(concatenate with tables of that code type and with ordinary uint8 ones, replace, add_fields): " +
            ("K_char uint8 n in {0,3} rep; int64: str DNA strand K_char n in {0,3} rep, Union SequenceEntry VCFEntry n=3 mini; "
             "int32: str K_char n=2 rep; uint16: str Union K_char n=1 mini" if quick else
             "K_char uint8 n=0..3 rep x mini; int64: str Union strand K_char n=0..3 rep x mini, DNA cigar-op BAM-sequence wide "
             "SequenceEntry SequenceEntryWithQuality VCFEntry SAMEntry BamEntry Bed6 GTFEntry n in {1,3} rep; every other code type: "
             "the 7 kinds n=3 rep, str K_char n in {0,1} rep; int32 uint16: str K_char n=2 rep x mini") +
            "; tables rebuilt from rows of K_char (ragged text) are observed, not operated on further",
        "tables with a context (set_context, as attached by the file readers)": "K_str and Interval, n in {0,1,3}: rep (depth 1)",
        "histories": "in every program above and below: after each operation every earlier table of the program is read back; "
                     "column assignment (container of the declared type; on an unread table and on one converted to rows before) "
                     "is an operation at the levels full and rep (tables built in memory: last column, after a read only as first "
                     "operation; file-backed: first and last / every column); level hist = replace / assign of "
                     "the first and last column, assign after a read, one mask / slice / index array / concatenation / sort",
        "file-backed tables (bnp.open(path).read(); formats " + ", ".join(FILE_SPECS) + "; rows limited to values the text "
        "formats hold: non-empty names, integers >= 0, short decimals; operands of concatenate are read from files too)":
            ("bed n=3: rep; bed, fastq n=3 and bed n=1: hist x hist; bed6 bedgraph chrom.sizes narrowPeak pairs n=3: hist" if quick else
             "bed fastq chrom.sizes n=3: rep x mini; bed6 bedgraph narrowPeak pairs n=3: rep; bed n=3: hist x hist x hist; "
             "fastq bed6 bedgraph n=3 and bed fastq chrom.sizes bedgraph n in {1,2}: hist x hist; bed6 narrowPeak pairs n in {1,2}: hist"),
        "re-encode": "source x declared alphabet: every ordered pair of %d alphabets (%s) x largest letter present %s x "
                     "rows (1 row; 3 rows with an empty one; 3 rows) x ragged / one letter per row x constructor, bnp.replace, "
                     "add_fields (typed)%s" % (len(ENCODINGS), ", ".join(ENCODINGS),
                                              "none, the letter before / at / behind the first difference, the last letter" if quick else "none .. last letter",
                                              "; all of that where the largest letter is next to the first difference (quick: at it; before it "
                                              "one row set), else one row set with the constructor"),
        "observation": "after every operation: column containers (class invariant len(column)=len(table)), operands re-read; per node "
                       "t[i] for every i in [-n,n), iteration, tolist/toiter, todict, topandas - each on a table nobody has read before"}
    # 1 datatypes table
    for name in ["*"] + list(DATATYPES):
        c = {"section": "datatypes", "datatype": name}
        col.guarded(lambda: datatypes_case(col, c), "datatypes:crash", c)
    # 2 construction
    schemas = kind_schemas() + other_schemas()
    for sch in schemas + datatype_schemas():
        for n in range(4):
            for form in ("list", "native", "alt"):
                for kw in ((False, True) if form == "list" else (False,)):
                    c = {"section": "construct", "schema": sch.desc, "rows": make_rows(sch, n), "form": form, "keywords": kw}
                    col.guarded(lambda: construct_case(col, c), "construct:crash", c)
        c = {"section": "construct", "schema": sch.desc, "rows": [], "form": "empty()"}
        col.guarded(lambda: construct_case(col, c), "construct:crash", c)
    for kind, bad, _ in bad_inputs():
        for n in (1, 3):
            c = {"section": "illtyped", "kind": kind, "bad": bad, "n": n}
            col.guarded(lambda: illtyped_case(col, c), "illtyped:crash", c)
    for sch in kind_schemas() + [Sch("Wide", WIDE)]:
        for n in (0, 1, 3):
            for short in sorted({sch.fields[0].name, sch.fields[-1].name}):
                for delta in (-1, 1):
                    if n + delta < 0:
                        continue
                    for op in ("construct", "replace", "add"):
                        c = {"section": "unequal", "schema": sch.desc, "n": n, "short": short, "delta": delta, "op": op}
                        col.guarded(lambda: unequal_case(col, c), "unequal:crash", c)
    # 2b construction from the further input forms (every schema that has a column of a kind with that form; code types:
    #    the kind schemas with every code type, the other schemas with the code types of the tier)
    code_forms = ["codes-int64", "codes-int32", "codes-uint16"] if quick else list(CODE_FORMS)
    for sch in schemas + datatype_schemas():
        for form in FORM_KINDS:
            if not any(has_form(f, form) for f in sch.fields):
                continue
            if form in CODE_FORMS and form not in code_forms and not sch.name.startswith("K_"):
                continue
            for n in range(4) if form in RECT_FORMS or form in CODE_FORMS else range(1, 4):
                for w in (0, 1, 2) if form in RECT_FORMS else (None,):
                    c = {"section": "construct", "schema": sch.desc, "rows": make_rows(sch, n, width=w), "form": form,
                         "keywords": False, "width": w}
                    col.guarded(lambda: construct_case(col, c), "construct:crash", c)
    # 2b' one character per row in a flat EncodedArray, every code type
    char_sch = Sch("K_char", [["k", "int"], ["v", "char"]], None, True)
    for form in ["native"] + list(CODE_FORMS):
        for n in range(4):
            c = {"section": "construct", "schema": char_sch.desc, "rows": make_rows(char_sch, n), "form": form,
                 "keywords": False, "width": None}
            col.guarded(lambda: construct_case(col, c), "construct:crash", c)
    # 2c columns that are already encoded in another alphabet
    outcome = run_reencode(col, quick)
    col.bounds["re-encode"] += "; accepted %s, refused %s" % (outcome.get("built"), outcome.get("refused"))
    # 3 programs
    import time
    trace = os.environ.get("C19_TRACE")
    if trace:
        print("  [before programs] %d evaluations %.1fs" % (col.evaluations, time.time() - col.t0))

    def section(label, fn):
        t0, e0 = time.time(), col.evaluations
        fn()
        if trace:
            print("  [%s] %d evaluations %.1fs" % (label, col.evaluations - e0, time.time() - t0))
    primary = {"K_int", "K_float", "K_bool", "K_optint", "K_str", "K_sid", "K_li", "K_strand", "K_dna", "K_nested"}
    for sch in kind_schemas():
        if not quick:
            plan = [([0, 1, 2, 3], ("full", "full"))] if sch.name in primary else [([0, 1, 2, 3], ("full", "rep"))]
        elif sch.name in ("K_int", "K_str", "K_sid", "K_li", "K_strand", "K_nested"):
            plan = [([3, 0], ("full", "mini")), ([1, 2], ("full",))]
        else:
            plan = [([1, 3], ("rep",)), ([0], ("rep", "mini"))]
        for ns, levels in plan:
            section("%s %r %r" % (sch.name, ns, levels), lambda: run_programs(col, sch, ns, levels))
    for sch in other_schemas():
        if quick:
            deep = sch.name in ("Wide", "Nested2")
            section(sch.name, lambda: (run_programs(col, sch, [3], ("rep", "mini") if deep else ("rep",)),
                                       run_programs(col, sch, [0, 1], ("rep",))))
        else:
            section(sch.name, lambda: (run_programs(col, sch, [3], ("full", "rep")),
                                       run_programs(col, sch, [0, 1, 2], ("rep", "mini"))))
    for sch in datatype_schemas():
        if quick:
            lvl = "rep" if sch.name in ("Interval", "BedGraph", "Bed6", "Bed12", "SequenceEntryWithQuality", "VCFEntry",
                                        "VCFEntryWithGenotypes", "BamEntry", "GfaPath", "PairsEntry", "GTFEntry") else "mini"
            section(sch.name, lambda: (run_programs(col, sch, [3], (lvl,)), run_programs(col, sch, [0], ("mini",))))
        else:
            section(sch.name, lambda: (run_programs(col, sch, [3], ("rep", "mini")),
                                       run_programs(col, sch, [0, 1, 2], ("rep",))))
    if not quick:
        for sch in kind_schemas():
            if sch.name in ("K_int", "K_str", "K_sid", "K_li", "K_strand", "K_nested"):
                section(sch.name + " d3", lambda: run_programs(col, sch, [3], ("rep", "mini", "rep")))
    # programs on tables handed over in the further input forms; with the operations that take such tables / columns
    by_name = {sch.name: sch for sch in kind_schemas() + other_schemas() + datatype_schemas() + [char_sch]}
    section("K_char uint8", lambda: run_programs(col, char_sch, [3, 0] if quick else [0, 1, 2, 3], ("rep",) if quick else ("rep", "mini")))
    if quick:
        fplan = [("ndarray2d", ["K_li"], [3, 1], [2], ("rep",)),
                 ("ndarray2d", ["K_lf", "K_lb"], [3], [2], ("rep",)),
                 ("ndarray2d", ["K_li"], [2], [1], ("rep", "mini")),
                 ("ndarray2d", ["Bed12", "GfaPath", "Nested2"], [3], [2], ("mini",)),
                 ("tuple", ["K_li", "K_lb"], [3], [None], ("rep",)),
                 ("series", ["K_int", "K_str", "K_li", "K_strand"], [3], [None], ("rep",))]
    else:
        fplan = [("ndarray2d", ["K_li"], [0, 1, 2, 3], [1, 2], ("rep", "mini")),
                 ("ndarray2d", ["K_lf", "K_lb"], [1, 3], [2], ("rep", "mini")),
                 ("ndarray2d", ["K_lf", "K_lb"], [0, 2], [1], ("rep",)),
                 ("ndarray2d", ["Bed12", "GfaPath", "Wide", "Nested2"], [1, 3], [2], ("rep",)),
                 ("ndarray2d", ["GfaPath"], [3], [1], ("rep", "mini")),
                 ("tuple", ["K_li", "K_lf", "K_lb"], [1, 2, 3], [None], ("rep",)),
                 ("tuple", ["K_li"], [3], [None], ("rep", "mini")),
                 ("series", ["K_" + k for k in ("int", "float", "bool", "optint", "str", "union", "sid", "li", "lf", "lb",
                                                "strand", "dna", "cigop", "bam", "nested")] + ["Wide"], [1, 3], [None], ("rep",)),
                 ("series", ["K_int", "K_str", "K_li"], [3], [None], ("rep", "mini"))]
    # ... made from character codes of another integer type than uint8
    code_kinds = ["K_str", "K_union", "K_dna", "K_strand", "K_cigop", "K_bam", "K_char"]
    if quick:
        fplan += [("codes-int64", ["K_str", "K_dna", "K_strand", "K_char"], [3, 0], [None], ("rep",)),
                  ("codes-int64", ["K_union", "SequenceEntry", "VCFEntry"], [3], [None], ("mini",)),
                  ("codes-int32", ["K_str", "K_char"], [2], [None], ("rep",)),
                  ("codes-uint16", ["K_str", "K_union", "K_char"], [1], [None], ("mini",))]
    else:
        fplan += [("codes-int64", ["K_str", "K_union", "K_strand", "K_char"], [0, 1, 2, 3], [None], ("rep", "mini")),
                  ("codes-int64", ["K_dna", "K_cigop", "K_bam"], [1, 3], [None], ("rep",)),
                  ("codes-int64", ["Wide", "SequenceEntry", "SequenceEntryWithQuality", "VCFEntry", "SAMEntry", "BamEntry",
                                   "Bed6", "GTFEntry"], [1, 3], [None], ("rep",))]
        for f in CODE_FORMS:
            if f != "codes-int64":
                fplan += [(f, code_kinds, [3], [None], ("rep",)), (f, ["K_str", "K_char"], [0, 1], [None], ("rep",))]
        fplan += [("codes-int32", ["K_str", "K_char"], [2], [None], ("rep", "mini")),
                  ("codes-uint16", ["K_str", "K_char"], [2], [None], ("rep", "mini"))]
    for form, names, ns, widths, levels in fplan:
        for nm in names:
            for w in widths:
                section("%s %s w=%r %r %r" % (nm, form, w, ns, levels),
                        lambda: run_programs(col, by_name[nm], ns, levels, form=form, width=w))
    for sch in [Sch("K_str", [["k", "int"], ["v", "str"]], None, True), Sch("Interval", DATATYPES["Interval"], datatype="Interval")]:
        section(sch.name + " with context", lambda: run_programs(col, sch, [0, 1, 3], ("rep",), context=True))
    # programs on tables read from files
    if quick:
        splan = [(["bed"], [3], ("rep",)), (["bed", "fastq"], [3], ("hist", "hist")), (["bed"], [1], ("hist", "hist")),
                 (["bed6", "bedgraph", "sizes", "narrowPeak", "pairs"], [3], ("hist",))]
    else:
        splan = [(["bed", "fastq", "sizes"], [3], ("rep", "mini")), (["bed6", "bedgraph", "narrowPeak", "pairs"], [3], ("rep",)),
                 (["bed"], [3], ("hist", "hist", "hist")), (["fastq", "bed6", "bedgraph"], [3], ("hist", "hist")),
                 (["bed", "fastq", "sizes", "bedgraph"], [1, 2], ("hist", "hist")), (["bed6", "narrowPeak", "pairs"], [1, 2], ("hist",))]
    try:
        for sources, ns, levels in splan:
            for src in sources:
                section("%s file-backed %r %r" % (src, ns, levels),
                        lambda: run_programs(col, by_name[FILE_SPECS[src][0]], ns, levels, source=src))
    finally:
        drop_scratch()
    for sch in kind_schemas() + other_schemas():
        section(sch.name + " sampled", lambda: sample_programs(col, sch, 3, 3, 15 if quick else 200))
    return col.result()


def run_program_case(col, case):
    """one recorded case of the programs section (replay; canonical re-run of FormCol)"""
    sch = Sch.from_desc(case["schema"])
    rows = case["rows"]
    ctx = Ctx(col, sch, rows, case.get("context", False), None if _CANONICAL[0] else case.get("form"), case.get("width"),
              None if _CANONICAL[0] else case.get("source"), case.get("source"))
    lenient, filed = _LENIENT[0], _FILE[0]
    _LENIENT[0] = bool(case.get("form"))
    _FILE[0] = bool(case.get("source"))
    try:
        ok, t = run_guarded(ctx, "construct", ctx.case([]), lambda: ctx.make(sch, rows, ctx.base_form()))
        if ok:
            ok, got = run_guarded(ctx, "construct:result", ctx.case([]), lambda: extract(t, sch))
            if ok and compare(ctx, "construct", "", sch, got, rows, ctx.case([])):
                node = Node([], rows, sch, [])
                for op in case["program"]:
                    node = apply_op(ctx, node, op)
                    if node is None:
                        break
                if node is not None:
                    for name in ([case["final"]] if case.get("final") else TERMINALS):
                        terminal(ctx, node, name)
    finally:
        _LENIENT[0], _FILE[0] = lenient, filed


def replay(case):
    col = Collector(PID, "quick", 0, "replay")
    sec = case.get("section")
    if sec == "datatypes":
        datatypes_case(col, case)
    elif sec == "construct":
        construct_case(col, case)
    elif sec == "illtyped":
        illtyped_case(col, case)
    elif sec == "unequal":
        unequal_case(col, case)
    elif sec == "reencode":
        reencode_case(col, case)
    elif sec == "reencode-table":
        col.check("".join(encoding_of(case["name"]).get_labels()) == ENCODINGS[case["name"]],
                  "reencode:alphabet-table-differs:%s" % case["name"], case, "alphabet differs")
    else:
        try:
            run_program_case(col, case)
        finally:
            drop_scratch()
    if col.failures:
        return False, "; ".join(f["signature"] + ": " + f["message"] for f in col.failures)
    return True, "ok"
