"""C08 bounded stand-in: interval-set operations vs their per-base definitions.

Oracle: plain Python lists of per-base coverage (cov[x] = number of intervals [a,b) with a <= x < b), written from
the property statement; none of the functions under test is used to compute an expected value.

Contracts evaluated at run time on the real bionumpy functions (one `op` per contract, see CHECKS):
  pileup / bg_pileup   get_pileup(I,S) (arithmetics.intervals and arithmetics.bedgraph) == cov
  mask                 get_boolean_mask(I,S) == (cov > 0)
  merge                merge_intervals(sorted I, d) == maximal runs of the union, runs with gap <= d bridged
  sort                 sort_intervals (default key / sort_order / key function / StringEncoding column; Interval and
                       Bed6): result is a permutation of the rows, ordered by (chromosome rank, start, stop)
  count_overlap        == number of bases covered by both sets          (each set internally non-overlapping)
  intersect            pileup of the result == [covA>0 and covB>0]      (each set internally non-overlapping)
  global_intersect     same, per chromosome, StringEncoding chromosome column
  unique_intersect     == the entries of A that share a base with B
  similarity           jaccard / forbes (MultiStream over 1..2 chromosomes) and Geometry.jaccard == a/(a+b+c),
                       a*N/((a+b)(a+c)) from the per-base contingency counts (skipped where the value is undefined)
  clip                 arithmetics.intervals.clip (scalar and per-row sizes): 0 <= start' <= stop' <= size, and the
                       covered bases are the original bases inside [0,size)
  extend               extend_to_size: inside the contig, + keeps start, - keeps stop, length == min(L, room)
  geom_pileup/geom_mask/geom_clip/geom_extend   the Geometry methods over a 2-contig genome
  sort_history         SEVERAL sort_intervals calls in one process, each with its own way of ordering the SAME chromosome
                       names (sort_order lists, default string order, key functions returning str / int / tuple, bionumpy's
                       human_key_func, StringEncoding column): every call is ordered by ITS OWN chromosome ranking
The two-set operations (count_overlap, intersect, global_intersect, unique_intersect, Geometry.jaccard; not
arithmetics.jaccard / forbes, whose interval arguments are documented as "Must be sorted") are also evaluated
on sets that are NOT listed in ascending start order (case key "listing": every permutation of the enumerated sets, for
both operands); the per-base definitions do not depend on the listing order, so the oracle is the same.
Every contract also checks that the input Interval object is left unchanged by the call.
  merge_grouped / count_overlap_grouped   the PER-CHROMOSOME entry point of the two functions that bionumpy wraps in
                       chromosome_map: merge_intervals(groupby(I, "chromosome"), d) over genomes of 1..4 contigs must yield,
                       for every chromosome of I in its order of appearance, the maximal runs of THAT chromosome's union bridged
                       by d; count_overlap(groupby(A, "chromosome"), {chromosome: B on it}) must be the number of common bases
                       over all chromosomes.  Every way of passing the arguments is a case of its own (stream and the other
                       arguments positionally, by keyword, mixed, distance left out), chromosome column as strings and as a
                       StringEncoding column.
"""
import itertools
from fractions import Fraction

from .common import Collector

CHR = "chr1"
LISTING_TAG = ":unsorted-listing"     # suffix of the signatures of the cases whose sets are not listed in ascending order


# ----------------------------------------------------------------------------------------------------------------
# reference model (per-base lists)
# ----------------------------------------------------------------------------------------------------------------
def cov(ivs, S):
    c = [0] * S
    for a, b in ivs:
        for x in range(max(a, 0), min(b, S)):
            c[x] += 1
    return c


def runs(mask):
    out, s = [], None
    for i, m in enumerate(list(mask) + [False]):
        if m and s is None:
            s = i
        if not m and s is not None:
            out.append((s, i))
            s = None
    return out


def ref_merge(ivs, S, d):
    out = []
    for a, b in runs([c > 0 for c in cov(ivs, S)]):
        if out and a - out[-1][1] <= d:
            out[-1] = (out[-1][0], b)
        else:
            out.append((a, b))
    return out


def disjoint(ivs, S):
    return max(cov(ivs, S) + [0]) <= 1


def intervals_of(S, empty=False):
    return [(a, b) for a in range(S + 1) for b in range(a if empty else a + 1, S + 1)]


def has_empty(*sets):
    return any(a == b for s in sets for a, b in s)


# ----------------------------------------------------------------------------------------------------------------
# construction / observation of bionumpy values
# ----------------------------------------------------------------------------------------------------------------
def mk(ivs, chrom=CHR):
    import numpy as np
    from bionumpy.datatypes import Interval
    return Interval([chrom] * len(ivs), np.array([a for a, b in ivs], dtype=int), np.array([b for a, b in ivs], dtype=int))


def mk_rows(rows, dtype="Interval"):
    """rows: [chrom, start, stop] (+ [strand] for Bed6)"""
    import numpy as np
    from bionumpy.datatypes import Interval, Bed6
    starts = np.array([r[1] for r in rows], dtype=int)
    stops = np.array([r[2] for r in rows], dtype=int)
    chroms = [r[0] for r in rows]
    if dtype == "Interval":
        return Interval(chroms, starts, stops)
    strands = [r[3] if len(r) > 3 else "+-"[i % 2] for i, r in enumerate(rows)]
    return Bed6(chroms, starts, stops, ["r%d" % i for i in range(len(rows))], ["%d" % (i % 10) for i in range(len(rows))], strands)


def string_encode(I, names):
    import bionumpy as bnp
    from bionumpy.encodings.string_encodings import StringEncoding
    if len(I) == 0:
        return None
    return bnp.replace(I, chromosome=StringEncoding(list(names)).encode(I.chromosome))


def pairs_of(I):
    return list(zip((int(x) for x in I.start.tolist()), (int(x) for x in I.stop.tolist())))


def chrom_names(I, names=None):
    c = I.chromosome
    if names is not None and hasattr(c, "raw"):
        import numpy as np
        return [names[int(i)] for i in np.asarray(c.raw()).ravel().tolist()]
    return [str(x) for x in c.tolist()]


def snapshot(I, names=None):
    if I is None or len(I) == 0:
        return (0,)
    return (chrom_names(I, names), pairs_of(I))


def unchanged(col, op, case, before, *objs):
    after = [snapshot(o) if not isinstance(o, tuple) else snapshot(*o) for o in objs]
    col.check(before == after, op + ":input-mutated", case, "inputs before %r after %r" % (before, after))


def dense(x):
    import numpy as np
    if hasattr(x, "to_array"):
        return x.to_array().tolist()
    return np.asarray(x).tolist()


# ----------------------------------------------------------------------------------------------------------------
# contracts
# ----------------------------------------------------------------------------------------------------------------
def chk_coverage(col, case):
    """ops pileup, bg_pileup, mask. case: S, ivs"""
    op, S, ivs = case["op"], case["S"], [tuple(x) for x in case["ivs"]]
    tag = ":with-empty-interval" if has_empty(ivs) else ""
    col.case(case, nontrivial=len(ivs) > 0, contract=op)
    I = mk(ivs)
    before = [snapshot(I)]
    if op == "pileup":
        from bionumpy.arithmetics import get_pileup
        got = col.guarded(lambda: [int(v) for v in dense(get_pileup(I, S))], "pileup" + tag, case)
        exp = cov(ivs, S)
    elif op == "bg_pileup":
        from bionumpy.arithmetics.bedgraph import get_pileup as bg_get_pileup
        got = col.guarded(lambda: [int(v) for v in dense(bg_get_pileup(I, S))], "bg_pileup" + tag, case)
        exp = cov(ivs, S)
    else:
        from bionumpy.arithmetics import get_boolean_mask
        got = col.guarded(lambda: [bool(v) for v in dense(get_boolean_mask(I, S))], "mask" + tag, case)
        exp = [c > 0 for c in cov(ivs, S)]
    if got is None:
        return
    col.check(got == exp, "%s:not-per-base-coverage%s" % (op, tag), case, "got %r expected %r" % (got, exp))
    unchanged(col, op, case, before, I)


def chk_merge(col, case):
    """case: S, ivs (sorted by start, non-empty intervals), d"""
    from bionumpy.arithmetics import merge_intervals
    S, ivs, d = case["S"], [tuple(x) for x in case["ivs"]], case["d"]
    dt = "distance=0" if d == 0 else "distance>0"
    col.case(case, nontrivial=len(ivs) > 0, contract="merge")
    I = mk(ivs)
    before = [snapshot(I)]
    res = col.guarded(lambda: merge_intervals(I, d) if d else merge_intervals(I), "merge:" + dt, case)
    if res is None:
        return
    got, exp = pairs_of(res), ref_merge(ivs, S, d)
    col.check(got == exp, "merge:not-maximal-runs-of-union:" + dt, case, "got %r expected %r" % (got, exp))
    if len(res):
        col.check(set(chrom_names(res)) == {CHR}, "merge:chromosome-changed", case, "chromosome %r" % (chrom_names(res),))
    unchanged(col, "merge", case, before, I)


def natkey(name):
    return (len(name), name)


SORT_ORDER = ["chr2", "chr10", "chr1"]
ENC_ORDER = ["chr10", "chr1", "chr2"]


def chk_sort(col, case):
    """case: rows [[chrom,a,b],...], variant in default|sort_order|key_function|string_encoded, dtype Interval|Bed6"""
    from bionumpy.arithmetics import sort_intervals
    rows, variant, dtype = [tuple(r) for r in case["rows"]], case["variant"], case.get("dtype", "Interval")
    if variant == "string_encoded" and not rows:
        return          # an empty column cannot be re-encoded; nothing to evaluate
    col.case(case, nontrivial=len(rows) > 1, contract="sort")
    I = mk_rows(rows, dtype)
    names = None
    if variant == "default":
        rank = lambda c: c
        call = lambda: sort_intervals(I)
    elif variant == "sort_order":
        rank = SORT_ORDER.index
        call = lambda: sort_intervals(I, sort_order=list(SORT_ORDER))
    elif variant == "key_function":
        rank = natkey
        call = lambda: sort_intervals(I, chromosome_key_function=natkey)
    else:
        names = ENC_ORDER
        I = string_encode(I, names)
        if I is None:
            return
        rank = ENC_ORDER.index
        call = lambda: sort_intervals(I)
    vt = variant
    before = [snapshot(I, names)]
    res = col.guarded(call, "sort:" + vt, case)
    if res is None:
        return

    def full(J):
        base = list(zip(chrom_names(J, names), *zip(*pairs_of(J)))) if len(J) else []
        if dtype == "Bed6" and len(J):
            nm = [str(x) for x in J.name.tolist()]
            st = list(J.strand.to_string()) if hasattr(J.strand, "to_string") else [str(x) for x in J.strand.tolist()]
            st = [s for s in st if s in "+-."]
            base = [b + (n, s) for b, n, s in zip(base, nm, st)]
        return base

    inp, out = full(I), full(res)
    if not col.check(sorted(inp) == sorted(out), "sort:not-a-permutation:" + vt, case, "in %r out %r" % (inp, out)):
        return
    keys = [(rank(r[0]), r[1], r[2]) for r in out]
    for k1, k2 in zip(keys, keys[1:]):
        if k1[0] > k2[0]:
            col.fail("sort:chromosome-order:" + vt, case, "out %r" % (out,))
        elif k1[0] == k2[0] and k1[1] > k2[1]:
            col.fail("sort:start-order:" + vt, case, "out %r" % (out,))
        elif k1[:2] == k2[:2] and k1[2] > k2[2]:
            col.fail("sort:stop-order:" + vt, case, "equal (chromosome,start) but stops decrease: out %r" % (out,))
    unchanged(col, "sort", case, before, (I, names))


# -- chromosome orderings used by the histories of sort calls.  A key function is an INPUT of sort_intervals (the caller's
#    own function), so the oracle ranks chromosomes with the same function; bionumpy's human_key_func is library code, so it
#    gets a reference of its own (numbered chromosomes first, by number; then the others, by name).
def _digits(name):
    d = "".join(ch for ch in name if ch.isdigit())
    return int(d) if d else 99


KEY_FUNCTIONS = {
    "natural": natkey,                                   # tuple (int, str)
    "neglen": lambda name: (-len(name), name),           # tuple (int, str), longest name first
    "reversed": lambda name: name[::-1],                 # str, like the default key but another order
    "number": _digits,                                   # int
    "constant": lambda name: 0,                          # every chromosome ranks equal: plain (start, stop) order
}


def ref_human_key(name):
    rest = name[3:]
    return (0, int(rest), "") if rest.isdigit() else (1, rest, "")


def ordering_label(o):
    return o["kind"] + (":" + o["key"] if o["kind"] == "key_function" else "")


def same_ranking(o1, o2, names):
    """do two orderings rank the given chromosome names identically (same sequence of names, same ties)?"""
    def shape(o):
        r = {n: _ordering(o)[0](n) for n in names}
        return [[r[x] < r[y], r[x] == r[y]] for x in names for y in names]
    return shape(o1) == shape(o2)


def _ordering(o):
    """-> (rank function of the oracle, keyword arguments of the call, names of the StringEncoding or None)"""
    kind = o["kind"]
    if kind == "default":
        return (lambda c: c), {}, None
    if kind == "sort_order":
        order = list(o["order"])
        return order.index, {"sort_order": list(order)}, None
    if kind == "string_encoded":
        order = list(o["order"])
        return order.index, {}, order
    if o["key"] == "human":
        from bionumpy.arithmetics.intervals import human_key_func
        return ref_human_key, {"chromosome_key_function": human_key_func}, None
    f = KEY_FUNCTIONS[o["key"]]
    return f, {"chromosome_key_function": f}, None


def chk_sort_history(col, case):
    """case: steps [{"rows": [[chrom,a,b],...], "ordering": {...}}, ...]: the sort_intervals calls are made one after the
    other in this process; EVERY call must return a permutation of its rows ordered by (its own chromosome rank, start, stop),
    whatever orderings the earlier calls asked for"""
    from bionumpy.arithmetics import sort_intervals
    steps = case["steps"]
    col.case(case, nontrivial=len(steps) > 1 and any(len(s["rows"]) > 1 for s in steps), contract="sort_history")
    earlier = []
    for i, step in enumerate(steps):
        rows, o = [tuple(r) for r in step["rows"]], step["ordering"]
        rank, kwargs, names = _ordering(o)
        lab = ordering_label(o)
        used = sorted({r[0] for r in rows})
        if not earlier:
            when = "first call"
        elif all(same_ranking(o, e, used) for e in earlier):
            when = "after calls with the same chromosome ranking"
        else:
            when = "after a call with another chromosome ranking"
        earlier.append(o)
        I = mk_rows(rows)
        if names is not None:
            if not rows:
                continue
            I = string_encode(I, names)
        before = [snapshot(I, names)]
        res = col.guarded(lambda: sort_intervals(I, **kwargs), "sort_history:" + o["kind"], case)
        if res is None:
            return
        inp = list(zip(chrom_names(I, names), *zip(*pairs_of(I)))) if len(I) else []
        out = list(zip(chrom_names(res, names), *zip(*pairs_of(res)))) if len(res) else []
        what = "call %d of %d (%s, %s): out %r" % (i + 1, len(steps), lab, when, out)
        if not col.check(sorted(inp) == sorted(out), "sort_history:not-a-permutation:" + o["kind"], case, "in %r " % (inp,) + what):
            return
        keys = [(rank(r[0]), r[1], r[2]) for r in out]
        for k1, k2 in zip(keys, keys[1:]):
            if k1[:2] == k2[:2] and k1[2] > k2[2] and names is not None:
                # the lexsort of a StringEncoding column ignores the stops in every call, history or not: that is the
                # finding of the single-call contract and keeps its signature
                col.fail("sort:stop-order:string_encoded", case, "equal (chromosome,start) but stops decrease: " + what)
            elif k1 > k2:
                # one signature per way of giving the ordering: the call is not in (its own chromosome rank, start, stop)
                # order (which of the three is in the message; the single-call contract "sort" tells them apart)
                level = "chromosome" if k1[0] > k2[0] else ("start" if k1[1] > k2[1] else "stop")
                col.fail("sort_history:call-not-in-its-own-order:" + o["kind"], case, level + " order broken: " + what)
        unchanged(col, "sort_history", case, before, (I, names))


def chk_pair(col, case):
    """ops count_overlap, intersect. case: S, A, B (each internally non-overlapping, non-empty intervals; listed in ascending
    order unless the case has "listing": "permuted", then A and B are given in the listing order to use)"""
    op, S = case["op"], case["S"]
    A, B = [tuple(x) for x in case["A"]], [tuple(x) for x in case["B"]]
    lt = LISTING_TAG if case.get("listing") else ""
    col.case(case, nontrivial=bool(A) and bool(B), contract=op + lt.replace(":", "/"))
    IA, IB = mk(A), mk(B)
    before = [snapshot(IA), snapshot(IB)]
    both = [int(x > 0 and y > 0) for x, y in zip(cov(A, S), cov(B, S))]
    if op == "count_overlap":
        from bionumpy.arithmetics import count_overlap
        got = col.guarded(lambda: int(count_overlap(IA, IB)), "count_overlap" + lt, case)
        if got is None:
            return
        col.check(got == sum(both), "count_overlap:not-number-of-common-bases" + lt, case, "got %r expected %r" % (got, sum(both)))
    else:
        from bionumpy.arithmetics import intersect
        res = col.guarded(lambda: intersect(IA, IB), "intersect" + lt, case)
        if res is None:
            return
        got = pairs_of(res)
        ok = all(0 <= a < b <= S for a, b in got)
        col.check(ok and cov(got, S) == both, "intersect:not-common-bases" + lt, case,
                  "got %r, covering %r; expected coverage %r" % (got, cov(got, S) if ok else None, both))
        if len(res):
            col.check(set(chrom_names(res)) == {CHR}, "intersect:chromosome-changed" + lt, case, "%r" % (chrom_names(res),))
    unchanged(col, op + lt, case, before, IA, IB)


def _global_intersect_ok(res, names, sizes, A, B):
    got = list(zip(chrom_names(res, names), *zip(*pairs_of(res)))) if len(res) else []
    ok = True
    for n, S in sizes:
        a = cov([r[1:] for r in A if r[0] == n], S)
        b = cov([r[1:] for r in B if r[0] == n], S)
        g = [r[1:] for r in got if r[0] == n]
        ok = ok and all(0 <= x < y <= S for x, y in g) and cov(g, S) == [int(x > 0 and y > 0) for x, y in zip(a, b)]
    return ok, got


def chk_global_intersect(col, case):
    """case: sizes [[name,S],...], A, B rows [chrom,a,b]; per chromosome internally non-overlapping; sorted by
    (chromosome, start) unless the case has "listing": "permuted" (then any row order, chromosomes may interleave)"""
    from bionumpy.arithmetics import global_intersect
    sizes = [tuple(x) for x in case["sizes"]]
    names = [n for n, _ in sizes]
    A, B = [tuple(r) for r in case["A"]], [tuple(r) for r in case["B"]]
    used = {r[0] for r in A + B}
    scope = "multi-chromosome" if len(used) > 1 else "single-chromosome"
    lt = LISTING_TAG if case.get("listing") else ""
    col.case(case, nontrivial=bool(A) and bool(B), contract="global_intersect" + lt.replace(":", "/"))
    IA, IB = string_encode(mk_rows(A), names), string_encode(mk_rows(B), names)
    if IA is None or IB is None:
        return
    before = [snapshot(IA, names), snapshot(IB, names)]
    res = col.guarded(lambda: global_intersect(IA, IB), "global_intersect:" + scope + lt, case)
    if res is None:
        return
    ok, got = _global_intersect_ok(res, names, sizes, A, B)
    if not ok and lt:
        # Which defect class?  The expected value above is the per-base one in any case.  If the SAME two sets listed in
        # ascending order are wrong as well, the listing order is not what the failure needs and it is reported under the
        # signature of the sorted listing (one defect, one signature); otherwise it is a defect of unsorted listings.
        SA, SB = sorted_rows(A, names), sorted_rows(B, names)
        try:
            res_sorted = global_intersect(string_encode(mk_rows(SA), names), string_encode(mk_rows(SB), names))
            ok_sorted = _global_intersect_ok(res_sorted, names, sizes, SA, SB)[0]
        except Exception:
            ok_sorted = True
        if not ok_sorted:
            lt = ""
    col.check(ok, "global_intersect:not-common-bases:" + scope + lt, case, "got %r" % (got,))
    unchanged(col, "global_intersect", case, before, (IA, names), (IB, names))


def chk_unique_intersect(col, case):
    """case: S, A, B (non-empty intervals, any multiset, in the listing order to use; "listing": "permuted" marks the cases
    that go through every listing order instead of one fixed rotation)"""
    from bionumpy.arithmetics import unique_intersect
    S = case["S"]
    A, B = [tuple(x) for x in case["A"]], [tuple(x) for x in case["B"]]
    lt = ":every-listing-order" if case.get("listing") else ""
    col.case(case, nontrivial=bool(A) and bool(B), contract="unique_intersect" + lt.replace(":", "/"))
    IA, IB = mk(A), mk(B)
    before = [snapshot(IA), snapshot(IB)]
    res = col.guarded(lambda: unique_intersect(IA, IB, S), "unique_intersect" + lt, case)
    if res is None:
        return
    cb = cov(B, S)
    exp = [(a, b) for a, b in A if any(cb[a:b])]
    got = pairs_of(res)
    col.check(sorted(got) == sorted(exp), "unique_intersect:not-the-entries-sharing-a-base" + lt, case, "got %r expected %r" % (got, exp))
    unchanged(col, "unique_intersect" + lt, case, before, IA, IB)


def close(x, frac):
    e = float(frac)
    return abs(float(x) - e) <= 1e-12 * max(1.0, abs(e))


def chk_similarity(col, case):
    """case: sizes [[name,S],...], A, B rows sorted by (chromosome order, start).  With "listing": "permuted" the rows are
    in ANY order (chromosomes may interleave) and only Geometry.jaccard is evaluated: arithmetics.jaccard / forbes document
    their interval arguments as "Must be sorted", Geometry.jaccard states no such precondition"""
    from bionumpy.arithmetics import jaccard, forbes
    from bionumpy.genomic_data.geometry import Geometry
    sizes = [tuple(x) for x in case["sizes"]]
    A, B = [tuple(r) for r in case["A"]], [tuple(r) for r in case["B"]]
    a = b = c = d = 0
    for n, S in sizes:
        ca = cov([r[1:] for r in A if r[0] == n], S)
        cb = cov([r[1:] for r in B if r[0] == n], S)
        for x, y in zip(ca, cb):
            a += (x > 0 and y > 0)
            b += (x > 0 and y == 0)
            c += (x == 0 and y > 0)
            d += (x == 0 and y == 0)
    N = a + b + c + d
    sizes_dict = dict(sizes)
    nchr = "2-contigs" if len(sizes) > 1 else "1-contig"
    es = ":empty-interval-set" if (not A or not B) else ""
    permuted = bool(case.get("listing"))
    if permuted:
        es += LISTING_TAG
    IA, IB = mk_rows(A), mk_rows(B)
    before = [snapshot(IA), snapshot(IB)]
    if a + b + c > 0:
        exp = Fraction(a, a + b + c)
        if not permuted:
            col.case(dict(case, f="jaccard"), nontrivial=bool(A) and bool(B), contract="jaccard")
            got = col.guarded(lambda: float(jaccard(dict(sizes_dict), IA, IB)), "jaccard" + es, case)
            if got is not None:
                col.check(close(got, exp), "jaccard:not-a/(a+b+c):" + nchr + es, case, "got %r expected %s (a,b,c,d=%r)" % (got, exp, (a, b, c, d)))
        col.case(dict(case, f="Geometry.jaccard"), nontrivial=bool(A) and bool(B), contract="Geometry.jaccard")
        got = col.guarded(lambda: float(Geometry(dict(sizes_dict)).jaccard(IA, IB)), "Geometry.jaccard" + es, case)
        if got is not None:
            col.check(close(got, exp), "Geometry.jaccard:not-a/(a+b+c):" + nchr + es, case, "got %r expected %s (a,b,c,d=%r)" % (got, exp, (a, b, c, d)))
    if (a + b) > 0 and (a + c) > 0 and not permuted:
        exp = Fraction(a * N, (a + b) * (a + c))
        col.case(dict(case, f="forbes"), nontrivial=True, contract="forbes")
        got = col.guarded(lambda: float(forbes(dict(sizes_dict), IA, IB)), "forbes", case)
        if got is not None:
            col.check(close(got, exp), "forbes:not-aN/((a+b)(a+c)):" + nchr, case, "got %r expected %s (a,b,c,d=%r)" % (got, exp, (a, b, c, d)))
    unchanged(col, "similarity" + (LISTING_TAG if permuted else ""), case, before, IA, IB)


def _clip_rows(col, op, case, rows, sizes_of_rows, got):
    for (a, b), S, (ga, gb) in zip(rows, sizes_of_rows, got):
        if a > S or b < 0:
            # The interval has no base in common with [0,S) and does not touch it.  The property quantifies over intervals
            # ON a contig; an interval that lies entirely beyond it has no bases to keep, and the statement does not say what
            # clipping should make of it.  An earlier version of this check demanded 0 <= start' <= stop' <= S here, which is
            # more than the statement says (DESIGN.md, "false alarms corrected"), so nothing is claimed for such rows.
            continue
        else:
            col.check(0 <= ga <= gb <= S, op + ":not-inside-contig", case, "[%d,%d) size %d -> [%d,%d)" % (a, b, S, ga, gb))
            col.check((ga, gb) == (max(a, 0), min(b, S)), op + ":not-the-bases-inside-the-contig", case,
                      "[%d,%d) size %d -> [%d,%d) expected [%d,%d)" % (a, b, S, ga, gb, max(a, 0), min(b, S)))


def chk_clip(col, case):
    """case: S, ivs (start <= stop, may stick out on either side), size_kind scalar|array"""
    import numpy as np
    from bionumpy.arithmetics.intervals import clip
    S, ivs, kind = case["S"], [tuple(x) for x in case["ivs"]], case.get("size_kind", "scalar")
    col.case(case, contract="clip")
    I = mk(ivs)
    before = [snapshot(I)]
    sz = S if kind == "scalar" else np.full(len(ivs), S, dtype=int)
    res = col.guarded(lambda: clip(I, sz), "clip:" + kind, case)
    if res is None:
        return
    got = pairs_of(res)
    if col.check(len(got) == len(ivs), "clip:row-count-changed", case, "%r" % (got,)):
        _clip_rows(col, "clip", case, ivs, [S] * len(ivs), got)
    unchanged(col, "clip", case, before, I)


def _extend_rows(col, op, case, rows, sizes_of_rows, L, got):
    for (a, b, strand), S, (ga, gb) in zip(rows, sizes_of_rows, got):
        what = "[%d,%d)%s L=%d size %d -> [%d,%d)" % (a, b, strand, L, S, ga, gb)
        col.check(0 <= ga <= gb <= S, op + ":not-inside-contig:" + strand, case, what)
        if strand == "+":
            col.check(ga == a, op + ":plus-strand-start-moved", case, what)
            col.check(gb - ga == min(L, S - a), op + ":wrong-length:+", case, what + " expected length %d" % min(L, S - a))
        else:
            col.check(gb == b, op + ":minus-strand-stop-moved", case, what)
            col.check(gb - ga == min(L, b), op + ":wrong-length:-", case, what + " expected length %d" % min(L, b))


def chk_extend(col, case):
    """case: S, L, rows [[a,b,strand],...] with 0 <= a <= b <= S, size_kind scalar|array"""
    import numpy as np
    from bionumpy.arithmetics.intervals import extend_to_size
    S, L, kind = case["S"], case["L"], case.get("size_kind", "scalar")
    rows = [tuple(r) for r in case["rows"]]
    col.case(case, contract="extend_to_size")
    I = mk_rows([(CHR,) + r for r in rows], "Bed6")
    before = [snapshot(I)]
    sz = S if kind == "scalar" else np.full(len(rows), S, dtype=int)
    res = col.guarded(lambda: extend_to_size(I, L, sz), "extend_to_size:" + kind, case)
    if res is None:
        return
    got = pairs_of(res)
    if col.check(len(got) == len(rows), "extend_to_size:row-count-changed", case, "%r" % (got,)):
        _extend_rows(col, "extend_to_size", case, rows, [S] * len(rows), L, got)
        st = res.strand.to_string() if hasattr(res.strand, "to_string") else "".join(res.strand.tolist())
        col.check([s for s in st if s in "+-"] == [r[2] for r in rows], "extend_to_size:strand-changed", case, repr(st))
    unchanged(col, "extend_to_size", case, before, I)


def chk_geom(col, case):
    """ops geom_pileup, geom_mask, geom_clip, geom_extend. case: sizes [[name,S],...], rows [[chrom,a,b(,strand)]], L"""
    from bionumpy.genomic_data.geometry import Geometry
    op = case["op"]
    sizes = [tuple(x) for x in case["sizes"]]
    rows = [tuple(r) for r in case["rows"]]
    col.case(case, nontrivial=len(rows) > 0, contract="Geometry." + op[5:])
    g = Geometry(dict(sizes))
    I = mk_rows(rows, "Bed6" if op == "geom_extend" else "Interval")
    before = [snapshot(I)]
    sz = dict(sizes)
    if op in ("geom_pileup", "geom_mask"):
        if op == "geom_pileup":
            res = col.guarded(lambda: {k: [int(x) for x in dense(v)] for k, v in g.get_pileup(I).to_dict().items()}, op, case)
            exp = {n: cov([r[1:3] for r in rows if r[0] == n], S) for n, S in sizes}
        else:
            res = col.guarded(lambda: {k: [bool(x) for x in dense(v)] for k, v in g.get_mask(I).to_dict().items()}, op, case)
            exp = {n: [c > 0 for c in cov([r[1:3] for r in rows if r[0] == n], S)] for n, S in sizes}
        if res is None:
            return
        col.check(res == exp, "Geometry.%s:not-per-base-coverage" % op[5:], case, "got %r expected %r" % (res, exp))
    elif op == "geom_clip":
        res = col.guarded(lambda: g.clip(I), op, case)
        if res is None:
            return
        got = pairs_of(res)
        if col.check(len(got) == len(rows) and chrom_names(res) == [r[0] for r in rows], "Geometry.clip:rows-changed", case, "%r" % (got,)):
            _clip_rows(col, "Geometry.clip", case, [r[1:3] for r in rows], [sz[r[0]] for r in rows], got)
    else:
        L = case["L"]
        res = col.guarded(lambda: g.extend_to_size(I, L), op, case)
        if res is None:
            return
        got = pairs_of(res)
        if col.check(len(got) == len(rows) and chrom_names(res) == [r[0] for r in rows], "Geometry.extend_to_size:rows-changed", case, "%r" % (got,)):
            _extend_rows(col, "Geometry.extend_to_size", case, [r[1:4] for r in rows], [sz[r[0]] for r in rows], L, got)
    unchanged(col, "Geometry." + op[5:], case, before, I)

# -- the per-chromosome entry point (chromosome_map): a grouped stream / a per-chromosome dict instead of one Interval object --
MERGE_CALL_STYLES = ("positional", "distance-by-keyword", "all-by-keyword", "distance-omitted")
OVERLAP_CALL_STYLES = ("positional", "b-by-keyword", "all-by-keyword")
_GROUPED_DICT_CLASS = []


def per_chromosome_dict(mapping):
    """a caller-side mapping chromosome -> data marked with bionumpy.streams.grouped_dict (the 'ChromosomeProvider' that
    chromosome_map looks up per chromosome)"""
    if not _GROUPED_DICT_CLASS:
        from bionumpy.streams import grouped_dict

        @grouped_dict("chromosome")
        class PerChromosome(dict):
            pass
        _GROUPED_DICT_CLASS.append(PerChromosome)
    return _GROUPED_DICT_CLASS[0](mapping)


def group_names(rows):
    out = []
    for r in rows:
        if not out or out[-1] != r[0]:
            out.append(r[0])
    return out


def grouped_rows_ok(rows):
    """precondition of groupby + merge_intervals: at least one row, the rows of a chromosome are adjacent, starts ascend"""
    names = group_names(rows)
    return bool(rows) and len(names) == len(set(names)) and all(x[0] != y[0] or x[1] <= y[1] for x, y in zip(rows, rows[1:]))


def chk_merge_grouped(col, case):
    """case: sizes [[name,S],...], rows [[chrom,a,b],...] (rows of a chromosome adjacent and start-sorted, >= 1 row), d,
    optional encoding (names of a StringEncoding for the chromosome column), optional styles (default: all)"""
    from bionumpy.arithmetics import merge_intervals
    from bionumpy.streams import groupby
    sizes = dict(tuple(x) for x in case["sizes"])
    rows, d = [tuple(r) for r in case["rows"]], case["d"]
    names = list(case["encoding"]) if case.get("encoding") else None
    if not grouped_rows_ok(rows):
        return
    dt = "distance=0" if d == 0 else "distance>0"
    exp = [(n, ref_merge([r[1:] for r in rows if r[0] == n], sizes[n], d)) for n in group_names(rows)]
    for style in case.get("styles") or MERGE_CALL_STYLES:
        if style == "distance-omitted" and d != 0:
            continue
        col.case(dict(case, style=style), nontrivial=True, contract="merge/per-chromosome")
        I = mk_rows(rows)
        if names is not None:
            I = string_encode(I, names)
        before = [snapshot(I, names)]

        def call():
            stream = groupby(I, "chromosome")
            if style == "positional":
                res = merge_intervals(stream, d)
            elif style == "distance-by-keyword":
                res = merge_intervals(stream, distance=d)
            elif style == "all-by-keyword":
                res = merge_intervals(intervals=stream, distance=d)
            else:
                res = merge_intervals(stream)
            return [(str(n), pairs_of(m), chrom_names(m, names) if len(m) else []) for n, m in res]

        got = col.guarded(call, "merge:per-chromosome:%s:%s" % (style, dt), case)
        if got is None:
            continue
        what = "call style %s, distance %d: got %r expected %r" % (style, d, [g[:2] for g in got], exp)
        if not col.check([g[0] for g in got] == [e[0] for e in exp], "merge:per-chromosome:chromosomes-yielded:" + style, case, what):
            continue
        col.check([g[:2] for g in got] == exp, "merge:per-chromosome:not-maximal-runs-of-union:%s:%s" % (dt, style), case, what)
        col.check(all(set(g[2]) <= {g[0]} for g in got), "merge:per-chromosome:chromosome-changed", case,
                  "chromosome columns %r" % ([(g[0], g[2]) for g in got],))
        unchanged(col, "merge:per-chromosome", case, before, (I, names))


def chk_count_overlap_grouped(col, case):
    """case: sizes [[name,S],...], A, B rows [chrom,a,b] (per chromosome non-overlapping; A with >= 1 row, rows of a chromosome
    adjacent).  A goes in as groupby(A, "chromosome"), B as a per-chromosome dict with an entry for every contig"""
    from bionumpy.arithmetics import count_overlap
    from bionumpy.streams import groupby
    sizes = [tuple(x) for x in case["sizes"]]
    A, B = [tuple(r) for r in case["A"]], [tuple(r) for r in case["B"]]
    if not grouped_rows_ok(A):
        return
    exp = 0
    for n, S in sizes:
        ca, cb = cov([r[1:] for r in A if r[0] == n], S), cov([r[1:] for r in B if r[0] == n], S)
        exp += sum(1 for x, y in zip(ca, cb) if x > 0 and y > 0)
    for style in case.get("styles") or OVERLAP_CALL_STYLES:
        col.case(dict(case, style=style), nontrivial=bool(B), contract="count_overlap/per-chromosome")
        IA = mk_rows(A)
        parts = {n: mk([r[1:] for r in B if r[0] == n], n) for n, _ in sizes}
        before = [snapshot(IA)] + [snapshot(parts[n]) for n, _ in sizes]

        def call():
            stream, other = groupby(IA, "chromosome"), per_chromosome_dict(parts)
            if style == "positional":
                return int(count_overlap(stream, other))
            if style == "b-by-keyword":
                return int(count_overlap(stream, intervals_b=other))
            return int(count_overlap(intervals_a=stream, intervals_b=other))

        got = col.guarded(call, "count_overlap:per-chromosome:" + style, case)
        if got is None:
            continue
        col.check(got == exp, "count_overlap:per-chromosome:not-number-of-common-bases:" + style, case,
                  "call style %s: got %r expected %r" % (style, got, exp))
        unchanged(col, "count_overlap:per-chromosome", case, before, IA, *[parts[n] for n, _ in sizes])


CHECKS = {"pileup": chk_coverage, "bg_pileup": chk_coverage, "mask": chk_coverage, "merge": chk_merge, "sort": chk_sort,
          "sort_history": chk_sort_history,
          "count_overlap": chk_pair, "intersect": chk_pair, "global_intersect": chk_global_intersect,
          "unique_intersect": chk_unique_intersect, "similarity": chk_similarity, "clip": chk_clip, "extend": chk_extend,
          "merge_grouped": chk_merge_grouped, "count_overlap_grouped": chk_count_overlap_grouped,
          "geom_pileup": chk_geom, "geom_mask": chk_geom, "geom_clip": chk_geom, "geom_extend": chk_geom}


def evaluate(col, case):
    CHECKS[case["op"]](col, case)


# ----------------------------------------------------------------------------------------------------------------
# enumeration
# ----------------------------------------------------------------------------------------------------------------
def multisets(items, maxn):
    for n in range(maxn + 1):
        for c in itertools.combinations_with_replacement(items, n):
            yield list(c)


def sequences(items, maxn):
    for n in range(maxn + 1):
        for c in itertools.product(items, repeat=n):
            yield list(c)


def rotate(l):
    """a fixed non-sorted presentation of a multiset (the functions that need sorted input get it sorted instead)"""
    return l[1:] + l[:1]


def listings(s):
    """every distinct listing order of a multiset, the given (ascending) one first"""
    out = []
    for p in itertools.permutations(s):
        if list(p) not in out:
            out.append(list(p))
    return out


def sort_orderings(names, keys=("natural", "neglen", "reversed", "number", "constant", "human"), encoded=1):
    out = [{"kind": "default"}]
    out += [{"kind": "sort_order", "order": list(p)} for p in itertools.permutations(names)]
    out += [{"kind": "key_function", "key": k} for k in keys]
    out += [{"kind": "string_encoded", "order": list(p)} for p in list(itertools.permutations(names))[::-1][:encoded]]
    return out


def start_sorted_sequences(items, maxn):
    """all sequences with non-decreasing start (every order of the stops among equal starts)"""
    for s in sequences(items, maxn):
        if all(x[0] <= y[0] for x, y in zip(s, s[1:])):
            yield s


def disjoint_sets(S, maxn):
    return [s for s in multisets(intervals_of(S), maxn) if disjoint(s, S)]


def genome_rows(sizes, empty=False):
    return [(n, a, b) for n, S in sizes for a, b in intervals_of(S, empty)]


def sorted_rows(rows, names):
    return sorted(rows, key=lambda r: (names.index(r[0]), r[1], r[2]))


def gen_cases(tier, rng, rng_seed=0):
    """yields (section, case).  Sections are ordered small to large so that the first failure of a class is small."""
    quick = tier == "quick"
    SMAX = 6
    variants = ("default", "sort_order", "key_function", "string_encoded")
    # -- clip / extend_to_size (pointwise; one batch call with every row + one call per row) -------------------------
    for S in range(1, SMAX + 1):
        ivs = sorted([(a, b) for a in range(-2, S + 3) for b in range(a, S + 3)], key=lambda x: (x[0] == x[1], x))
        for iv in ivs:
            yield "clip", {"op": "clip", "S": S, "ivs": [iv], "size_kind": "array" if (iv[0] + iv[1]) % 2 else "scalar"}
        for kind in ("scalar", "array"):
            yield "clip", {"op": "clip", "S": S, "ivs": ivs, "size_kind": kind}
        rows = [(a, b, s) for a, b in intervals_of(S, empty=True) for s in "+-"]
        for L in range(0, S + 3):
            for kind in ("scalar", "array"):
                yield "extend", {"op": "extend", "S": S, "L": L, "rows": rows, "size_kind": kind}
            if not quick or S <= 4:
                for r in rows:
                    yield "extend", {"op": "extend", "S": S, "L": L, "rows": [r], "size_kind": "scalar" if (r[0] + L) % 2 else "array"}
    # -- Geometry over two contigs --------------------------------------------------------------------------------------
    gsizes = [(1, 1), (1, 2), (2, 1), (2, 2)] + ([(3, 2)] if quick else [(3, 2), (2, 3), (3, 3), (1, 4), (4, 1)])
    for s1, s2 in gsizes:
        sizes = [("chr1", s1), ("chr2", s2)]
        for seq in multisets(genome_rows(sizes), 3 if (not quick or s1 + s2 <= 4) else 2):
            for op in ("geom_pileup", "geom_mask"):
                yield "geometry", {"op": op, "sizes": sizes, "rows": rotate(seq)}
        crow = sorted([(n, a, b) for n, S in sizes for a in range(-2, S + 3) for b in range(a, S + 3)], key=lambda r: (r[1] == r[2], r))
        for r in crow:
            yield "geometry", {"op": "geom_clip", "sizes": sizes, "rows": [r]}
        yield "geometry", {"op": "geom_clip", "sizes": sizes, "rows": crow}
        yield "geometry", {"op": "geom_clip", "sizes": sizes, "rows": crow[::-1]}
        rows = genome_rows(sizes, empty=True)
        erow = [(n, a, b, s) for n, a, b in rows for s in "+-"]
        for L in range(0, max(s1, s2) + 3):
            yield "geometry", {"op": "geom_extend", "sizes": sizes, "rows": erow, "L": L}
            yield "geometry", {"op": "geom_extend", "sizes": sizes, "rows": erow[::-1], "L": L}
    # -- merge: start-sorted sequences of non-empty intervals x distances 0..S -------------------------------------
    for S in range(1, SMAX + 1):
        for ivs in start_sorted_sequences(intervals_of(S), 3):
            for d in range(S + 1):
                yield "merge", {"op": "merge", "S": S, "ivs": ivs, "d": d}
    # == the per-chromosome entry point: grouped streams / per-chromosome dicts, every way of passing the arguments =========
    def per_contig(sizes, maxns, make):
        """every combination of one `make(S, maxn)` set per contig, as rows grouped by contig in the order of `sizes`"""
        choices = [[[(n,) + tuple(iv) for iv in s] for s in make(S, k)] for (n, S), k in zip(sizes, maxns)]
        for combo in itertools.product(*choices):
            yield [r for part in combo for r in part]

    def sorted_seqs(S, k):
        return list(start_sorted_sequences(intervals_of(S), k))

    # -- merge_intervals(groupby(I, "chromosome"), d): 1 contig --------------------------------------------------------------
    for S in range(1, (3 if quick else 5) + 1):
        sizes = [("chr1", S)]
        for rows in per_contig(sizes, [2 if S == 5 else 3], sorted_seqs):
            for d in range(S + 1):
                if rows:
                    yield "merge_grouped", {"op": "merge_grouped", "sizes": sizes, "rows": rows, "d": d}
    # -- 2 and 3 contigs (names of unequal width, listed in and against string order), 0..2 intervals per contig; the same with
    #    the chromosome column as a StringEncoding whose code order is not the order of appearance -------------------------------
    if quick:
        mscopes = [([("chr1", 3), ("chr2", 2)], [2, 1], None), ([("chr1", 2), ("chr2", 3)], [1, 2], None),
                   ([("chr2", 3), ("chr10", 2)], [2, 1], ["chr10", "chr2"]), ([("chr2", 1), ("chr1", 3), ("chr10", 1)], [1, 2, 1], None)]
    else:
        mscopes = [([("chr1", 3), ("chr2", 3)], [2, 2], None), ([("chr2", 3), ("chr10", 2)], [2, 2], ["chr10", "chr2"]),
                   ([("chr10", 4), ("chr1", 3)], [2, 1], None), ([("chr1", 3), ("chr2", 4)], [1, 2], None),
                   ([("chr2", 2), ("chr1", 3), ("chr10", 2)], [1, 2, 1], None), ([("chr1", 1), ("chr2", 3), ("chr10", 3)], [1, 2, 1], None),
                   ([("chr1", 2), ("chr2", 2), ("chr10", 3)], [1, 1, 2], ["chr2", "chr10", "chr1"])]
    for sizes, maxns, encoding in mscopes:
        for rows in per_contig(sizes, maxns, sorted_seqs):
            if not rows:
                continue
            for d in range(max(S for _, S in sizes) + 1):
                case = {"op": "merge_grouped", "sizes": sizes, "rows": rows, "d": d}
                if encoding:
                    case["encoding"] = encoding
                yield "merge_grouped", case
    # -- count_overlap(groupby(A, "chromosome"), {chromosome: B on it}) --------------------------------------------------------
    for sizes, maxns in ([([("chr1", 2), ("chr2", 2)], [2, 2]), ([("chr1", 3)], [2])] if quick else
                         [([("chr1", 2), ("chr2", 2)], [2, 2]), ([("chr1", 4)], [2]), ([("chr2", 3), ("chr10", 2)], [2, 2]),
                          ([("chr1", 2), ("chr2", 1), ("chr10", 2)], [1, 1, 2])]):
        sets = list(per_contig(sizes, maxns, disjoint_sets))
        for A, B in itertools.product(sets, sets):
            if A:
                yield "count_overlap_grouped", {"op": "count_overlap_grouped", "sizes": sizes, "A": A, "B": B}
    # -- count_overlap / intersect: pairs of internally disjoint sorted sets ----------------------------------------
    for S in range(1, SMAX + 1):
        full = disjoint_sets(S, 3)
        small = [s for s in full if len(s) <= 2]
        if quick and S == SMAX:
            pairs = itertools.product(small, small)
        else:
            pairs = itertools.product(full, full)
        for A, B in pairs:
            for op in ("count_overlap", "intersect"):
                yield "pairs", {"op": op, "S": S, "A": A, "B": B}
    # -- global_intersect: 2 contigs, string-encoded chromosome column -----------------------------------------------
    for s1, s2 in ([(2, 2)] if quick else [(2, 2), (3, 2), (2, 3)]):
        sizes = [("chr1", s1), ("chr2", s2)]
        names = ["chr1", "chr2"]
        rows = genome_rows(sizes)
        sets = [s for s in multisets(rows, 2 if quick else 3)
                if all(disjoint([r[1:] for r in s if r[0] == n], S) for n, S in sizes)]
        for A, B in itertools.product(sets, sets):
            if A and B:
                yield "global_intersect", {"op": "global_intersect", "sizes": sizes, "A": sorted_rows(A, names), "B": sorted_rows(B, names)}
    # -- coverage: pileup / mask over all multisets (thorough: all orders) incl. empty intervals -----------------
    for S in range(1, SMAX + 1):
        items = intervals_of(S, empty=not (quick and S == SMAX))
        if quick or S == SMAX:
            sets = (rotate(s) for s in multisets(items, 3))
        else:
            sets = sequences(items, 3)
        for ivs in sets:
            for op in ("pileup", "mask", "bg_pileup"):
                yield "coverage", {"op": op, "S": S, "ivs": ivs}
    # -- sort -----------------------------------------------------------------------------------------------------
    if quick:
        scopes = [(["chr1", "chr2", "chr10"], 2, 3), (["chr1", "chr10"], 3, 3), (["chr2"], 3, 3)]
    else:
        scopes = [(["chr1", "chr2", "chr10"], 3, 3), (["chr1", "chr10"], 4, 3), (["chr2"], 6, 3), (["chr1", "chr2", "chr10"], 2, 4)]
    for names, S, maxn in scopes:
        rows = genome_rows([(n, S) for n in names])
        for seq in sequences(rows, maxn):
            for v in variants:
                yield "sort", {"op": "sort", "rows": seq, "variant": v}
    rows = genome_rows([("chr1", 2), ("chr2", 2)], empty=False)
    for seq in sequences(rows, 2 if quick else 3):
        for v in variants:
            yield "sort", {"op": "sort", "rows": seq, "variant": v, "dtype": "Bed6"}
    # -- unique_intersect ---------------------------------------------------------------------------------------------
    for S in range(1, (4 if quick else 5) + 1):
        items = intervals_of(S)
        for A in multisets(items, 2):
            for B in multisets(items, 3 if len(A) <= 1 else 2):
                yield "unique_intersect", {"op": "unique_intersect", "S": S, "A": rotate(A), "B": rotate(B)}
    if not quick:
        items = intervals_of(6)
        for A in multisets(items, 1):
            for B in multisets(items, 3):
                yield "unique_intersect", {"op": "unique_intersect", "S": 6, "A": A, "B": rotate(B)}
    # -- jaccard / forbes ---------------------------------------------------------------------------------------------
    if quick:
        sim_scopes = [([("chr1", 1)], 3), ([("chr1", 2)], 3), ([("chr1", 3)], 2), ([("chr1", 4)], 1), ([("chr1", 1), ("chr2", 1)], 2),
                      ([("chr1", 2), ("chr2", 1)], 2), ([("chr1", 1), ("chr2", 2)], 2)]
    else:
        sim_scopes = [([("chr1", 1)], 3), ([("chr1", 2)], 3), ([("chr1", 3)], 3), ([("chr1", 4)], 2), ([("chr1", 5)], 1), ([("chr1", 6)], 1),
                      ([("chr1", 1), ("chr2", 1)], 3), ([("chr1", 2), ("chr2", 1)], 3), ([("chr1", 1), ("chr2", 2)], 3),
                      ([("chr1", 2), ("chr2", 2)], 2), ([("chr1", 3), ("chr2", 2)], 2), ([("chr1", 2), ("chr2", 3)], 2)]
    for sizes, maxn in sim_scopes:
        names = [n for n, _ in sizes]
        sets = [sorted_rows(s, names) for s in multisets(genome_rows(sizes), maxn)]
        for A, B in itertools.product(sets, sets):
            yield "similarity", {"op": "similarity", "sizes": sizes, "A": A, "B": B}
    # -- sampled: larger contigs and counts ---------------------------------------------------------------------------
    for i in range(150 if quick else 2500):
        S = rng.randint(7, 40)
        n = rng.randint(4, 10)

        def rand_set(k, empty_ok=False):
            out = []
            for _ in range(k):
                a = rng.choice([0, 0, S - 1] + list(range(S)))
                b = rng.choice([S, S, a + 1] + list(range(a + (0 if empty_ok else 1), S + 1)))
                if b <= a and not empty_ok:
                    b = a + 1
                out.append((a, max(a, b)))
            return out

        def rand_disjoint(k):
            cuts = sorted(rng.sample(range(S + 1), min(2 * k, S + 1) // 2 * 2))
            out = [(cuts[j], cuts[j + 1]) for j in range(0, len(cuts) - 1, 2)]
            # make some of them touch
            if len(out) > 1 and rng.random() < 0.5:
                j = rng.randrange(len(out) - 1)
                out[j] = (out[j][0], out[j + 1][0])
            return out

        ivs = rand_set(n, empty_ok=True)
        for op in ("pileup", "mask", "bg_pileup"):
            yield "sampled", {"op": op, "S": S, "ivs": ivs}
        ivs = sorted(rand_set(n), key=lambda x: x[0])
        yield "sampled", {"op": "merge", "S": S, "ivs": ivs, "d": rng.choice([0, 1, 2, rng.randint(0, S)])}
        A, B = rand_disjoint(rng.randint(1, 6)), rand_disjoint(rng.randint(1, 6))
        for op in ("count_overlap", "intersect"):
            yield "sampled", {"op": op, "S": S, "A": A, "B": B}
        yield "sampled", {"op": "unique_intersect", "S": S, "A": rand_set(rng.randint(1, 5)), "B": rand_set(rng.randint(1, 5))}
        S2 = rng.randint(1, 20)
        sizes = [("chr1", S), ("chr2", S2)]
        RA = [("chr1",) + x for x in sorted(rand_set(rng.randint(0, 4)))] + [("chr2", a % S2, a % S2 + 1 + (b % (S2 - a % S2))) for a, b in sorted(rand_set(rng.randint(0, 3)))]
        RB = [("chr1",) + x for x in sorted(rand_set(rng.randint(0, 4)))] + [("chr2", a % S2, a % S2 + 1 + (b % (S2 - a % S2))) for a, b in sorted(rand_set(rng.randint(0, 3)))]
        RA, RB = sorted_rows(RA, ["chr1", "chr2"]), sorted_rows(RB, ["chr1", "chr2"])
        if RA and RB:
            yield "sampled", {"op": "similarity", "sizes": sizes, "A": RA, "B": RB}
        rows = [(rng.choice(["chr1", "chr2", "chr10"]),) + x for x in rand_set(n, empty_ok=True)]
        yield "sampled", {"op": "sort", "rows": rows, "variant": rng.choice(variants), "dtype": rng.choice(["Interval", "Bed6"])}

    # == cases added for listing orders and call histories ============================================================
    # -- count_overlap / intersect: the same pairs of sets, every listing order of both operands except both ascending ---
    for S in range(1, SMAX + 1):
        full = disjoint_sets(S, 3)
        # exhaustive up to S=4 (quick: S=3, and S=4 with <= 5 intervals in the two sets together); above that the larger
        # sets are left out: quick S=5 <= 2 intervals per set and only the reversed listings, thorough S=5 <= 5 intervals
        # in the two sets together, S=6 <= 3 together
        if quick and S > 5:
            continue
        for A, B in itertools.product(full, full):
            if S > 4 and (max(len(A), len(B)) > 2 if quick else len(A) + len(B) > (5 if S == 5 else 3)):
                continue
            if quick and S == 4 and len(A) + len(B) > 5:
                continue
            for PA in listings(A):
                for PB in listings(B):
                    if PA == A and PB == B:
                        continue
                    if quick and S > 4 and (PA, PB) != (A[::-1], B[::-1]):
                        continue
                    for op in ("count_overlap", "intersect"):
                        yield "pairs_permuted", {"op": op, "S": S, "A": PA, "B": PB, "listing": "permuted"}
    # -- global_intersect: any row order (chromosomes may interleave) ---------------------------------------------------
    #    (nearly every case with rows on two chromosomes fails already in ascending order - the known multi-chromosome
    #    finding - so most of this scope has all rows on ONE of the two chromosomes of the encoding, where the function works)
    for (s1, s2), maxn in ([((3, 2), 3)] if quick else [((3, 3), 3), ((2, 4), 2)]):
        sizes = [("chr1", s1), ("chr2", s2)]
        for n, S in sizes:
            sets = [[(n,) + iv for iv in s] for s in disjoint_sets(S, maxn) if s]
            for A, B in itertools.product(sets, sets):
                for PA in listings(A):
                    for PB in listings(B):
                        if PA != A or PB != B:
                            yield "two_set_permuted", {"op": "global_intersect", "sizes": sizes, "A": PA, "B": PB, "listing": "permuted"}
    sizes = [("chr1", 2), ("chr2", 2)]
    names = ["chr1", "chr2"]
    sets = [sorted_rows(s, names) for s in multisets(genome_rows(sizes), 2)
            if s and all(disjoint([r[1:] for r in s if r[0] == n], S) for n, S in sizes)]
    for A, B in itertools.product(sets, sets):
        if len({r[0] for r in A + B}) < 2:
            continue
        for PA in listings(A):
            for PB in listings(B):
                if (PA, PB) != (A, B) and (not quick or (PA != A and PB != B)):
                    yield "two_set_permuted", {"op": "global_intersect", "sizes": sizes, "A": PA, "B": PB, "listing": "permuted"}
    # -- unique_intersect: every listing order other than the one rotation evaluated above ---------------------------------
    for S in range(1, (3 if quick else 4) + 1):
        items = intervals_of(S)
        for A in multisets(items, 2):
            for B in multisets(items, 3 if (len(A) <= 1 and S <= (2 if quick else 3)) else 2):
                for PA in listings(A):
                    for PB in listings(B):
                        if PA == rotate(A) and PB == rotate(B):
                            continue
                        yield "two_set_permuted", {"op": "unique_intersect", "S": S, "A": PA, "B": PB, "listing": "permuted"}
    # -- Geometry.jaccard: rows in any order (arithmetics.jaccard / forbes document "Must be sorted") ---------------------
    for sizes, maxn in ([([("chr1", 3)], 2), ([("chr1", 1), ("chr2", 2)], 2)] if quick else
                        [([("chr1", 2)], 3), ([("chr1", 3)], 2), ([("chr1", 1), ("chr2", 2)], 2), ([("chr1", 2), ("chr2", 1)], 2), ([("chr1", 2), ("chr2", 2)], 2)]):
        names = [n for n, _ in sizes]
        sets = [sorted_rows(s, names) for s in multisets(genome_rows(sizes), maxn) if s]
        lists = [(s, listings(s)) for s in sets]
        for (A, LA), (B, LB) in itertools.product(lists, lists):
            # quick: both sets in their reversed listing; thorough: every pair of listings except both ascending
            for PA, PB in ([(LA[-1], LB[-1])] if quick else itertools.product(LA, LB)):
                if (PA, PB) != (A, B):
                    yield "similarity_permuted", {"op": "similarity", "sizes": sizes, "A": PA, "B": PB, "listing": "permuted"}
    # -- histories of sort_intervals calls with different chromosome orderings for the same names -----------------------
    names3 = ["chr1", "chr2", "chr10"]
    base3 = [("chr1", 0, 2), ("chr2", 1, 2), ("chr10", 0, 1)]
    pool3 = sort_orderings(names3)
    rows3 = [list(p) for n in (2, 3) for p in itertools.permutations(base3, n)]
    if not quick:
        rows3 += [list(p) for p in itertools.product(base3 + [("chr2", 0, 1)], repeat=3) if len(set(p)) < 3 and len({r[0] for r in p}) > 1]
    for o1, o2 in itertools.product(pool3, pool3):
        for k, rows in enumerate(rows3):
            # the second call sorts the same rows, or (every other case) another listing of them with one row replaced
            rows2 = rows if k % 2 == 0 else rotate(rows)[:-1] + [(rows[0][0], 1, 2)]
            yield "sort_history", {"op": "sort_history", "steps": [{"rows": rows, "ordering": o1}, {"rows": rows2, "ordering": o2}]}
    pool3s = [o for o in pool3 if o["kind"] != "sort_order" or o["order"] in (["chr2", "chr10", "chr1"], ["chr10", "chr1", "chr2"])]
    pool3s = [o for o in pool3s if o.get("key") not in (() if not quick else ("neglen", "number"))]
    for hist in itertools.product(pool3s, repeat=3):
        for rows in ([base3, base3[::-1]] if quick else rows3[:6]):
            yield "sort_history", {"op": "sort_history", "steps": [{"rows": rotate(rows) if i == 1 else rows, "ordering": o} for i, o in enumerate(hist)]}
    names4 = ["chr1", "chr2", "chr10", "chrX"]
    base4 = base3 + [("chrX", 1, 2)]
    pool4 = sort_orderings(names4, encoded=2)
    if quick:
        pool4 = [o for i, o in enumerate(pool4) if o["kind"] != "sort_order" or i % 5 == 0]
    for o1, o2 in itertools.product(pool4, pool4):
        for rows in ([base4, base4[::-1]] if quick else [base4, base4[::-1], rotate(base4), base4[:2] + base4[3:], base4[1:][::-1]]):
            yield "sort_history", {"op": "sort_history", "steps": [{"rows": rows, "ordering": o1}, {"rows": rows[::-1], "ordering": o2}]}
    # -- sampled: larger contigs, unsorted listings and longer histories -------------------------------------------------
    import random
    prng = random.Random("C08-listings-%s" % rng_seed)
    for i in range(300 if quick else 3000):
        S = prng.randint(7, 40)

        def shuffled_disjoint(k):
            cuts = sorted(prng.sample(range(S + 1), min(2 * k, S + 1) // 2 * 2))
            out = [(cuts[j], cuts[j + 1]) for j in range(0, len(cuts) - 1, 2)]
            if len(out) > 1 and prng.random() < 0.5:
                j = prng.randrange(len(out) - 1)
                out[j] = (out[j][0], out[j + 1][0])
            asc = list(out)
            while len(out) > 1 and out == asc:
                prng.shuffle(out)
            return out

        A, B = shuffled_disjoint(prng.randint(2, 7)), shuffled_disjoint(prng.randint(1, 7))
        if prng.random() < 0.3:
            B = sorted(B)
        if prng.random() < 0.5:
            A, B = B, A
        for op in ("count_overlap", "intersect"):
            yield "sampled_permuted", {"op": op, "S": S, "A": A, "B": B, "listing": "permuted"}
        steps = []
        n = prng.randint(4, 10)
        for _ in range(prng.randint(2, 4)):
            rows = []
            for _ in range(n):
                a = prng.randint(0, S - 1)
                rows.append((prng.choice(names4), a, prng.randint(a, S)))
            steps.append({"rows": rows, "ordering": prng.choice(pool4)})
        yield "sampled_permuted", {"op": "sort_history", "steps": steps}

    # == the per-chromosome entry point, sampled (the exhaustive part follows the merge section above) ===================
    # -- sampled: 2..4 larger contigs ----------------------------------------------------------------------------------------
    grng = random.Random("C08-per-chromosome-%s" % rng_seed)
    for i in range(100 if quick else 1000):
        names = grng.sample(["chr1", "chr2", "chr10", "chrX"], grng.randint(2, 4))
        sizes = [(n, grng.randint(7, 40)) for n in names]

        def rand_rows(nonoverlapping):
            rows = []
            for n, S in sizes:
                k = grng.randint(0, 6)
                if nonoverlapping:
                    cuts = sorted(grng.sample(range(S + 1), min(2 * k, S + 1) // 2 * 2))
                    ivs = [(cuts[j], cuts[j + 1]) for j in range(0, len(cuts) - 1, 2)]
                else:
                    ivs = []
                    for _ in range(k):
                        a = grng.choice([0, S - 1] + list(range(S)))
                        ivs.append((a, grng.choice([S, a + 1, a + 1, min(S, a + 2)] + list(range(a + 1, S + 1)))))
                    ivs.sort(key=lambda x: x[0])
                rows += [(n,) + iv for iv in ivs]
            return rows

        rows = rand_rows(False)
        if rows:
            case = {"op": "merge_grouped", "sizes": sizes, "rows": rows, "d": grng.choice([0, 1, 1, 2, 3, grng.randint(0, 40)])}
            if grng.random() < 0.3:
                case["encoding"] = grng.sample(names, len(names))
            yield "sampled_grouped", case
        A, B = rand_rows(True), rand_rows(True)
        if A:
            yield "sampled_grouped", {"op": "count_overlap_grouped", "sizes": sizes, "A": A, "B": B}


def run(tier="quick", seed=0):
    quick = tier == "quick"
    col = Collector("C08", tier, seed,
                    "exhaustive over contig sizes 1..6: every multiset (thorough: every order) of <= 3 half-open intervals incl. "
                    "empty intervals for pileup/mask; every start-sorted sequence x distance 0..S for merge; every sequence of <= 3 rows "
                    "over 1..3 contigs x 4 ways of giving the chromosome order for sort; every pair of internally non-overlapping sets for "
                    "count_overlap/intersect/global_intersect; entry sets x interval sets for unique_intersect; pairs of sorted sets over "
                    "1..2 contigs for jaccard/forbes; every (start,stop,strand,L) for clip/extend_to_size; then seeded samples on contigs "
                    "of 7..40 with 4..10 intervals. Then the two-set operations again on sets NOT listed in ascending order (every "
                    "permutation of both operands) and histories of 2..4 sort_intervals calls in one process that order the same "
                    "chromosome names differently (sort_order lists, default, key functions, StringEncoding). Then the per-chromosome "
                    "entry point of merge_intervals / count_overlap (grouped stream of a 1..4-contig genome, per-chromosome dict), every "
                    "way of passing the stream and the other arguments (positional / keyword / omitted). "
                    "distinct = distinct (operation, input); non-trivial = non-empty input sets")
    col.bounds = {
        "intervals": "half-open [a,b), 0 <= a < b <= S; empty intervals (a == b) only for pileup/mask/extend_to_size/clip",
        "pileup/mask/bedgraph-pileup": "S=1..6, every multiset of 0..3 intervals incl. empty ones (quick: S=6 without empty intervals; "
                                       "thorough: S<=5 every ORDER of the 0..3 intervals)",
        "merge": "S=1..6, every start-sorted sequence of 0..3 non-empty intervals (all tie orders) x distance 0..S",
        "sort": ("rows over (3 contigs,S=2),(2 contigs,S=3),(1 contig,S=3)" if quick else
                 "rows over (3 contigs,S=3),(2 contigs,S=4),(1 contig,S=6) with 0..3 rows and (3 contigs,S=2) with 0..4 rows") +
                ", every sequence, x {default key, sort_order, key function, StringEncoding column}; Bed6 rows over 2 contigs S=2, 0..%d rows" % (2 if quick else 3),
        "count_overlap/intersect": "S=1..6, every ordered pair of internally non-overlapping sorted sets of 0..3 intervals" +
                                   (" (S=6: 0..2 intervals per set)" if quick else ""),
        "global_intersect": "2 contigs of sizes %s, every pair of non-empty per-contig non-overlapping sets of 1..%d rows" %
                            (("(2,2)", 2) if quick else ("(2,2),(3,2),(2,3)", 3)),
        "unique_intersect": "S=1..%d: entry multisets of 0..2 intervals x interval multisets of 0..3 (0..2 when 2 entries)%s" %
                            ((4, "") if quick else (5, "; S=6: 0..1 entries x 0..3 intervals")),
        "jaccard/forbes/Geometry.jaccard": ("1 contig S=1,2 (0..3 intervals per set), S=3 (0..2), S=4 (0..1); 2 contigs (1,1),(2,1),(1,2) (0..2)" if quick else
                                            "1 contig S=1..3 (0..3 intervals per set), S=4 (0..2), S=5,6 (0..1); 2 contigs (1,1),(2,1),(1,2) (0..3), (2,2),(3,2),(2,3) (0..2)") +
                                           ", every ordered pair of sorted sets",
        "clip": "S=1..6, every start <= stop in -2..S+2, scalar and per-row sizes, one call per row and one batch call",
        "extend_to_size": "S=1..6, every 0 <= start <= stop <= S x strand +,- x fragment length 0..S+2, scalar and per-row sizes, batch call"
                          " and one call per row" + (" (S<=4)" if quick else ""),
        "Geometry (2 contigs)": "sizes %s: get_pileup/get_mask on every multiset of 0..3 rows%s, clip and extend_to_size on every row" %
                                (("(1,1),(1,2),(2,1),(2,2),(3,2)", " (0..2 for (3,2))") if quick else ("(1,1),(1,2),(2,1),(2,2),(3,2),(2,3),(3,3),(1,4),(4,1)", "")),
        "sampled": "%d seeded rounds: contig 7..40, 4..10 intervals (1..6 for the non-overlapping sets), every operation once per round" % (150 if quick else 2500),
        "count_overlap/intersect, unsorted listings": "every listing order of both operands (not both ascending) of the pairs above: " +
            ("S=1..3 all pairs, S=4 pairs with <= 5 intervals together, S=5 sets of 0..2 intervals, both reversed" if quick else "S=1..4 all pairs, S=5 pairs with <= 5 intervals together, S=6 with <= 3 together"),
        "global_intersect, unsorted listings": "all rows on one contig of a 2-contig encoding, sizes %s, non-overlapping sets of 1..%s rows, every listing order; "
            "rows on both contigs: sizes (2,2), 1..2 rows per set, %s" % (("(3,2)", 3, "both listings reversed") if quick else ("(3,3),(2,4)", "3 (2 for (2,4))", "every listing order")),
        "unique_intersect, every listing order": "S=1..%d, entry multisets of 0..2 x interval multisets of 0..2 (0..3 with <= 1 entry and S<=%d): every listing "
            "order of both other than the rotation used above" % ((3, 2) if quick else (4, 3)),
        "Geometry.jaccard, unsorted listings": ("1 contig S=3 (1..2 intervals per set), 2 contigs (1,2) (1..2): both sets in their reversed listing" if quick else
            "1 contig S=2 (1..3 intervals per set), S=3 (1..2), 2 contigs (1,2),(2,1),(2,2) (1..2): every pair of listings except both ascending") +
            " (any row order, contigs may interleave); not arithmetics.jaccard/forbes, whose arguments are documented as 'Must be sorted'",
        "sort histories": "names chr1,chr2,chr10 (one row each, 2..3 rows%s): every ordered pair of 14 orderings (default, the 6 sort_order lists, key "
            "functions natural/neglen/reversed/number/constant/human_key_func, StringEncoding), second call on the same or a changed row list; "
            "every triple of %d orderings; names chr1,chr2,chr10,chrX: every ordered pair of %d orderings (%s sort_order lists)" %
            (("", 8, 13, "4 of the 24") if quick else (" + rows sharing a contig", 10, 33, "all 24")),
        "sampled, unsorted listings and histories": "%d seeded rounds: contig 7..40, shuffled non-overlapping sets of 1..7 intervals for count_overlap/intersect; "
            "a history of 2..4 sort calls on 4..10 random rows over 4 names with random orderings" % (300 if quick else 3000),
        "merge_intervals, per-chromosome entry point": "merge_intervals(groupby(I, 'chromosome'), d), d=0..max contig size, every call "
            "style of {stream and distance positional; distance by keyword; stream and distance by keyword; distance left out (d=0)} a case of "
            "its own; >= 1 row, rows of a contig adjacent and start-sorted (all tie orders). 1 contig: " +
            ("S=1..3 with 1..3 intervals" if quick else "S=1..4 with 1..3 intervals, S=5 with 1..2") + "; 2 contigs: " +
            ("sizes (3,2) with 0..2 / 0..1 intervals and (2,3) with 0..1 / 0..2; StringEncoding chromosome column (code order "
             "against the order of appearance) sizes (3,2) with 0..2 / 0..1; 3 contigs (1,3,1) with 0..1 / 0..2 / 0..1" if quick else
             "sizes (3,3) with 0..2 intervals per contig, (4,3) with 0..2 / 0..1, (3,4) with 0..1 / 0..2; StringEncoding chromosome column "
             "(code order against the order of appearance) sizes (3,2) with 0..2 per contig and 3 contigs (2,2,3) with 0..1 / 0..1 / 0..2; "
             "3 contigs (2,3,2) and (1,3,3) with 0..1 / 0..2 / 0..1") + "; contig names of unequal width, listed in and against string order",
        "count_overlap, per-chromosome entry point": "count_overlap(groupby(A, 'chromosome'), {contig: B on it} marked with streams.grouped_dict), "
            "call styles {both positional; B by keyword; both by keyword}; per contig non-overlapping sets, A with >= 1 row: " +
            ("2 contigs (2,2) and 1 contig S=3, 0..2 intervals per contig, every ordered pair" if quick else
             "2 contigs (2,2), (3,2), 1 contig S=4 with 0..2 intervals per contig, 3 contigs (2,1,2) with 0..1 / 0..1 / 0..2, every ordered pair"),
        "sampled, per-chromosome entry point": "%d seeded rounds: 2..4 contigs of 7..40 in random order, 0..6 intervals per contig, distance from "
            "{0,1,2,3,random 0..40}, 30%% with a StringEncoding column; one merge and one count_overlap case per round, every call style" % (100 if quick else 1000)}
    # wall-clock allotment (seconds) of each section, counted from the section's own start, so that a slow section
    # (slow machine, or a fault that makes every call raise) cannot starve the later ones.  Typical use is about
    # half of it (quick ~35 s, thorough ~6 min); the sum is the worst case.
    if quick:
        allot = {"clip": 2, "extend": 2, "geometry": 4, "merge": 6, "pairs": 8, "global_intersect": 2, "coverage": 11, "sort": 9,
                 "unique_intersect": 9, "similarity": 12, "sampled": 4,
                 "pairs_permuted": 6, "two_set_permuted": 4, "similarity_permuted": 4, "sort_history": 5, "sampled_permuted": 2,
                 "merge_grouped": 10, "count_overlap_grouped": 3, "sampled_grouped": 2}
    else:
        allot = {"clip": 5, "extend": 8, "geometry": 25, "merge": 15, "pairs": 30, "global_intersect": 25, "coverage": 55, "sort": 105,
                 "unique_intersect": 105, "similarity": 170, "sampled": 57,
                 "pairs_permuted": 45, "two_set_permuted": 25, "similarity_permuted": 40, "sort_history": 30, "sampled_permuted": 12,
                 "merge_grouped": 75, "count_overlap_grouped": 20, "sampled_grouped": 12}
    import time
    started = {}
    cut = set()
    for section, case in gen_cases(tier, col.rng, seed):
        t = time.time()
        if section in cut:
            continue
        if t - started.setdefault(section, t) > allot[section] or col.out_of_time():
            # the section has used up its allotment: the rest of it is left out (recorded, exhaustive=False)
            cut.add(section)
            col.exhaustive = False
            col.bounds.setdefault("sections_cut_short_by_time", []).append(section)
            continue
        col.guarded(lambda: evaluate(col, case), "enumerator:" + case["op"], case)
    return col.result()


def replay(case):
    col = Collector("C08", "quick", 0, "replay")
    col.guarded(lambda: evaluate(col, case), "enumerator:" + case["op"], case)
    if col.failures:
        return False, "; ".join(f["signature"] + ": " + f["message"] for f in col.failures)
    return True, "ok"
