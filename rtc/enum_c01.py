"""C01 bounded stand-in: chunked reading loses, duplicates or reorders no entry, for any chunk size.

Scope: every text format of the property (two-line FASTA through both buffer classes, wrapped FASTA of widths 1..3,
FASTQ, BED3 (with and without comment header), BED6, bedGraph, narrowPeak, VCF (8 columns / with sample columns),
SAM (with / without header), GTF) x files of 0..4 entries whose variable fields have size class 1, 2 or 5
x {final newline, none} x {LF, CRLF} x {plain, gzip (one member / one member per line group)} x {eager, lazy}
x min_chunk_size 1 .. size + 2 (quick: the divisor / boundary neighbourhoods only).
Contracts evaluated on the real `bnp.open(path).read_chunks(k)` / `.read()` (and on
`NpDataclassReader(NumpyFileReader(BytesIO, buffer))`):
  whole-read     read() gives the entries the generator wrote (reference = plain Python values, refmodels/c01_files.py)
  read_chunks    a read that completes gives, chunk after chunk, exactly those entries (field by field), no chunk
                 is empty; an exception is accepted only when the chunk size cannot hold the longest entry
Two further size classes (refmodels/c01_files.py) widen the entry generators beyond {1, 2, 5}:
  0  FASTA / FASTQ records of a ZERO-LENGTH read (empty sequence line, empty quality line) at every position of the
     file, in particular as the LAST record (file ends in '+\n\n' / '>x\n\n'); only with a final newline when the
     last record is the empty one (without it the file could not be told from a truncated one)
  9  delimited formats: 9-digit coordinates next to 1- and 2-digit ones in the same column with 1-letter names
     ('a\t2\t3' after 'b\t234567890\t345678901'), the wide line first, so that read() sees the short line far from the
     start of its buffer while a chunk may begin with it; files of up to 6 lines, every chunk size in the thorough tier
Failures of these cases carry the scope in their signature (zero-length-record / zero-length-last-record /
mixed-width-numbers).
"""
import gzip
import io
import math
import os
import time
import traceback

from .common import Collector, TmpDir, to_py
from .refmodels import c01_files as ref

SIZES = (1, 2, 5)


# ------------------------------------------------------------------------------------------------ observation
def entries_of(data, spec):
    """bionumpy data object (eager or lazy) -> list of tuples of plain Python values, one per entry"""
    n = len(data)
    cols = []
    for f in spec.fields:
        v = to_py(getattr(data, f))
        if isinstance(v, str):          # 1-d EncodedArray (one character per entry, e.g. strand)
            v = list(v)
        v = list(v)
        if len(v) != n:
            raise AssertionError("field %s has %d values for %d entries" % (f, len(v), n))
        cols.append(v)
    return [tuple(c[j] for c in cols) for j in range(n)]


def same_entry(a, b, spec):
    if len(a) != len(b):
        return False
    for f, x, y in zip(spec.fields, a, b):
        if f in spec.float_fields:
            if not (isinstance(x, float) and isinstance(y, float) and math.isclose(x, y, rel_tol=1e-9, abs_tol=1e-12)):
                return False
        elif x != y or type(x) is not type(y):
            return False
    return True


def same_entries(a, b, spec):
    return len(a) == len(b) and all(same_entry(x, y, spec) for x, y in zip(a, b))


def _is_subsequence(small, big, spec):
    it = iter(big)
    return all(any(same_entry(x, y, spec) for y in it) for x in small)


def classify(got, exp, spec):
    """how `got` differs from `exp`"""
    if len(got) < len(exp):
        if same_entries(got, exp[:len(got)], spec):
            return "lost-tail"
        if _is_subsequence(got, exp, spec):
            return "lost-entries"
        return "fewer-and-different-entries"
    if len(got) > len(exp):
        if _is_subsequence(exp, got, spec):
            return "extra-entries"
        return "more-and-different-entries"
    rest = list(exp)
    for g in got:
        for j, e in enumerate(rest):
            if same_entry(g, e, spec):
                del rest[j]
                break
    if not rest:
        return "reordered"
    return "different-entries"


def open_reader(path_or_bytes, spec, comp, lazy, via):
    import bionumpy as bnp
    import bionumpy.io as bio
    from bionumpy.io import delimited_buffers, one_line_buffer
    bt = None
    if spec.buffer_type:
        bt = getattr(delimited_buffers, spec.buffer_type, None) or getattr(one_line_buffer, spec.buffer_type)
    if via == "open":
        return bnp.open(path_or_bytes, buffer_type=bt, lazy=lazy)
    # the documented low-level route: a reader over any file object
    from bionumpy.io.parser import NumpyFileReader
    from bionumpy.io.npdataclassreader import NpDataclassReader
    from bionumpy.io.files import buffer_types
    if bt is None:
        bt = buffer_types[spec.suffix]
    if comp == "plain":
        fr = NumpyFileReader(io.BytesIO(path_or_bytes), bt)
    else:
        fr = NumpyFileReader(gzip.GzipFile(fileobj=io.BytesIO(path_or_bytes), mode="rb"), bt)
        fr.set_prepend_mode()
    return NpDataclassReader(fr, lazy=lazy)


def gz_bytes(data, comp, ebytes, body):
    if comp == "gzip":
        return gzip.compress(data, mtime=0)
    # "gzipm": several gzip members (what bgzip / `cat a.gz b.gz` produce): header+first entry, then the rest one by one
    parts = [data[:body + (len(ebytes[0]) if ebytes else 0)]] + [e for e in ebytes[1:]]
    return b"".join(gzip.compress(p, mtime=0) for p in parts if p) or gzip.compress(b"", mtime=0)


# ------------------------------------------------------------------------------------------------ one file
class FileCase:
    def __init__(self, fmt, sizes, final_newline, crlf):
        self.fmt, self.sizes, self.final_newline, self.crlf = fmt, list(sizes), final_newline, crlf
        self.spec = ref.FORMATS[fmt]
        self.data, self.body, self.ebytes, self.refs = ref.build(fmt, sizes, final_newline, crlf)
        self.body_size = len(self.data) - self.body
        self.max_entry = max([len(e) for e in self.ebytes] + [0])
        self.tail = len(self.ebytes[-1]) if self.ebytes else 0
        # scope marker of the cases beyond the size classes {1, 2, 5}: part of every signature of such a case
        self.scope = ""
        if ref.ZERO in self.sizes:
            self.scope = "zero-length-last-record:" if self.sizes[-1] == ref.ZERO else "zero-length-record:"
        elif ref.WIDE in self.sizes:
            self.scope = "mixed-width-numbers:"

    def chunk_sizes(self, level):
        """"all": 1..size+2; "near": 1..4, divisors and -1/+1/+2 neighbours of every size/offset in the file;
        "tight": the same with fewer divisors and fewer offsets"""
        n = len(self.data)
        if level == "all":
            return list(range(1, n + 3))
        tight = level == "tight"
        ks = {1, 2, 3} if tight else {1, 2, 3, 4}
        bounds = [0]
        for e in self.ebytes:
            bounds.append(bounds[-1] + len(e))
        interesting = set(bounds) | {len(e) for e in self.ebytes} | {n, self.body_size, self.tail, self.body}
        if not tight:
            interesting |= {self.body + b for b in bounds} | {self.body_size - b for b in bounds}
        for v in interesting:
            if v <= 0:
                continue
            for d in range(1, v + 1):
                if v % d == 0 and ((d <= 5 or v // d <= 2) if tight else (d <= 8 or v // d <= 3)):
                    ks.add(d)
            ks |= {v - 1, v + 1} if tight else {v - 1, v + 1, v + 2}
        ks.add(n + 2)
        return sorted(k for k in ks if 1 <= k <= n + 2)

    def pending_tail_aligned(self, comp, k):
        """the input class of the known lost-tail defect: the last entry is completed only by the end of the file
        (no final newline; for FASTA read as multi-line, always) and the raw reads end exactly at the end of file"""
        if not self.ebytes:
            return False
        needs_eof = (not self.final_newline) or (self.spec.suffix in (".fa", ".fasta") and not self.spec.buffer_type)
        if not needs_eof:
            return False
        return (self.tail % k == 0) if comp == "plain" else (self.body_size % k == 0)

    def case(self, comp, lazy, via, k=None):
        c = {"fmt": self.fmt, "sizes": self.sizes, "final_newline": self.final_newline, "crlf": self.crlf,
             "comp": comp, "lazy": lazy, "via": via}
        if k is not None:
            c["min_chunk_size"] = k
        return c

    def sig_tail(self, comp):
        return "%s%s:%s:%s%s" % (self.scope, self.fmt, "plain" if comp == "plain" else comp,
                               "final-newline" if self.final_newline else "no-final-newline", ":crlf" if self.crlf else "")


def check_whole(col, fc, src, comp, lazy, via):
    """contract whole-read; returns (entries read() gave or None, name of the exception read() raised or None)"""
    case = fc.case(comp, lazy, via)
    col.case({"k": "read", **case}, nontrivial=bool(fc.refs), contract="whole-read")
    try:
        r = open_reader(src, fc.spec, comp, lazy, via)
        try:
            got = entries_of(r.read(), fc.spec)
        finally:
            r.close()
    except Exception as e:
        # one signature per (format, line end): the whole region (every chunk size, plain and gzip) fails alike
        col.fail("whole-read:exception:%s:%s%s%s" % (type(e).__name__, fc.scope, fc.fmt, ":crlf" if fc.crlf else ""), case,
                 "read() raised %s: %s\n%s" % (type(e).__name__, str(e)[:150], traceback.format_exc()[-350:]))
        return None, type(e).__name__
    if not same_entries(got, fc.refs, fc.spec):
        col.fail("whole-read:%s:%s" % (classify(got, fc.refs, fc.spec), fc.sig_tail(comp)), case,
                 "read() gave %r, the file holds %r" % (got[:5], fc.refs[:5]))
    return got, None


def check_chunks(col, fc, src, comp, lazy, via, k, whole, whole_exc=None):
    case = fc.case(comp, lazy, via, k)
    col.case({"k": "chunks", **case}, nontrivial=len(fc.refs) > 0, contract="read_chunks")
    try:
        r = open_reader(src, fc.spec, comp, lazy, via)
        try:
            per_chunk = [entries_of(c, fc.spec) for c in r.read_chunks(min_chunk_size=k)]
        finally:
            r.close()
    except Exception as e:
        # "A chunk size too small to hold one entry may raise an error": accepted only then
        if k < fc.max_entry + 2:
            return "raised-small-chunk"
        if type(e).__name__ == whole_exc:
            return "raised-like-read"           # already reported once by whole-read
        col.fail("read_chunks:exception-with-sufficient-chunk-size:%s:%s" % (type(e).__name__, fc.sig_tail(comp)), case,
                 "%s: %s (longest entry %d bytes, min_chunk_size %d)" % (type(e).__name__, str(e)[:200], fc.max_entry, k))
        return "raised"
    got = [e for ch in per_chunk for e in ch]
    # the statement: equal to what reading the whole file at once gives; that in turn was compared with the
    # reference, so when read() itself is off (reported by whole-read) the chunks are still judged against read()
    exp = whole if whole is not None else fc.refs
    if not same_entries(got, exp, fc.spec):
        kind = classify(got, exp, fc.spec)
        if kind == "lost-tail" and len(got) == len(exp) - 1 and fc.pending_tail_aligned(comp, k):
            sig = "read_chunks:lost-tail:unterminated-last-entry-ends-on-chunk-multiple:%s" % ("plain" if comp == "plain" else "gzip")
        else:
            sig = "read_chunks:%s:%s" % (kind, fc.sig_tail(comp))
        col.fail(sig, case, "chunks %r concatenate to %d entries, the last ones %r; read() gives %d entries, the last ones %r" %
                 ([len(c) for c in per_chunk], len(got), got[-3:], len(exp), exp[-3:]))
        return kind
    if any(len(c) == 0 for c in per_chunk):
        col.fail("read_chunks:empty-chunk-in-stream:" + fc.sig_tail(comp), case, "chunk lengths %r" % [len(c) for c in per_chunk])
    return "ok"


def run_file(col, tmp, fc, ks, comps, lazies, vias, deadline=None):
    for comp in comps:
        for via in vias:
            if via == "open":
                path = os.path.join(tmp, "f%s%s" % (fc.spec.suffix, "" if comp == "plain" else ".gz"))
                with open(path, "wb") as f:
                    f.write(fc.data if comp == "plain" else gz_bytes(fc.data, comp, fc.ebytes, fc.body))
                src = path
            else:
                src = fc.data if comp == "plain" else gz_bytes(fc.data, comp, fc.ebytes, fc.body)
            for lazy in lazies:
                whole, whole_exc = check_whole(col, fc, src, comp, lazy, via)
                for k in ks:
                    check_chunks(col, fc, src, comp, lazy, via, k, whole, whole_exc)
                if deadline is not None and time.time() > deadline:
                    return False
    return True


# ------------------------------------------------------------------------------------------------ enumeration
N4_QUICK = [(2, 2, 2, 2)]
N3_QUICK = [(1, 1, 1), (5, 2, 1), (2, 5, 2)]      # besides (1, 2, 5)
N4_THOROUGH = [(1, 1, 1, 1), (2, 2, 2, 2), (5, 5, 5, 5), (1, 2, 5, 1), (5, 2, 1, 2), (1, 5, 1, 5), (2, 1, 1, 5),
               (5, 1, 2, 2), (1, 1, 5, 2), (2, 5, 5, 1)]
PAIRS_LAZY_QUICK = [(1, 2), (5, 2)]
PAIRS_CRLF_QUICK = [(1, 2), (5, 1), (2, 5)]
N3_ALLK = [(1, 1, 1), (1, 2, 5), (5, 2, 1), (2, 5, 2), (5, 5, 1), (2, 1, 5)]
# size classes beyond {1, 2, 5}: Z = zero-length record (FASTA / FASTQ), W = wide numbers (delimited formats)
Z, W = ref.ZERO, ref.WIDE
ZERO_QUICK_FIRST = [(1, Z), (Z, 5, Z)]                   # eager and lazy
ZERO_QUICK = [(Z,), (Z, Z), (Z, 2), (2, Z, 5), (1, 2, Z)]
ZERO_QUICK_CRLF = [(1, Z), (Z, 2, Z)]
ZERO_QUICK_LOW = [(2, Z), (Z, 1, Z)]
WIDE_QUICK_FIRST = [(W, 2, 1, W)]
WIDE_QUICK_LAZY = [(W, W, 1, 1, W)]
WIDE_QUICK_CRLF = [(W, 1, W)]
WIDE_QUICK_LOW = [(W, 1, W)]
ZERO_N4 = [(Z, Z, Z, Z), (1, Z, Z, 2), (Z, 5, 2, Z), (5, Z, 1, Z), (2, 2, Z, 5), (Z, 1, 5, 1)]
WIDE_ALLK = [(W, 1, W), (W, 2, 1, W), (W, W, 1, 1, W)]
WIDE_NEAR_LAZY = [(W, 1), (W, W, 1)]
WIDE_NEAR = [(1, W), (2, W), (W, 1, 2), (W, 5, 1, W)]
WIDE_6 = [(W, 1, W, 1, 2, W)]
WIDE_CRLF = [(W, 1), (W, 2, 1, W)]
WIDE_LOW = [(W, 1, W)]


def plan(tier):
    """yield tasks (fmt, sizes, final_newline, crlf, comps, lazies, vias, ks) with ks = "all" | "near" | explicit list.
    Ordered by growing file size so that a run that hits the time budget has covered every format on the small files."""
    import itertools
    fmts = list(ref.FORMATS)
    both = ("plain", "gzip")

    def files(tuples, crlfs=(False, True)):
        for sizes in tuples:
            for fmt in fmts:
                for fnl in (True, False):
                    if not sizes and not fnl:
                        continue
                    for crlf in crlfs:
                        yield fmt, tuple(sizes), fnl, crlf

    def xfiles(tuples, crlfs=(False,), fnls=(True, False)):
        """files over the size classes ZERO / WIDE, for the formats that have the class.  A file whose LAST record is the
        zero-length one is only built with a final newline; SAM is left out of the CRLF files (every CRLF SAM read
        raises: the known whole-read defect, already reported by the classic cases)"""
        for sizes in tuples:
            for fmt in fmts:
                if not all(c in ref.FORMATS[fmt].size_classes for c in sizes):
                    continue
                for fnl in fnls:
                    if not fnl and sizes[-1] == Z:
                        continue
                    for crlf in crlfs:
                        if crlf and W in sizes and fmt.startswith("sam"):
                            continue
                        yield fmt, tuple(sizes), fnl, crlf

    singles = list(itertools.product(SIZES, repeat=1))
    pairs = list(itertools.product(SIZES, repeat=2))
    triples = list(itertools.product(SIZES, repeat=3))
    E, EL = (False,), (False, True)          # eager only / eager and lazy
    lf, cr = (False,), (True,)
    if tier == "quick":
        # every axis early, most discriminating files first: the budget may cut the end of the list on a loaded machine
        for f in files([(1, 2, 5)], lf):
            yield f + (both, EL, ("open",), "tight")
        for f in files([(1, 2, 5)], cr):
            yield f + (both, E, ("open",), "tight")
        # zero-length records (last / first / middle record) and numbers of width 1..2 and 9 in one column
        for f in xfiles(ZERO_QUICK_FIRST, lf):
            yield f + (both, EL, ("open",), "tight")
        for f in xfiles(WIDE_QUICK_FIRST, lf):
            yield f + (both, E, ("open",), "tight")
        for f in files([(1, 2, 5)], lf):
            yield f + (both, (None,), ("fileobj",), "tight")
            yield f + (("gzipm",), (False,), ("open",), "tight")
        for f in files(PAIRS_LAZY_QUICK, lf):
            yield f + (both, EL, ("open",), "tight")
        for f in files([(2,)] + PAIRS_CRLF_QUICK, cr):
            yield f + (both, E, ("open",), "tight")
        for f in files([()] + singles, lf):
            yield f + (both, EL if len(f[1]) == 0 or f[1] == (2,) else E, ("open",), "tight")
        for f in files([t for t in pairs if t not in PAIRS_LAZY_QUICK], lf):
            yield f + (both, E, ("open",), "tight")
        for f in files(N3_QUICK + N4_QUICK, lf):
            yield f + (both, E, ("open",), "tight")
        for f in xfiles(WIDE_QUICK_LAZY, lf, (True,)):
            yield f + (both, (True,), ("open",), "tight")
        for f in xfiles(ZERO_QUICK, lf):
            yield f + (both, E, ("open",), "tight")
        for f in xfiles(ZERO_QUICK_CRLF + WIDE_QUICK_CRLF, cr, (True,)):
            yield f + (both, E, ("open",), "tight")
        for f in xfiles(ZERO_QUICK_LOW + WIDE_QUICK_LOW, lf, (True,)):
            if W not in f[1]:
                yield f + (both, (None,), ("fileobj",), "tight")
            yield f + (("gzipm",), (False,), ("open",), "tight")
    else:
        def low_level(tuples, crlfs, lvl):
            # the low-level route (file objects, lazy left at its default) and gzip files with one member per entry
            for f in files(tuples, crlfs):
                yield f + (both, (None,), ("fileobj",), lvl)
                yield f + (("gzipm",), (False,), ("open",), lvl)

        def low_x(fs, lvl):
            for f in fs:
                yield f + (both, (None,), ("fileobj",), lvl)
                yield f + (("gzipm",), (False,), ("open",), lvl)
        for f in files([()] + singles, lf):
            yield f + (both, EL, ("open",), "all")
        for f in files([()] + singles, cr):
            yield f + (both, EL, ("open",), "near")
        for f in files(pairs, lf):
            yield f + (both, EL, ("open",), "all")
        for t in low_level([(5,), (2, 5), (1, 2, 5)], lf, "all"):
            yield t
        for f in files(N3_ALLK, lf):
            yield f + (both, EL, ("open",), "all")
        for f in files(pairs, cr):
            yield f + (both, E if sum(f[1]) % 2 else EL, ("open",), "near")
        for f in files(N4_THOROUGH, lf):
            yield f + (both, EL if f[1] in N4_THOROUGH[:6] else E, ("open",), "near")
        for t in low_level([(2, 5), (1, 2, 5)], cr, "near"):
            yield t
        for t in low_level([(1,), (5, 1, 2), (2, 2, 1, 5)], lf, "near"):
            yield t
        for f in files([t for t in triples if t not in N3_ALLK], lf):
            yield f + (both, EL, ("open",), "near")
        for f in files([t for t in triples if (t[0] + 2 * t[1] + t[2]) % 2 == 0], cr):
            yield f + (both, E, ("open",), "near")
        for f in files(N4_THOROUGH[3:8], cr):
            yield f + (both, E, ("open",), "near")
        # zero-length records: every tuple over {0, 1, 2, 5} of 1..3 records with at least one 0, every chunk size
        zc = (Z,) + SIZES
        zero_all = [t for n in (1, 2, 3) for t in itertools.product(zc, repeat=n) if Z in t]
        # (3 records: every chunk size for the tuples with an even sum, the neighbourhoods for the others)
        for f in xfiles([t for t in zero_all if len(t) < 3], lf):
            yield f + (both, EL, ("open",), "all")
        for f in xfiles([t for t in zero_all if len(t) == 3], lf):
            yield f + (both, E, ("open",), "all" if sum(f[1]) % 2 == 0 else "near")
        for f in xfiles([t for t in zero_all if len(t) == 3 and sum(t) % 3 == 0], lf):
            yield f + (both, (True,), ("open",), "near")
        for f in xfiles(ZERO_N4, lf):
            yield f + (both, EL if f[1] in ZERO_N4[:3] else E, ("open",), "near")
        for f in xfiles([t for t in zero_all if len(t) < 3 or sum(t) % 4 == 0], cr):
            yield f + (both, E, ("open",), "near")
        for t in low_x(xfiles([(Z,), (2, Z), (Z, 5), (Z, 1, Z), (1, 2, Z)], lf), "all"):
            yield t
        # numbers of width 1..2 and 9 in one column
        for f in xfiles(WIDE_ALLK, lf):
            if len(f[1]) < 5 or f[2]:
                yield f + (both, E, ("open",), "all")
        for f in xfiles(WIDE_NEAR_LAZY, lf):
            yield f + (both, EL, ("open",), "near")
        for f in xfiles(WIDE_NEAR, lf):
            yield f + (both, E, ("open",), "near")
        for f in xfiles(WIDE_6, lf, (True,)):
            yield f + (both, (True,), ("open",), "near")
        for f in xfiles(WIDE_CRLF, cr):
            yield f + (both, E, ("open",), "near")
        for t in low_x(xfiles(WIDE_LOW, lf), "near"):
            yield t


def sampled_tasks(rng, tier):
    """above the exhaustive bounds: seeded larger files (5..12 entries, size classes drawn at random) with a seeded
    sample of chunk sizes plus the divisors of file / body / last-entry size"""
    fmts = list(ref.FORMATS)
    n_files = 16 if tier == "quick" else 96
    for j in range(n_files):
        fmt = fmts[j % len(fmts)]
        sizes = tuple(rng.choice(SIZES) for _ in range(rng.randint(5, 12)))
        fnl, crlf = rng.random() < 0.5, rng.random() < 0.3
        fc = FileCase(fmt, sizes, fnl, crlf)
        n = len(fc.data)
        ks = set(rng.randint(1, n + 2) for _ in range(10 if tier == "quick" else 40))
        ks |= set([d for d in range(1, n + 1) if (n % d == 0 or fc.tail % d == 0 or fc.body_size % d == 0)][:16])
        yield fmt, sizes, fnl, crlf, ("plain", "gzip"), (bool(j % 2),), ("open",), sorted(ks)


def sampled_tasks_x(rng, tier):
    """the same above the bounds for the size classes ZERO / WIDE: seeded files of 5..12 entries over the classes of the
    format; FASTA / FASTQ files end in a zero-length record every other time (then with a final newline), delimited
    files begin with a wide line (so read() has the short lines far from the start of its buffer)"""
    fmts = list(ref.FORMATS)
    n_files = 16 if tier == "quick" else 64
    for j in range(n_files):
        fmt = fmts[j % len(fmts)]
        classes = ref.FORMATS[fmt].size_classes
        if Z in classes:
            pool = (Z, Z, 1, 2, 5)
        else:
            pool = (W, 1, 1, 2)
        sizes = [rng.choice(pool) for _ in range(rng.randint(5, 12))]
        fnl = rng.random() < 0.5
        if Z in classes:
            if (j // len(fmts)) % 2 == 0:
                sizes[-1] = Z
            if sizes[-1] == Z:
                fnl = True
        else:
            sizes[0] = W
        sizes = tuple(sizes)
        fc = FileCase(fmt, sizes, fnl, False)
        n = len(fc.data)
        ks = set(rng.randint(1, n + 2) for _ in range(8 if tier == "quick" else 30))
        ks |= set([d for d in range(1, n + 1) if (n % d == 0 or fc.tail % d == 0 or fc.body_size % d == 0)][:10])
        ks |= {n + 2}
        yield fmt, sizes, fnl, False, ("plain", "gzip"), (bool(j % 2),), ("open",), sorted(ks)


def _work(args):
    task, tier, deadline = args
    if time.time() > deadline:
        return None
    import logging
    logging.disable(logging.WARNING)        # the VCF reader logs a warning per chunk (worker process only)
    fmt, sizes, fnl, crlf, comps, lazies, vias, ks = task
    col = Collector("C01", tier, 0, "worker")
    fc = FileCase(fmt, sizes, fnl, crlf)
    if isinstance(ks, str):
        ks = fc.chunk_sizes(ks)
    with TmpDir() as tmp:
        complete = run_file(col, tmp, fc, ks, comps, lazies, vias, deadline)
    return {"evaluations": col.evaluations, "distinct": list(col._distinct), "contracts": col.contract_evaluations,
            "failures": col.failures, "samples": col.samples[:1], "complete": complete}


def _merge(col, r):
    col.evaluations += r["evaluations"]
    col._distinct.update(r["distinct"])
    for k, v in r["contracts"].items():
        col.contract_evaluations[k] = col.contract_evaluations.get(k, 0) + v
    for f in r["failures"]:
        if f["signature"] in col._fail_sigs:
            for g in col.failures:
                if g["signature"] == f["signature"]:
                    g["count"] += f["count"]
        else:
            col._fail_sigs.add(f["signature"])
            col.failures.append(dict(f))
    if len(col.samples) < 5 and r["samples"] and (len(col._distinct) // 997) >= len(col.samples):
        col.samples += r["samples"]


def run(tier="quick", seed=0):
    col = Collector("C01", tier, seed,
                    "exhaustive: format x tuple of per-entry size classes {1,2,5}^n x final newline x line end x compression x "
                    "lazy/eager x min_chunk_size; a case is one (file, open mode, min_chunk_size) read; distinct = distinct such "
                    "triples; non-trivial = file has at least one entry",
                    budget_s=(55 if tier == "quick" else 570))
    workers = max(1, min(8, (os.cpu_count() or 2) // 2))
    col.bounds = {"formats": list(ref.FORMATS),
                  "entries": ("0..2: every tuple of size classes {1,2,5}; 3: %r; 4: %r" % ([(1, 2, 5)] + N3_QUICK, N4_QUICK)) if tier == "quick" else
                             ("0..3: every tuple of size classes {1,2,5}; 4: %r" % (N4_THOROUGH,)),
                  "min_chunk_size": "quick: 1..4 and divisors / -1,+1,+2 neighbours of file size, header size, body size, entry sizes, entry offsets"
                                    if tier == "quick" else
                                    "every value 1..size+2 for files of <= 2 entries and for the 3-entry tuples %r; the quick neighbourhoods for the other files" % (N3_ALLK,),
                  "final_newline": [True, False], "line_end": ["LF", "CRLF"],
                  "compression": ["plain", "gzip", "gzip with one member per entry (subset)"],
                  "lazy": [False, True, "default (file-object route)"] if tier != "quick" else "eager everywhere; lazy on LF files: 0..1 entries, pairs %r, (1,2,5)" % (PAIRS_LAZY_QUICK,),
                  "route": ["bnp.open(path)", "NpDataclassReader(NumpyFileReader(file object)) on a subset"],
                  "sampled": "seeded files of 5..12 entries, seeded chunk sizes + divisors of file/body/last-entry size",
                  "zero_length_records": ("FASTA/FASTQ files with size class 0 (empty sequence / quality line): %r, CRLF %r, low-level route %r; "
                                          "a last zero-length record only with a final newline"
                                          % (ZERO_QUICK_FIRST + ZERO_QUICK, ZERO_QUICK_CRLF, ZERO_QUICK_LOW)) if tier == "quick" else
                                         ("every tuple over {0,1,2,5} of 1..3 records with a 0 (every chunk size; 3 records with an odd sum and CRLF: near), 4 records: %r" % (ZERO_N4,)),
                  "mixed_width_numbers": ("delimited files with size class 9 (1-letter names, 9-digit coordinates; GTF 10 digits) next to 1 and 2: %r"
                                          % (WIDE_QUICK_FIRST + WIDE_QUICK_LAZY + WIDE_QUICK_CRLF + WIDE_QUICK_LOW,)) if tier == "quick" else
                                         ("every chunk size: %r; near: %r; CRLF (not SAM): %r" % (WIDE_ALLK, WIDE_NEAR_LAZY + WIDE_NEAR + WIDE_6, WIDE_CRLF)),
                  "sampled_new_classes": "seeded files of 5..12 entries over {0,1,2,5} (FASTA/FASTQ) / {9,1,2} (delimited, first line wide)",
                  "worker_processes": workers}
    deadline = col.t0 + col.budget_s
    tasks = list(plan(tier))
    # the sampled larger files early (they are few), but after the first small files so that the first recorded
    # failure of a class is a small one
    tasks[64:64] = list(sampled_tasks(col.rng, tier))
    xs = list(sampled_tasks_x(col.rng, tier))       # drawn after the classic sample: that one stays what it was
    at = 160 if tier == "quick" else len(tasks)
    tasks[at:at] = xs
    args = [(t, tier, deadline) for t in tasks]
    pool = None
    try:
        import multiprocessing
        pool = multiprocessing.get_context("fork").Pool(workers) if workers > 1 else None
    except Exception:
        pool = None
    try:
        results = pool.imap(_work, args, chunksize=4) if pool is not None else map(_work, args)
        for r in results:
            if r is None:
                col.exhaustive = False
                continue
            if not r["complete"]:
                col.exhaustive = False
            _merge(col, r)
    finally:
        if pool is not None:
            pool.terminate()
            pool.join()
    if not col.samples and tasks:
        col.samples.append({"task": list(tasks[0][:4])})
    return col.result()


def replay(case):
    import logging
    col = Collector("C01", "quick", 0, "replay")
    fc = FileCase(case["fmt"], tuple(case["sizes"]), case["final_newline"], case["crlf"])
    comp, lazy, via = case["comp"], case["lazy"], case.get("via", "open")
    logging.disable(logging.WARNING)
    try:
        with TmpDir() as tmp:
            if via == "open":
                src = os.path.join(tmp, "f%s%s" % (fc.spec.suffix, "" if comp == "plain" else ".gz"))
                with open(src, "wb") as f:
                    f.write(fc.data if comp == "plain" else gz_bytes(fc.data, comp, fc.ebytes, fc.body))
            else:
                src = fc.data if comp == "plain" else gz_bytes(fc.data, comp, fc.ebytes, fc.body)
            whole, whole_exc = check_whole(col, fc, src, comp, lazy, via)
            if "min_chunk_size" in case:
                check_chunks(col, fc, src, comp, lazy, via, case["min_chunk_size"], whole, whole_exc)
    finally:
        logging.disable(logging.NOTSET)
    if col.failures:
        return False, "; ".join(f["signature"] + ": " + f["message"] for f in col.failures)
    return True, "ok (file %r)" % (fc.data[:80],)
