"""C01 bounded stand-in: chunked reading loses, duplicates or reorders no entry, for any chunk size.

Scope: every text format of the property (two-line FASTA through both buffer classes, wrapped FASTA of widths 1..3,
FASTQ, BED3 (with and without comment header), BED6, bedGraph, narrowPeak, VCF (8 columns / with sample columns),
SAM (with / without header), GTF) x files of 0..4 entries whose variable fields have size class 1, 2 or 5
x {final newline, none} x {LF, CRLF} x {plain, gzip (one member / one member per line group)} x {eager, lazy}
x min_chunk_size 1 .. size + 2 (quick: the divisor / boundary neighbourhoods only).
Contracts evaluated on the real `bnp.open(path).read_chunks(k)` / `.read()` (and on
`NpDataclassReader(NumpyFileReader(BytesIO, buffer))`):
  whole-read     read() gives the entries the generator wrote (reference = plain Python values, refmodels/c01_files.py)
  read_chunks    a read that completes gives, chunk after chunk, exactly those entries (field by field), no chunk
                 is empty; an exception is accepted only when the chunk size cannot hold the longest entry
"""
import gzip
import io
import math
import os

from .common import Collector, TmpDir, to_py
from .refmodels import c01_files as ref

SIZES = (1, 2, 5)


# ------------------------------------------------------------------------------------------------ observation
def entries_of(data, spec):
    """bionumpy data object (eager or lazy) -> list of tuples of plain Python values, one per entry"""
    n = len(data)
    cols = []
    for f in spec.fields:
        v = to_py(getattr(data, f))
        if isinstance(v, str):          # 1-d EncodedArray (one character per entry, e.g. strand)
            v = list(v)
        v = list(v)
        if len(v) != n:
            raise AssertionError("field %s has %d values for %d entries" % (f, len(v), n))
        cols.append(v)
    return [tuple(c[j] for c in cols) for j in range(n)]


def same_entry(a, b, spec):
    if len(a) != len(b):
        return False
    for f, x, y in zip(spec.fields, a, b):
        if f in spec.float_fields:
            if not (isinstance(x, float) and isinstance(y, float) and math.isclose(x, y, rel_tol=1e-9, abs_tol=1e-12)):
                return False
        elif x != y or type(x) is not type(y):
            return False
    return True


def same_entries(a, b, spec):
    return len(a) == len(b) and all(same_entry(x, y, spec) for x, y in zip(a, b))


def _is_subsequence(small, big, spec):
    it = iter(big)
    return all(any(same_entry(x, y, spec) for y in it) for x in small)


def classify(got, exp, spec):
    """how `got` differs from `exp`"""
    if len(got) < len(exp):
        if same_entries(got, exp[:len(got)], spec):
            return "lost-tail"
        if _is_subsequence(got, exp, spec):
            return "lost-entries"
        return "fewer-and-different-entries"
    if len(got) > len(exp):
        if _is_subsequence(exp, got, spec):
            return "extra-entries"
        return "more-and-different-entries"
    rest = list(exp)
    for g in got:
        for j, e in enumerate(rest):
            if same_entry(g, e, spec):
                del rest[j]
                break
    if not rest:
        return "reordered"
    return "different-entries"


def open_reader(path_or_bytes, spec, comp, lazy, via):
    import bionumpy as bnp
    import bionumpy.io as bio
    from bionumpy.io import delimited_buffers, one_line_buffer
    bt = None
    if spec.buffer_type:
        bt = getattr(delimited_buffers, spec.buffer_type, None) or getattr(one_line_buffer, spec.buffer_type)
    if via == "open":
        return bnp.open(path_or_bytes, buffer_type=bt, lazy=lazy)
    # the documented low-level route: a reader over any file object
    from bionumpy.io.parser import NumpyFileReader
    from bionumpy.io.npdataclassreader import NpDataclassReader
    from bionumpy.io.files import buffer_types
    if bt is None:
        bt = buffer_types[spec.suffix]
    if comp == "plain":
        fr = NumpyFileReader(io.BytesIO(path_or_bytes), bt)
    else:
        fr = NumpyFileReader(gzip.GzipFile(fileobj=io.BytesIO(path_or_bytes), mode="rb"), bt)
        fr.set_prepend_mode()
    return NpDataclassReader(fr, lazy=lazy)


def gz_bytes(data, comp, ebytes, body):
    if comp == "gzip":
        return gzip.compress(data, mtime=0)
    # "gzipm": several gzip members (what bgzip / `cat a.gz b.gz` produce): header+first entry, then the rest one by one
    parts = [data[:body + (len(ebytes[0]) if ebytes else 0)]] + [e for e in ebytes[1:]]
    return b"".join(gzip.compress(p, mtime=0) for p in parts if p) or gzip.compress(b"", mtime=0)


# ------------------------------------------------------------------------------------------------ one file
class FileCase:
    def __init__(self, fmt, sizes, final_newline, crlf):
        self.fmt, self.sizes, self.final_newline, self.crlf = fmt, list(sizes), final_newline, crlf
        self.spec = ref.FORMATS[fmt]
        self.data, self.body, self.ebytes, self.refs = ref.build(fmt, sizes, final_newline, crlf)
        self.body_size = len(self.data) - self.body
        self.max_entry = max([len(e) for e in self.ebytes] + [0])
        self.tail = len(self.ebytes[-1]) if self.ebytes else 0

    def chunk_sizes(self, tier, all_sizes):
        n = len(self.data)
        if all_sizes:
            return list(range(1, n + 3))
        ks = {1, 2, 3, 4}
        bounds = [0]
        for e in self.ebytes:
            bounds.append(bounds[-1] + len(e))
        interesting = set(bounds) | {len(e) for e in self.ebytes} | {n, self.body_size, self.tail, self.body}
        interesting |= {self.body + b for b in bounds} | {self.body_size - b for b in bounds}
        for v in interesting:
            if v <= 0:
                continue
            for d in range(1, v + 1):
                if v % d == 0 and (d <= 8 or v // d <= 3):
                    ks.add(d)
            ks |= {v - 1, v + 1, v + 2}
        return sorted(k for k in ks if 1 <= k <= n + 2)

    def pending_tail_aligned(self, comp, k):
        """the input class of the known lost-tail defect: the last entry is completed only by the end of the file
        (no final newline; for FASTA read as multi-line, always) and the raw reads end exactly at the end of file"""
        if not self.ebytes:
            return False
        needs_eof = (not self.final_newline) or (self.spec.suffix in (".fa", ".fasta") and not self.spec.buffer_type)
        if not needs_eof:
            return False
        return (self.tail % k == 0) if comp == "plain" else (self.body_size % k == 0)

    def case(self, comp, lazy, via, k=None):
        c = {"fmt": self.fmt, "sizes": self.sizes, "final_newline": self.final_newline, "crlf": self.crlf,
             "comp": comp, "lazy": lazy, "via": via}
        if k is not None:
            c["min_chunk_size"] = k
        return c

    def sig_tail(self, comp):
        return "%s:%s:%s%s" % (self.fmt, "plain" if comp == "plain" else comp,
                               "final-newline" if self.final_newline else "no-final-newline", ":crlf" if self.crlf else "")


def check_whole(col, fc, src, comp, lazy, via):
    """contract whole-read; returns the entries read() gave (None when it failed)"""
    case = fc.case(comp, lazy, via)
    col.case({"k": "read", **case}, nontrivial=bool(fc.refs), contract="whole-read")

    def do():
        r = open_reader(src, fc.spec, comp, lazy, via)
        try:
            return entries_of(r.read(), fc.spec)
        finally:
            r.close()
    got = col.guarded(do, "whole-read:" + fc.sig_tail(comp), case)
    if got is None:
        return None
    if not same_entries(got, fc.refs, fc.spec):
        col.fail("whole-read:%s:%s" % (classify(got, fc.refs, fc.spec), fc.sig_tail(comp)), case,
                 "read() gave %r, the file holds %r" % (got[:5], fc.refs[:5]))
    return got


def check_chunks(col, fc, src, comp, lazy, via, k, whole):
    case = fc.case(comp, lazy, via, k)
    col.case({"k": "chunks", **case}, nontrivial=len(fc.refs) > 0, contract="read_chunks")
    try:
        r = open_reader(src, fc.spec, comp, lazy, via)
        try:
            per_chunk = [entries_of(c, fc.spec) for c in r.read_chunks(min_chunk_size=k)]
        finally:
            r.close()
    except Exception as e:
        # "A chunk size too small to hold one entry may raise an error": accepted only then
        if k < fc.max_entry + 2:
            return "raised-small-chunk"
        col.fail("read_chunks:exception-with-sufficient-chunk-size:%s:%s" % (type(e).__name__, fc.sig_tail(comp)), case,
                 "%s: %s (longest entry %d bytes, min_chunk_size %d)" % (type(e).__name__, str(e)[:200], fc.max_entry, k))
        return "raised"
    got = [e for ch in per_chunk for e in ch]
    # the statement: equal to what reading the whole file at once gives; that in turn was compared with the
    # reference, so when read() itself is off (reported by whole-read) the chunks are still judged against read()
    exp = whole if whole is not None else fc.refs
    if not same_entries(got, exp, fc.spec):
        kind = classify(got, exp, fc.spec)
        if kind == "lost-tail" and len(got) == len(exp) - 1 and fc.pending_tail_aligned(comp, k):
            sig = "read_chunks:lost-tail:unterminated-last-entry-ends-on-chunk-multiple:%s" % ("plain" if comp == "plain" else "gzip")
        else:
            sig = "read_chunks:%s:%s" % (kind, fc.sig_tail(comp))
        col.fail(sig, case, "chunks %r concatenate to %d entries %r; read() gives %d entries %r" %
                 ([len(c) for c in per_chunk], len(got), got[:5], len(exp), exp[:5]))
        return kind
    if any(len(c) == 0 for c in per_chunk):
        col.fail("read_chunks:empty-chunk-in-stream:" + fc.sig_tail(comp), case, "chunk lengths %r" % [len(c) for c in per_chunk])
    return "ok"


def run_file(col, tmp, fc, tier, comps, lazies, vias, all_sizes):
    ks = fc.chunk_sizes(tier, all_sizes)
    for comp in comps:
        for via in vias:
            if via == "open":
                path = os.path.join(tmp, "f%s%s" % (fc.spec.suffix, "" if comp == "plain" else ".gz"))
                with open(path, "wb") as f:
                    f.write(fc.data if comp == "plain" else gz_bytes(fc.data, comp, fc.ebytes, fc.body))
                src = path
            else:
                src = fc.data if comp == "plain" else gz_bytes(fc.data, comp, fc.ebytes, fc.body)
            for lazy in lazies:
                whole = check_whole(col, fc, src, comp, lazy, via)
                for k in ks:
                    check_chunks(col, fc, src, comp, lazy, via, k, whole)
        if col.out_of_time():
            return False
    return True


# ------------------------------------------------------------------------------------------------ enumeration
def size_tuples(tier):
    import itertools
    yield ()
    maxn_full = 2 if tier == "quick" else 3
    for n in range(1, maxn_full + 1):
        for t in itertools.product(SIZES, repeat=n):
            yield t
    if tier == "quick":
        for t in [(1, 1, 1), (5, 2, 1), (1, 2, 5), (2, 5, 2), (2, 2, 2, 2), (1, 5, 1, 2)]:
            yield t
    else:
        for t in [(1, 1, 1, 1), (2, 2, 2, 2), (5, 5, 5, 5), (1, 2, 5, 1), (5, 2, 1, 2), (1, 5, 1, 5), (2, 1, 1, 5),
                  (5, 1, 2, 2), (1, 1, 5, 2), (2, 5, 5, 1)]:
            yield t


def plan(tier):
    """yield (fmt, sizes, final_newline, crlf, comps, lazies, vias, all_chunk_sizes)"""
    fmts = list(ref.FORMATS)
    for sizes in size_tuples(tier):
        for fmt in fmts:
            for final_newline in (True, False):
                if not sizes and not final_newline and not ref.FORMATS[fmt].header:
                    continue
                for crlf in (False, True):
                    if tier == "quick":
                        # quick: the neighbourhood chunk sizes; eager+lazy on LF files, eager only on CRLF
                        yield fmt, sizes, final_newline, crlf, ("plain", "gzip"), ((False, True) if not crlf else (False,)), ("open",), False
                    else:
                        yield fmt, sizes, final_newline, crlf, ("plain", "gzip"), (False, True), ("open",), len(sizes) <= 3
    # the low-level route (file objects) and multi-member gzip on a smaller family
    extra = [(2, 5), (1, 2, 5), (5, 1)] if tier == "quick" else [(1,), (5,), (2, 5), (5, 2), (1, 2, 5), (5, 1, 2), (2, 2, 1, 5)]
    for sizes in extra:
        for fmt in fmts:
            for final_newline in (True, False):
                for crlf in ((False,) if tier == "quick" else (False, True)):
                    yield fmt, sizes, final_newline, crlf, ("plain", "gzip"), (None,), ("fileobj",), tier != "quick"
                    yield fmt, sizes, final_newline, crlf, ("gzipm",), (False,), ("open",), tier != "quick"


def sampled_larger(col, tmp, tier):
    """above the exhaustive bounds: seeded larger files (5..12 entries, size classes drawn at random), a seeded
    sample of chunk sizes"""
    fmts = list(ref.FORMATS)
    n_files = 12 if tier == "quick" else 60
    for j in range(n_files):
        fmt = fmts[j % len(fmts)] if j < len(fmts) else col.rng.choice(fmts)
        sizes = tuple(col.rng.choice(SIZES) for _ in range(col.rng.randint(5, 12)))
        fc = FileCase(fmt, sizes, col.rng.random() < 0.5, col.rng.random() < 0.3)
        n = len(fc.data)
        ks = sorted(set(fc.chunk_sizes(tier, False)[:0] + [col.rng.randint(1, n + 2) for _ in range(12 if tier == "quick" else 40)]
                        + [d for d in range(1, n + 1) if (n % d == 0 or fc.tail % d == 0 or fc.body_size % d == 0)][:20]))
        for comp in ("plain", "gzip"):
            path = os.path.join(tmp, "s%s%s" % (fc.spec.suffix, "" if comp == "plain" else ".gz"))
            with open(path, "wb") as f:
                f.write(fc.data if comp == "plain" else gz_bytes(fc.data, comp, fc.ebytes, fc.body))
            lazy = bool(j % 2)
            whole = check_whole(col, fc, path, comp, lazy, "open")
            for k in ks:
                check_chunks(col, fc, path, comp, lazy, "open", k, whole)
        if col.out_of_time():
            return


def run(tier="quick", seed=0):
    col = Collector("C01", tier, seed,
                    "exhaustive: format x tuple of per-entry size classes {1,2,5}^n x final newline x line end x compression x "
                    "lazy/eager x min_chunk_size; a case is one (file, open mode, min_chunk_size) read; distinct = distinct such "
                    "triples; non-trivial = file has at least one entry",
                    budget_s=(55 if tier == "quick" else 560))
    col.bounds = {"formats": list(ref.FORMATS), "entries": "0..4 (n<=%d: every size tuple over {1,2,5}; above: a fixed list)" % (2 if tier == "quick" else 3),
                  "min_chunk_size": "quick: divisors / +-1,+2 neighbourhoods of file size, body size, entry sizes, entry offsets, plus 1..4; "
                                    "thorough: every value 1..size+2 for files of <= 3 entries, neighbourhoods for 4 entries",
                  "final_newline": [True, False], "line_end": ["LF", "CRLF"], "compression": ["plain", "gzip", "gzip multi-member (subset)"],
                  "lazy": [False, True, "None on the file-object route"], "route": ["bnp.open(path)", "NpDataclassReader(NumpyFileReader(file object)) (subset)"],
                  "sampled": "seeded files of 5..12 entries with seeded chunk sizes"}
    with TmpDir() as tmp:
        done = True
        # the sample of larger files first in the quick tier (cheap), the exhaustive plan takes the rest of the budget
        sampled_larger(col, tmp, tier)
        for fmt, sizes, fnl, crlf, comps, lazies, vias, all_sizes in plan(tier):
            fc = FileCase(fmt, sizes, fnl, crlf)
            if not run_file(col, tmp, fc, tier, comps, lazies, vias, all_sizes):
                done = False
                break
        if not done:
            col.exhaustive = False
    return col.result()


def replay(case):
    col = Collector("C01", "quick", 0, "replay")
    fc = FileCase(case["fmt"], tuple(case["sizes"]), case["final_newline"], case["crlf"])
    comp, lazy, via = case["comp"], case["lazy"], case.get("via", "open")
    with TmpDir() as tmp:
        if via == "open":
            src = os.path.join(tmp, "f%s%s" % (fc.spec.suffix, "" if comp == "plain" else ".gz"))
            with open(src, "wb") as f:
                f.write(fc.data if comp == "plain" else gz_bytes(fc.data, comp, fc.ebytes, fc.body))
        else:
            src = fc.data if comp == "plain" else gz_bytes(fc.data, comp, fc.ebytes, fc.body)
        whole = check_whole(col, fc, src, comp, lazy, via)
        if "min_chunk_size" in case:
            check_chunks(col, fc, src, comp, lazy, via, case["min_chunk_size"], whole)
    if col.failures:
        return False, "; ".join(f["signature"] + ": " + f["message"] for f in col.failures)
    return True, "ok (file %r)" % (fc.data[:80],)
