"""C18 bounded stand-in: numbers survive conversion between text and arrays.

Run-time contracts evaluated on the real bionumpy functions, oracle = Python `str`, `int`, `float`,
`str.join`, `str.split`:

  ints_to_strings(x)[i]              == str(x[i])                       (canonical decimal text)
  int_to_str(v)                      == str(v)                          (v >= 0, scalar helper)
  str_to_int(t)[i]                   == int(t[i])                       (sign, '+', leading zeros; ragged, 2-D digit
                                                                         matrix, *_with_missing paths; parsing twice)
  int_lists_to_strings(rows)[i]      == sep.join(str(v) for v in rows[i])  (+ keep_last, sep="")
  BED / BED6 / BED12 / bedGraph files: integer, Optional[int], List[int] and float columns read == int()/float() of
                                       the tokens; written text == "\t".join(str(..)); written float tokens denote
                                       the double exactly
  matrix_to_csv / parse_matrix       == join / split of str/int/float
  str_to_float(t)[i]                 within 4 ulp of float(t[i])        (1..17 significant digits, sign, every point
                                                                         position, exponent -300..300)
  str_to_float(float_to_strings(d))  == d  and  float(float_to_strings(d)[i]) == d[i]
  independence                       row i of a batch == the result for that row alone (bit-exact), for whole
                                       batches, every ordered pair, every permutation and every sub-batch of small
                                       base batches
  rejection                          a byte that is not part of a decimal number is not parsed as a digit

Scope: 0, +-(10^d + k) for d = 0..18, k = -2..2, the int64 extremes, powers of two; widths 1..19 mixed in one
batch; seeded random values above the bounds.
"""
import itertools
import math
import os
import struct

from .common import Collector, TmpDir

PID = "C18"
I64MAX = 2 ** 63 - 1
I64MIN = -2 ** 63
ULP_TOL = 4

_single = {}


# ----------------------------------------------------------------------------------------------- helpers

def _rows(x):
    return [r.to_string() for r in x]


def _ordv(f):
    i = struct.unpack("<q", struct.pack("<d", f))[0]
    return i if i >= 0 else -(i & 0x7FFFFFFFFFFFFFFF)


def ulps(a, b):
    return abs(_ordv(a) - _ordv(b))


def _bits(f):
    return struct.unpack("<q", struct.pack("<d", f))[0]


def fmt_class(v, got):
    """signature suffix for a wrong formatted integer"""
    exp = str(v)
    if v == I64MIN:
        return "int64-min"
    body = got[1:] if got[:1] == "-" else got
    if (got[:1] == "-") != (v < 0):
        return "sign"
    if body != "" and body.isdigit() and body.lstrip("0") == str(abs(v)).lstrip("0") and len(body) > len(str(abs(v))):
        d = len(str(abs(v)))
        gap = 10 ** d - abs(v)
        if d >= 15 and gap * 10 ** 14 <= 10 ** d:
            return "leading-zero:just-below-10^d:d>=15"
        return "leading-zero:elsewhere"
    if len(got) < len(exp):
        return "digits-lost"
    if len(got) > len(exp):
        return "too-long"
    return "wrong-digits"


def text_variant(t):
    parts = []
    body = t
    if t[:1] == "-":
        parts.append("neg")
        body = t[1:]
    elif t[:1] == "+":
        parts.append("plus")
        body = t[1:]
    if len(body) > 1 and body[0] == "0":
        parts.append("leading-zeros")
    if len(body.lstrip("0")) >= 19:
        parts.append("w19")
    return "+".join(parts) if parts else "plain"


def float_class(t, got, exp):
    form = "scientific" if "e" in t else "decimal"
    if got != got or got in (float("inf"), float("-inf")):
        return form + ":non-finite"
    if exp == 0 or got == 0:
        return form + ":wrong-value"
    if (got < 0) != (exp < 0):
        return form + ":wrong-sign"
    r = got / exp
    k = round(math.log10(r)) if r > 0 else 0
    if k != 0 and abs(r / 10.0 ** k - 1) < 1e-9:
        return form + ":wrong-power-of-ten"
    if abs(r - 1) < 1e-12:
        return form + ":ulp-error>%d" % ULP_TOL
    return form + ":wrong-value"


def check_int_rows(col, case, prefix, vals, got_rows):
    """got_rows: list of str; vals: list of int"""
    if not col.check(len(got_rows) == len(vals), prefix + ":row-count", case, "got %d rows for %d values" % (len(got_rows), len(vals))):
        return
    for v, g in zip(vals, got_rows):
        if g != str(v):
            col.fail(prefix + ":" + fmt_class(v, g), case, "value %d formatted as %r, expected %r" % (v, g, str(v)))


# ----------------------------------------------------------------------------------------------- case evaluators

def ev_fmt(col, case, tmp):
    import numpy as np
    from bionumpy.io.strops import ints_to_strings
    vals = case["vals"]
    col.case(case, contract="ints_to_strings")
    got = col.guarded(lambda: _rows(ints_to_strings(np.array(vals, dtype=np.int64))), "ints_to_strings", case)
    if got is None:
        return
    check_int_rows(col, case, "ints_to_strings", vals, got)
    if len(vals) > 1 and len(got) == len(vals):
        for v, g in zip(vals, got):
            if v not in _single:
                try:
                    _single[v] = _rows(ints_to_strings(np.array([v], dtype=np.int64)))[0]
                except Exception:
                    _single[v] = None
            s = _single[v]
            if s is not None and s != g:
                col.fail("ints_to_strings:row-depends-on-batch", case, "value %d alone -> %r, in this batch -> %r" % (v, s, g))


def ev_int_to_str(col, case, tmp):
    from bionumpy.io.strops import int_to_str
    v = case["v"]
    col.case(case, contract="int_to_str")
    got = col.guarded(lambda: int_to_str(v).to_string(), "int_to_str", case)
    if got is not None and got != str(v):
        col.fail("int_to_str:" + fmt_class(v, got), case, "value %d formatted as %r" % (v, got))


def _encode_texts(texts, path):
    import numpy as np
    from bionumpy.encoded_array import as_encoded_array, EncodedArray
    from bionumpy.encodings import BaseEncoding
    if path == "2d":
        return EncodedArray(np.array([[ord(c) for c in t] for t in texts], dtype=np.uint8), BaseEncoding)
    if path == "1d":
        return as_encoded_array(texts[0])
    return as_encoded_array(list(texts))


def _parse_fn(path):
    from bionumpy.io import strops
    return strops.str_to_int_with_missing if path == "with_missing" else strops.str_to_int


def ev_parse(col, case, tmp):
    import numpy as np
    texts, path = case["texts"], case.get("path", "ragged")
    fn = _parse_fn(path)
    col.case(case, contract="str_to_int:" + path)
    enc = col.guarded(lambda: _encode_texts(texts, path), "str_to_int:%s:encode-input" % path, case)
    if enc is None:
        return
    got = col.guarded(lambda: np.atleast_1d(fn(enc)).tolist(), "str_to_int:%s" % path, case)
    if got is None:
        return
    exp = [int(t) for t in texts]
    if not col.check(len(got) == len(exp), "str_to_int:%s:row-count" % path, case, "got %r" % (got,)):
        return
    for t, g, e in zip(texts, got, exp):
        if g != e:
            col.fail("str_to_int:%s:wrong-value:%s" % (path, text_variant(t)), case, "text %r parsed as %r, expected %r" % (t, g, e))
    # parsing the same array object a second time must give the same values (the input is not consumed)
    got2 = col.guarded(lambda: np.atleast_1d(fn(enc)).tolist(), "str_to_int:%s:second-parse" % path, case)
    if got2 is not None and got2 != got:
        col.fail("str_to_int:%s:second-parse-differs(input-modified)" % path, case, "first %r second %r" % (got, got2))
    if len(texts) > 1 and path == "ragged":
        for t, g in zip(texts, got):
            key = ("p", t)
            if key not in _single:
                try:
                    _single[key] = np.atleast_1d(fn(_encode_texts([t], path))).tolist()[0]
                except Exception:
                    _single[key] = None
            s = _single[key]
            if s is not None and s != g:
                col.fail("str_to_int:row-depends-on-batch", case, "text %r alone -> %r, in this batch -> %r" % (t, s, g))


def ev_joinlists(col, case, tmp):
    import numpy as np
    from npstructures import RaggedArray
    from bionumpy.io.strops import int_lists_to_strings
    rows, sep, keep_last = case["rows"], case["sep"], case["keep_last"]
    col.case(case, contract="int_lists_to_strings")
    flat = np.array([v for r in rows for v in r], dtype=np.int64)
    ra = RaggedArray(flat, [len(r) for r in rows])
    empty = any(len(r) == 0 for r in rows)
    tag = "int_lists_to_strings" + (":sep-empty" if sep == "" else "") + (":keep_last" if keep_last else "") + (":with-empty-row" if empty else "")
    if sep == "":
        got = col.guarded(lambda: _rows(int_lists_to_strings(ra, sep="")), tag, case)
        exp = ["".join(str(v) for v in r) for r in rows]
    else:
        got = col.guarded(lambda: _rows(int_lists_to_strings(ra, sep=sep, keep_last=keep_last)), tag, case)
        exp = ["".join(str(v) + sep for v in r) if keep_last else sep.join(str(v) for v in r) for r in rows]
    if got is None:
        return
    if got != exp:
        sub = "wrong-join"
        for r, g in zip(rows, got):
            parts = g.split(sep) if sep else list(g)
            if keep_last and sep and parts and parts[-1] == "":
                parts = parts[:-1]
            if len(parts) == len(r) and any(p != str(v) for p, v in zip(parts, r)):
                bad = [(v, p) for p, v in zip(parts, r) if p != str(v)][0]
                sub = "element:" + fmt_class(bad[0], bad[1])
                break
        if len(got) != len(exp):
            sub = "row-count"
        col.fail(tag + ":" + sub, case, "got %r expected %r" % (got[:6], exp[:6]))


def _bed_path(tmp, col, suffix):
    return os.path.join(tmp, "f%d%s" % (col.evaluations, suffix))


def ev_bed_read(col, case, tmp):
    import bionumpy as bnp
    rows = case["rows"]  # [[start_text, stop_text], ...]
    col.case(case, contract="read:int-column")
    p = _bed_path(tmp, col, ".bed")
    with open(p, "w") as f:
        for i, (s, e) in enumerate(rows):
            f.write("c%d\t%s\t%s\n" % (i, s, e))
    signed = ["signed" if any(r[j][:1] in "+-" for r in rows) else "unsigned-digit-matrix" for j in (0, 1)]

    def rd():
        fh = bnp.open(p)
        try:
            d = fh.read()
            return d.start.tolist(), d.stop.tolist()
        finally:
            fh.close()
    got = col.guarded(rd, "bed_read:int-column:" + "/".join(sorted(set(signed))), case)
    if got is None:
        return
    for j, name in ((0, "start"), (1, "stop")):
        exp = [int(r[j]) for r in rows]
        if len(got[j]) != len(exp):
            col.fail("bed_read:int-column:row-count", case, "got %r" % (got[j],))
            continue
        for r, g, e in zip(rows, got[j], exp):
            if g != e:
                col.fail("bed_read:int-column:%s:wrong-value:%s" % (signed[j], text_variant(r[j])), case,
                         "column %s text %r parsed as %r" % (name, r[j], g))


def ev_bed_write(col, case, tmp):
    import numpy as np
    import bionumpy as bnp
    from bionumpy.datatypes import Interval
    starts, stops = case["starts"], case["stops"]
    col.case(case, contract="write:int-column")
    p = _bed_path(tmp, col, ".bed")
    names = ["c%d" % i for i in range(len(starts))]

    def wr():
        iv = Interval(names, np.array(starts, dtype=np.int64), np.array(stops, dtype=np.int64))
        with bnp.open(p, "w") as f:
            f.write(iv)
        return open(p).read()
    got = col.guarded(wr, "bed_write:int-column", case)
    if got is None:
        return
    lines = got.split("\n")
    if not col.check(got.endswith("\n") and len(lines) == len(starts) + 1, "bed_write:line-count", case, repr(got[:200])):
        return
    for n, s, e, line in zip(names, starts, stops, lines):
        toks = line.split("\t")
        if len(toks) != 3 or toks[0] != n:
            col.fail("bed_write:line-structure", case, "line %r" % line)
            continue
        for v, g in ((s, toks[1]), (e, toks[2])):
            if g != str(v):
                col.fail("bed_write:int-column:" + fmt_class(v, g), case, "value %d written as %r" % (v, g))


def ev_bed6(col, case, tmp):
    """Optional[int] column (score) read and written, all values present"""
    import numpy as np
    import bionumpy as bnp
    from bionumpy.io.delimited_buffers import Bed6Buffer
    texts = case["scores"]
    col.case(case, contract="read+write:optional-int-column")
    p = _bed_path(tmp, col, ".bed")
    with open(p, "w") as f:
        for i, t in enumerate(texts):
            f.write("c%d\t%d\t%d\tn%d\t%s\t%s\n" % (i, i, i + 5, i, t, "+-"[i % 2]))

    def rd():
        fh = bnp.open(p, buffer_type=Bed6Buffer)
        try:
            d = fh.read()
            return d, d.score.tolist()
        finally:
            fh.close()
    r = col.guarded(rd, "bed6_read:optional-int", case)
    if r is None:
        return
    d, got = r
    exp = [int(t) for t in texts]
    if got != exp:
        bad = [(t, g) for t, g, e in zip(texts, got, exp) if g != e]
        col.fail("bed6_read:optional-int:wrong-value:%s" % (text_variant(bad[0][0]) if bad else "row-count"), case, "got %r expected %r" % (got, exp))
        return
    p2 = _bed_path(tmp, col, ".out.bed")

    def wr():
        from bionumpy.datatypes import Bed6
        n = len(exp)
        fresh = Bed6(["c%d" % i for i in range(n)], np.arange(n), np.arange(n) + 5, ["n%d" % i for i in range(n)],
                     np.array(exp, dtype=np.int64), ["+-"[i % 2] for i in range(n)])
        with bnp.open(p2, "w", buffer_type=Bed6Buffer) as f:
            f.write(fresh)
        return open(p2).read()
    out = col.guarded(wr, "bed6_write:optional-int", case)
    if out is None:
        return
    toks = [l.split("\t")[4] if l.count("\t") == 5 else None for l in out.split("\n")[:-1]]
    if len(toks) != len(exp) or None in toks:
        col.fail("bed6_write:line-structure", case, repr(out[:200]))
        return
    for v, g in zip(exp, toks):
        if g != str(v):
            col.fail("bed6_write:optional-int:" + fmt_class(v, g), case, "value %d written as %r" % (v, g))


def ev_bed12(col, case, tmp):
    """List[int] columns read (split) and written (join)"""
    import bionumpy as bnp
    from bionumpy.io.delimited_buffers import Bed12Buffer
    sizes, starts, trailing = case["sizes"], case["starts"], case["trailing"]
    col.case(case, contract="read+write:int-list-column")
    p = _bed_path(tmp, col, ".bed")
    tc = "," if trailing else ""
    with open(p, "w") as f:
        for i, (a, b) in enumerate(zip(sizes, starts)):
            f.write("c%d\t%d\t%d\tn%d\t%d\t+\t1\t2\t0,0,0\t%d\t%s\t%s\n" % (
                i, i, i + 9, i, i, len(a), ",".join(str(v) for v in a) + tc, ",".join(str(v) for v in b) + tc))
    tag = ":trailing-comma" if trailing else ""

    def rd():
        fh = bnp.open(p, buffer_type=Bed12Buffer)
        try:
            d = fh.read()
            return d, [list(map(int, r)) for r in d.block_sizes.tolist()], [list(map(int, r)) for r in d.block_starts.tolist()], d.block_count.tolist()
        finally:
            fh.close()
    r = col.guarded(rd, "bed12_read:int-list" + tag, case)
    if r is None:
        return
    _, gs, gb, gc = r
    for name, g, e in (("block_sizes", gs, sizes), ("block_starts", gb, starts)):
        if g != e:
            flat_same = [v for r_ in g for v in r_] == [v for r_ in e for v in r_]
            sub = "rows-shifted(row-lengths-wrong)" if flat_same else ("row-count" if len(g) != len(e) else "wrong-elements")
            col.fail("bed12_read:int-list%s:%s" % (tag, sub), case, "%s got %r expected %r" % (name, g[:5], e[:5]))
    col.check(gc == [len(a) for a in sizes], "bed12_read:int-column:block_count", case, "got %r" % (gc,))
    if trailing:
        return
    p2 = _bed_path(tmp, col, ".out.bed")

    def wr():
        import numpy as np
        from npstructures import RaggedArray
        from bionumpy.datatypes import Bed12
        n = len(sizes)
        ra = lambda rows: RaggedArray(np.array([v for r_ in rows for v in r_], dtype=np.int64), [len(r_) for r_ in rows])
        fresh = Bed12(["c%d" % i for i in range(n)], np.arange(n), np.arange(n) + 9, ["n%d" % i for i in range(n)], np.arange(n),
                      ["+"] * n, np.full(n, 1), np.full(n, 2), ["0,0,0"] * n, np.array([len(a) for a in sizes]), ra(sizes), ra(starts))
        with bnp.open(p2, "w", buffer_type=Bed12Buffer) as f:
            f.write(fresh)
        return open(p2).read()
    out = col.guarded(wr, "bed12_write:int-list", case)
    if out is None:
        return
    lines = out.split("\n")[:-1]
    if len(lines) != len(sizes) or any(l.count("\t") != 11 for l in lines):
        col.fail("bed12_write:line-structure", case, repr(out[:300]))
        return
    for l, a, b in zip(lines, sizes, starts):
        toks = l.split("\t")
        for g, e in ((toks[10], a), (toks[11], b)):
            # a trailing comma is permitted by the BED12 format; the elements must be the same
            parts = g.split(",")
            if parts and parts[-1] == "":
                parts = parts[:-1]
            if parts != [str(v) for v in e]:
                col.fail("bed12_write:int-list:wrong-join", case, "list %r written as %r" % (e, g))


def ev_matrix_csv(col, case, tmp):
    import numpy as np
    from bionumpy.io.matrix_dump import matrix_to_csv
    m, header, sep = case["m"], case["header"], case["sep"]
    col.case(case, contract="matrix_to_csv")
    got = col.guarded(lambda: matrix_to_csv(np.array(m, dtype=np.int64), header=header, sep=sep).to_string(), "matrix_to_csv", case)
    if got is None:
        return
    exp = (sep.join(header) + "\n" if header is not None else "") + "".join(sep.join(str(v) for v in r) + "\n" for r in m)
    if got != exp:
        sub = "structure"
        gl, el = got.split("\n"), exp.split("\n")
        if len(gl) == len(el):
            for g, e in zip(gl, el):
                gt, et = g.split(sep), e.split(sep)
                if len(gt) == len(et):
                    for a, b in zip(gt, et):
                        if a != b and header is not None and e == sep.join(header):
                            sub = "header"
                        elif a != b:
                            sub = "element:" + fmt_class(int(b), a)
                            break
        col.fail("matrix_to_csv:" + sub, case, "got %r expected %r" % (got[:200], exp[:200]))


def ev_matrix_parse(col, case, tmp):
    from bionumpy.io.matrix_dump import parse_matrix
    rows, typ, rownames = case["rows"], case["type"], case["rownames"]
    col.case(case, contract="parse_matrix:" + typ)
    ncol = len(rows[0])
    hdr = (["r"] if rownames else []) + ["h%d" % j for j in range(ncol)]
    text = "\t".join(hdr) + "\n" + "".join("\t".join((["row%d" % i] if rownames else []) + list(r)) + "\n" for i, r in enumerate(rows))
    kw = {} if rownames else {"rowname_type": None}
    got = col.guarded(lambda: parse_matrix(text, field_type=int if typ == "int" else float, **kw).data.tolist(), "parse_matrix:" + typ, case)
    if got is None:
        return
    if typ == "int":
        exp = [[int(t) for t in r] for r in rows]
        if got != exp:
            col.fail("parse_matrix:int:wrong-value", case, "got %r expected %r" % (got, exp))
    else:
        exp = [[float(t) for t in r] for r in rows]
        if [len(r) for r in got] != [len(r) for r in exp]:
            col.fail("parse_matrix:float:shape", case, "got %r" % (got,))
            return
        for r, gr, er in zip(rows, got, exp):
            for t, g, e in zip(r, gr, er):
                if not (g == g and ulps(g, e) <= ULP_TOL):
                    col.fail("parse_matrix:float:" + float_class(t, g, e), case, "text %r parsed as %r expected %r" % (t, g, e))


def _stf_single(t):
    from bionumpy.io.strops import str_to_float
    from bionumpy.encoded_array import as_encoded_array
    key = ("f", t)
    if key not in _single:
        try:
            _single[key] = _bits(float(str_to_float(as_encoded_array([t]))[0]))
        except Exception:
            _single[key] = None
    return _single[key]


def ev_fparse(col, case, tmp):
    from bionumpy.io.strops import str_to_float
    from bionumpy.encoded_array import as_encoded_array
    texts = case["texts"]
    col.case(case, contract="str_to_float")
    enc = as_encoded_array(list(texts))
    got = col.guarded(lambda: str_to_float(enc).tolist(), "str_to_float", case)
    if got is None:
        return
    if not col.check(len(got) == len(texts), "str_to_float:row-count", case, "got %d" % len(got)):
        return
    for t, g in zip(texts, got):
        e = float(t)
        if not (g == g and abs(g) != float("inf") and ulps(g, e) <= ULP_TOL):
            col.fail("str_to_float:" + float_class(t, g, e), case, "text %r parsed as %r, float() gives %r (%s ulp)" % (
                t, g, e, ulps(g, e) if g == g else "nan"))
    got2 = col.guarded(lambda: str_to_float(enc).tolist(), "str_to_float:second-parse", case)
    if got2 is not None and [_bits(x) for x in got2] != [_bits(x) for x in got]:
        col.fail("str_to_float:second-parse-differs(input-modified)", case, "first %r second %r" % (got[:5], got2[:5]))
    if case.get("indep") and len(texts) > 1:
        for t, g in zip(texts, got):
            s = _stf_single(t)
            if s is not None and s != _bits(g):
                col.fail("str_to_float:row-depends-on-batch", case, "text %r alone -> %r, in this batch -> %r" % (
                    t, struct.unpack("<d", struct.pack("<q", s))[0], g))


def _plain_short(s):
    body = s.lstrip("-")
    if "e" in body or "n" in body or "i" in body:
        return False
    digits = body.replace(".", "").lstrip("0")
    return len(digits) <= 15 and len(body.replace(".", "")) <= 22


def ev_froundtrip(col, case, tmp):
    import numpy as np
    from bionumpy.io.strops import str_to_float, float_to_strings
    ds = [float.fromhex(h) for h in case["hex"]]
    col.case(case, contract="float_to_strings;str_to_float")
    arr = np.array(ds, dtype=float)
    txt = col.guarded(lambda: float_to_strings(arr), "float_to_strings", case)
    if txt is None:
        return
    rows = _rows(txt)
    if not col.check(len(rows) == len(ds), "float_to_strings:row-count", case, "got %d" % len(rows)):
        return
    for d, s in zip(ds, rows):
        try:
            ok = _bits(float(s)) == _bits(d) or (d == 0 and float(s) == 0)
        except ValueError:
            ok = False
        if not ok:
            col.fail("float_to_strings:text-does-not-denote-the-double", case, "%r formatted as %r" % (d, s))
    back = col.guarded(lambda: str_to_float(txt).tolist(), "float_roundtrip:parse", case)
    if back is None:
        return
    for d, s, b in zip(ds, rows, back):
        if b != d:
            if b == b and ulps(b, d) <= ULP_TOL:
                sub = "plain-decimal<=15-digits" if _plain_short(s) else "within-%dulp:17-digit-or-scientific-text" % ULP_TOL
            else:
                sub = "far-off:" + float_class(s, b, d)
            col.fail("float_roundtrip:not-identity:" + sub, case, "%r -> %r -> %r" % (d, s, b))


def ev_bdg(col, case, tmp):
    """float column of a bedGraph file read, then written and re-read as text"""
    import bionumpy as bnp
    texts = case["values"]
    col.case(case, contract="read+write:float-column")
    p = _bed_path(tmp, col, ".bdg")
    with open(p, "w") as f:
        for i, t in enumerate(texts):
            f.write("c%d\t%d\t%d\t%s\n" % (i, i, 10 ** (i % 19), t))

    def rd():
        fh = bnp.open(p)
        try:
            d = fh.read()
            return d, d.value.tolist(), d.stop.tolist()
        finally:
            fh.close()
    r = col.guarded(rd, "bdg_read:float-column", case)
    if r is None:
        return
    d, got, stops = r
    if not col.check(len(got) == len(texts), "bdg_read:row-count", case, "got %d" % len(got)):
        return
    col.check(stops == [10 ** (i % 19) for i in range(len(texts))], "bdg_read:int-column:wrong-value", case, "stop column %r" % (stops,))
    for t, g in zip(texts, got):
        e = float(t)
        if not (g == g and ulps(g, e) <= ULP_TOL):
            col.fail("bdg_read:float-column:" + float_class(t, g, e), case, "text %r parsed as %r expected %r" % (t, g, e))
    p2 = _bed_path(tmp, col, ".out.bdg")

    got = [float(t) for t in texts]   # the doubles to be written (a fresh object, so that the values are formatted)

    def wr():
        import numpy as np
        from bionumpy.datatypes import BedGraph
        n = len(got)
        fresh = BedGraph(["c%d" % i for i in range(n)], np.arange(n), np.arange(n) + 3, np.array(got, dtype=float))
        with bnp.open(p2, "w") as f:
            f.write(fresh)
        return open(p2).read()
    out = col.guarded(wr, "bdg_write:float-column", case)
    if out is None:
        return
    lines = out.split("\n")[:-1]
    if len(lines) != len(texts) or any(l.count("\t") != 3 for l in lines):
        col.fail("bdg_write:line-structure", case, repr(out[:200]))
        return
    for l, g in zip(lines, got):
        tok = l.split("\t")[3]
        try:
            ok = float(tok) == g
        except ValueError:
            ok = False
        if not ok:
            col.fail("bdg_write:float-column:text-does-not-denote-the-double", case, "%r written as %r" % (g, tok))


def ev_reject(col, case, tmp):
    from bionumpy.io.strops import str_to_int, str_to_float
    from bionumpy.encoded_array import as_encoded_array
    fn, text = case["fn"], case["text"]
    col.case(case, contract="reject-non-numeric:" + fn)
    f = str_to_int if fn == "int" else str_to_float
    try:
        r = f(as_encoded_array([text])).tolist()
    except Exception:
        return
    ch = case["ch"]
    cls = "P-Y(digit+32)" if "P" <= ch <= "Y" else "other"
    col.fail("str_to_%s:non-digit-accepted-silently:%s" % (fn, cls), case, "text %r parsed as %r without an error" % (text, r))


EVAL = {"fmt": ev_fmt, "int_to_str": ev_int_to_str, "parse": ev_parse, "joinlists": ev_joinlists, "bed_read": ev_bed_read,
        "bed_write": ev_bed_write, "bed6": ev_bed6, "bed12": ev_bed12, "matrix_csv": ev_matrix_csv, "matrix_parse": ev_matrix_parse,
        "fparse": ev_fparse, "froundtrip": ev_froundtrip, "bdg": ev_bdg, "reject": ev_reject}


# ----------------------------------------------------------------------------------------------- scopes

def special_ints(kset=(-2, -1, 0, 1, 2), extra=True):
    vals = {0}
    for d in range(0, 19):
        for k in kset:
            v = 10 ** d + k
            if v >= 0:
                vals.add(v)
                vals.add(-v)
    for k in range(0, 3):
        vals.add(I64MAX - k)
        vals.add(I64MIN + k)
    if extra:
        for b in (7, 8, 15, 16, 31, 32, 53, 62):
            for k in (-1, 0, 1):
                vals.add(2 ** b + k)
                vals.add(-(2 ** b + k))
        for d in range(1, 19):
            vals.add(5 * 10 ** (d - 1))
            vals.add(int("1" * d))
            vals.add(-int("9" * d))
        vals.add(9 * 10 ** 18)
    return sorted(vals)


def reduced_ints():
    vals = {0, I64MAX, I64MIN, I64MIN + 1}
    for d in range(1, 19):
        for v in (10 ** d - 1, 10 ** d):
            vals.add(v)
            vals.add(-v)
    vals.add(1)
    vals.add(-1)
    return sorted(vals)


def int_text_variants(v, thorough):
    sign = "-" if v < 0 else ""
    digs = str(abs(v))
    out = [str(v)]
    if v >= 0:
        out.append("+" + digs)
        out.append("+0" + digs)
    out.append(sign + "0" + digs)
    out.append(sign + "00" + digs)
    for w in ((19, 20, 25, 40) if thorough else (19, 20)):
        if len(digs) < w:
            out.append(sign + digs.zfill(w))
    if v == 0:
        out += ["-0", "-00"]
    return out


def sub_batches(base):
    """every non-empty ordered selection without repetition (every permutation of every sub-batch)"""
    n = len(base)
    for r in range(1, n + 1):
        for idx in itertools.permutations(range(n), r):
            yield [base[i] for i in idx]


def rand_int(rng):
    w = rng.randint(1, 19)
    v = rng.randint(10 ** (w - 1) if w > 1 else 0, 10 ** w - 1)
    v = min(v, I64MAX)
    return -v if rng.random() < 0.5 else v


def int_base_batches(thorough):
    bases = [
        [7, -42, 10 ** 9, -(10 ** 18)],
        [0, 10, -100, 1000],
        [-1, 99, 10 ** 10 - 1, I64MAX],
        [I64MIN + 1, 5, -50, 500],
        [10 ** 18, 9, 10 ** 17, -9],
        [10 ** 14 - 1, 10 ** 14, -(10 ** 14), 1],
        [123, 123, -123, 0],
        [10 ** 5, 10 ** 4 - 1, -(10 ** 5), -(10 ** 4 - 1)],
        [10 ** 12 + 1, -3, 10 ** 3 - 2, -(10 ** 12) + 1],
        [I64MAX - 1, -(10 ** 2), 10 ** 1, 0],
        [10 ** 15 - 1, 3, -(10 ** 16 - 1), 10 ** 16],      # contains values of the log10-rounding zone
        [I64MIN, 1, -1, 10 ** 18],
    ]
    if thorough:
        bases += [b + [x] for b, x in zip(bases, [-(10 ** 7), 10 ** 18 + 2, -10, 10 ** 13, 0, -(10 ** 9) - 1, 99999, 10 ** 18, 7, 8, -8, 0])]
        bases += [[10 ** (w - 1) * (-1 if w % 2 else 1) for w in ws] for ws in
                  ((1, 19, 2, 18, 3), (19, 19, 1, 1, 10), (5, 6, 7, 8, 9), (11, 13, 17, 19, 2))]
    return bases


def float_digit_strings(thorough, rng):
    out = []
    for n in range(1, 18):
        pats = ["9" * n, "12345678912345678"[:n], ("1" + "0" * (n - 2) + "1") if n >= 2 else "1", ("7" + "0" * (n - 2) + "3") if n >= 2 else "5"]
        if thorough:
            for _ in range(3):
                pats.append(str(rng.randint(1, 9)) + "".join(rng.choice("0123456789") for _ in range(max(0, n - 2))) + (str(rng.randint(1, 9)) if n >= 2 else ""))
        seen = []
        for p in pats:
            if p not in seen:
                seen.append(p)
        out.append((n, seen))
    return out


E_QUICK = [-300, -299, -200, -101, -100, -99, -23, -22, -10, -9, -5, -1, 0, 1, 2, 5, 9, 10, 15, 16, 22, 23, 99, 100, 101, 200, 299, 300]


def exp_forms(e):
    out = [str(e)]
    if e >= 0:
        out.append("+%d" % e)
    if abs(e) < 10:
        out.append("%s%02d" % ("-" if e < 0 else "+", abs(e)))   # the form Python's repr uses: 1e-05, 1e+05 needs 2 digits
    return out


def float_texts(thorough, rng):
    """yield (group, text); every text denotes a value with magnitude in [1e-300, 1e301) or zero"""
    for n, pats in float_digit_strings(thorough, rng):
        for pi, digs in enumerate(pats):
            for sign in ("", "-"):
                # decimal forms: the point at every position
                for p in range(0, n + 1):
                    if p == 0:
                        yield "dec", sign + "." + digs
                        yield "dec", sign + "0." + digs
                    elif p == n:
                        yield "dec", sign + digs
                        yield "dec", sign + digs + "."
                        yield "dec", sign + digs + ".0"
                    else:
                        yield "dec", sign + digs[:p] + "." + digs[p:]
                for z in range(1, 6):
                    if z + n <= 22:
                        yield "dec", sign + "0." + "0" * z + digs
                for z in range(1, 4):
                    yield "dec", sign + digs + "0" * z
                yield "dec", sign + "00" + digs
                # scientific forms
                full = thorough and pi < 2 and n in (1, 2, 8, 15, 16, 17)
                es = range(-300, 301) if full else E_QUICK
                mants = [(digs[0] + ("." + digs[1:] if n > 1 else ""), 0)]
                mants.append((digs, n - 1))
                if n >= 3:
                    mants.append((digs[:2] + "." + digs[2:], 1))
                    mants.append(("0." + digs, -1))
                for m, shift in mants:
                    for e in es:
                        if not (-300 <= e + shift <= 300):
                            continue
                        forms = exp_forms(e) if (not full or e in E_QUICK) else [str(e)]
                        for ef in forms:
                            yield "sci", sign + m + "e" + ef
    for t in ("0", "-0", "0.0", "-0.0", "0.000", "0e0", "0.0e5", "0e-5", "00", "0.", ".0", "1", "-1", "10", "1.0", "1e0", "1e1", "1e-1"):
        yield "dec" if "e" not in t else "sci", t


def float_base_batches():
    return [
        ["1.5", "-22", "3e5", "-4.25e-7"],
        [".5", "123456789.123456789", "1e300", "7"],
        ["-0.001", "1e-300", "99999999999999999", "2.5"],
        ["12", "3.", "-4e+10", "5.0e-10"],
        ["1e5", "2e-5", "-3e0", "4e22"],
        ["0.1", "0.25", "-100.125", "17.000001"],
        ["1234567890123456.7", "1.2345678901234567e-100", "-8", "0.5"],
        ["0", "-0.0", "1e0", "9.9e-1"],
        ["6.02214076e23", "-1.602176634e-19", "299792458", "3.14159"],
        ["-.25", "1e+05", "1e-05", "100"],
    ]


def roundtrip_doubles(thorough, rng):
    """(group, list of doubles) - finite, magnitude 0 or in [1e-300, 1e300]"""
    short = []
    for k in list(range(0, 130)) + [999, 1000, 1001, 12345, 99999, 123456789, 10 ** 14 - 1, 10 ** 15 - 1]:
        for j in (0, 1, 2, 3, 4):
            if len(str(k)) + 0 <= 15:
                short.append(k / 10 ** j)
    short = sorted(set(short + [-x for x in short]))
    yield "short-decimal", short
    yield "powers-of-two", [s * 2.0 ** k for k in range(-996, 997, 1 if thorough else 7) for s in (1, -1)]
    yield "powers-of-ten", [s * float("1e%d" % k) for k in range(-300, 301) for s in (1, -1)]
    nb = []
    for x in (1.0, 2.0, 10.0, 0.1, 1e16, 1e22, 1e23, 1e-5, 1e-4, 1e15, 9007199254740992.0, 0.3, 1 / 3, 2 / 3, 100.0, 1e300, 1e-300):
        y = x
        for _ in range(4):
            y = math.nextafter(y, math.inf)
            nb.append(y)
        y = x
        for _ in range(4):
            y = math.nextafter(y, 0.0)
            nb.append(y)
    yield "neighbours", nb
    n = 20000 if thorough else 2000
    rnd = []
    for _ in range(n):
        m = rng.random() + 1.0
        e = rng.randint(-996, 995)
        rnd.append((m * 2.0 ** e) * (1 if rng.random() < 0.5 else -1))
    yield "random-17-digit", rnd
    yield "random-short", [round(rng.uniform(-1e6, 1e6), rng.randint(0, 6)) for _ in range(n)]
    yield "integers-as-doubles", [float(v) for v in special_ints(extra=False) if abs(v) < 2 ** 53]


# ----------------------------------------------------------------------------------------------- driver

def run(tier="quick", seed=0):
    thorough = tier != "quick"
    col = Collector(PID, tier, seed,
                    "exhaustive over the special integers (0, +-(10^d+k), int64 extremes, 2^b+-1) as singletons, every ordered pair of a "
                    "reduced set, whole-set batches in several orders, every permutation of every sub-batch of small base batches "
                    "(formatting, parsing with sign/'+'/leading zeros, through strops and through BED/BED6/BED12/bedGraph/matrix "
                    "files); float texts: 1..17 significant digits x digit patterns x sign x every point position x exponent grid; "
                    "doubles for the round trip; seeded random values above the bounds. distinct = distinct (operation, input); "
                    "non-trivial = every case (each converts at least one number)")
    col.bounds = {"integers": "0, +-(10^d+k) d=0..18 k=-2..2, int64 min/max +-0..2, +-(2^b+k) b in {7,8,15,16,31,32,53,62}, 5*10^d, 1..1, -9..9",
                  "batch_sizes": "1, 2 (all ordered pairs of %d values), 4%s (all ordered sub-batches), whole set (~%d)" % (
                      len(reduced_ints()) if not thorough else len(special_ints((-1, 0, 1), False)), "/5" if thorough else "", len(special_ints())),
                  "int_text_variants": "canonical, '+', 1-2 leading zeros, zero-padded to 19/20%s, -0" % ("/25/40" if thorough else ""),
                  "float_sig_digits": "1..17", "float_exponents": "-300..300 (%s)" % ("all for 12 digit strings, grid of 28 otherwise" if thorough else "grid of 28"),
                  "float_tolerance_ulp": ULP_TOL, "random_batches": 5000 if thorough else 300, "list_rows": "1..3 rows x 0..3 elements",
                  "seed": seed}
    _single.clear()
    rng = col.rng
    V = special_ints()
    R = reduced_ints() if not thorough else special_ints((-1, 0, 1), False)
    stop = [False]

    with TmpDir() as tmp:
        def go(case):
            if stop[0]:
                return
            EVAL[case["k"]](col, case, tmp)
            if col.evaluations % 64 == 0 and col.out_of_time():
                stop[0] = True

        # ---- formatting integers
        for v in V:
            go({"k": "fmt", "vals": [v]})
            if v >= 0:
                go({"k": "int_to_str", "v": v})
        for u in R:
            for v in R:
                go({"k": "fmt", "vals": [u, v]})
        whole = [V, V[::-1], [v for v in V if v >= 0], [v for v in V if v < 0],
                 [10 ** (w - 1) for w in range(1, 20)], [10 ** (w - 1) for w in range(19, 0, -1)],
                 [(-1) ** w * 10 ** (w - 1) for w in range(1, 20)], [-(10 ** w - 1) for w in range(1, 19)],
                 [10 ** w - 1 for w in range(1, 15)], [5] * 7, [-(10 ** 18)] * 3, [0, 0]]
        for _ in range(3):
            s = list(V)
            rng.shuffle(s)
            whole.append(s)
        for b in whole:
            go({"k": "fmt", "vals": b})
        for base in int_base_batches(thorough):
            for sb in sub_batches(base):
                go({"k": "fmt", "vals": sb})

        # ---- parsing integers
        for v in V:
            for t in int_text_variants(v, thorough):
                go({"k": "parse", "texts": [t], "path": "ragged"})
            go({"k": "parse", "texts": [str(v)], "path": "with_missing"})
            if v >= 0:
                go({"k": "parse", "texts": [str(v)], "path": "1d"})
        if thorough:
            T = [str(v) for v in R]
        else:   # one text of every width 1..19 and of every signed width 2..19, plus the extremes
            T = [str(10 ** (w - 1)) for w in range(1, 20)] + [str(-(10 ** w - 1)) for w in range(1, 19)] + ["0", str(I64MAX), str(I64MIN)]
        T += ["+" + str(10 ** d) for d in (0, 5, 18)] + ["007", "-007", "+0", "-0", "0000000000000000000", "-00000000000000000009", str(I64MAX).zfill(25)]
        for a in T:
            for b in T:
                go({"k": "parse", "texts": [a, b], "path": "ragged"})
        wholeT = [[str(v) for v in b] for b in whole]
        wholeT.append([t for v in V for t in int_text_variants(v, thorough)])
        wholeT.append([t for v in V[::-1] for t in int_text_variants(v, thorough)[::-1]])
        for b in wholeT:
            go({"k": "parse", "texts": b, "path": "ragged"})
            go({"k": "parse", "texts": b, "path": "with_missing"})
        for w in (1, 2, 5, 18, 19, 20, 25):
            grp = [str(v).zfill(w) for v in V if v >= 0 and len(str(v)) <= w]
            go({"k": "parse", "texts": grp, "path": "2d"})
            go({"k": "parse", "texts": grp[::-1], "path": "2d"})
            for t in grp[:: max(1, len(grp) // 12)]:
                go({"k": "parse", "texts": [t], "path": "2d"})
        for base in int_base_batches(thorough):
            tb = [str(v) for v in base]
            tb[1] = ("+" + tb[1]) if base[1] >= 0 else tb[1][0] + "00" + tb[1][1:]
            tb[2] = ("0" + tb[2]) if base[2] >= 0 else tb[2]
            for sb in sub_batches(tb):
                go({"k": "parse", "texts": sb, "path": "ragged"})

        # ---- lists of integers joined
        elems = [0, 7, -7, 10, 99, -100, 10 ** 9, -(10 ** 18), 10 ** 18, I64MAX, 10 ** 14 - 1]
        rowsets = []
        for a in elems:
            rowsets.append([[a]])
            for b in elems[:: (1 if thorough else 2)]:
                rowsets.append([[a, b]])
                rowsets.append([[a], [b]])
                rowsets.append([[a, b], [b]])
                rowsets.append([[a], [b, a, b]])
        rowsets += [[[1, 20], [300]], [[1, 20, 300], [4], [50, 6]], [[-1, 0, 10 ** 18], [10 ** 18], [0]], [[0], [0], [0]],
                    [list(range(0, 25))], [[10 ** w for w in range(0, 19)], [-(10 ** w) for w in range(18, -1, -1)]],
                    [[1, 20], [], [300]], [[], [5]], [[5], []]]
        for rows in rowsets:
            for sep in (",", ";"):
                for kl in (False, True):
                    go({"k": "joinlists", "rows": rows, "sep": sep, "keep_last": kl})
        for rows in ([[0, 1, 1], [1]], [[1], [0, 0, 1, 0]], [[0], [1], [1, 1]], [[1, 0, 1, 0, 1, 1]]):
            go({"k": "joinlists", "rows": rows, "sep": "", "keep_last": False})

        # ---- files: integer columns
        NN = [v for v in R if v >= 0]
        for i, u in enumerate(NN):
            for j, v in enumerate(NN):
                if thorough or (i + j) % 3 == 0 or u in (0, I64MAX) or v in (0, I64MAX):
                    go({"k": "bed_read", "rows": [[str(u), str(v)], [str(v), str(u)]]})
        Rq = reduced_ints()
        for i, u in enumerate(Rq):
            for j, v in enumerate(Rq):
                if thorough or (i + 2 * j) % 5 == 0:
                    go({"k": "bed_write", "starts": [u, v], "stops": [v, u]})
        for b in whole:
            nn = [abs(v) if v != I64MIN else 0 for v in b]
            go({"k": "bed_read", "rows": [[str(v), str(w)] for v, w in zip(nn, nn[::-1])]})
            go({"k": "bed_read", "rows": [[str(v), str(w)] for v, w in zip(b, nn)]})
            go({"k": "bed_read", "rows": [[("+" if v >= 0 and i % 2 else "") + str(v), str(w).zfill(3)] for i, (v, w) in enumerate(zip(b, nn))]})
            go({"k": "bed_write", "starts": b, "stops": b[::-1]})
            go({"k": "bed6", "scores": [str(v) for v in b]})
        for v in V:
            go({"k": "bed_read", "rows": [[str(abs(v)) if v != I64MIN else "0", str(v)]]})
            go({"k": "bed_write", "starts": [v], "stops": [-v if v != I64MIN else 0]})
            if thorough:
                go({"k": "bed6", "scores": [str(v)]})
        for base in int_base_batches(False)[: (12 if thorough else 4)]:
            for sb in sub_batches(base):
                go({"k": "bed_read", "rows": [[str(abs(v)) if v != I64MIN else "1", str(v)] for v in sb]})
                go({"k": "bed_write", "starts": sb, "stops": sb[::-1]})

        # ---- files: lists of integers (BED12), matrices
        lst = [[1], [20, 3], [300, 4, 50], [10 ** 9, 0], [0], [7, 10 ** 18, 12], [99, 100, 101, 102]]
        for trailing in (False, True):
            for a in lst:
                go({"k": "bed12", "sizes": [a], "starts": [a[::-1]], "trailing": trailing})
                for b in lst:
                    go({"k": "bed12", "sizes": [a, b], "starts": [[0] * len(a), list(range(len(b)))], "trailing": trailing})
                    if thorough:
                        for c in lst[:4]:
                            go({"k": "bed12", "sizes": [a, b, c], "starts": [a, b, c], "trailing": trailing})
            go({"k": "bed12", "sizes": lst, "starts": lst[::-1][:0] + [list(range(len(x))) for x in lst], "trailing": trailing})
        mats = [[[1]], [[-1, 20]], [[1], [-20]], [[1, 20], [-3, 400]], [[0, 0, 0], [10 ** 18, -(10 ** 18), I64MAX]],
                [[10 ** w for w in range(0, 6)], [-(10 ** w) + 1 for w in range(6, 12)]], [[10 ** 14 - 1, 10 ** 14], [10 ** 3 - 1, 10 ** 3]]]
        for m in mats:
            for sep in (",", "\t"):
                go({"k": "matrix_csv", "m": m, "header": None, "sep": sep})
                go({"k": "matrix_csv", "m": m, "header": ["col%d" % (10 ** j) for j in range(len(m[0]))], "sep": sep})
            for rn in (True, False):
                go({"k": "matrix_parse", "rows": [[str(v) for v in r] for r in m], "type": "int", "rownames": rn})
                go({"k": "matrix_parse", "rows": [[str(v) + (".5" if i % 2 else "e-2") for i, v in enumerate(r)] for r in m if all(abs(v) < 10 ** 15 for v in r)] or [["1.5"]],
                    "type": "float", "rownames": rn})

        # ---- rejection of bytes that are not part of a number
        for c in range(33, 127):
            ch = chr(c)
            if ch not in "0123456789+-":
                go({"k": "reject", "fn": "int", "text": "1" + ch + "2", "ch": ch})
            if ch not in "0123456789+-.e":
                go({"k": "reject", "fn": "float", "text": "1" + ch + "2", "ch": ch})

        # ---- float texts
        texts = {"dec": [], "sci": []}
        seen = set()
        for g, t in float_texts(thorough, rng):
            if t not in seen:
                seen.add(t)
                texts[g].append(t)
        B = 250
        for g in ("dec", "sci"):
            L = texts[g]
            for i in range(0, len(L), B):
                go({"k": "fparse", "texts": L[i:i + B]})
        mixed = texts["dec"] + texts["sci"]
        rng.shuffle(mixed)
        nmix = min(len(mixed), 50000) if thorough else 2400
        for i in range(0, nmix, 40):
            go({"k": "fparse", "texts": mixed[i:i + 40], "indep": True})
        # singletons and pairs: every decimal form for the boundary digit counts, a sample of the rest
        single_set = [t for t in texts["dec"] if len(t.replace("-", "").replace(".", "").strip("0")) in (1, 2, 16, 17)]
        if not thorough:
            single_set = single_set[::7]
        single_set += rng.sample(texts["sci"], min(len(texts["sci"]), 6000 if thorough else 400))
        for t in single_set:
            go({"k": "fparse", "texts": [t]})
        pair_set = ["5", "-5", "1.5", "-.5", "123.", "1e5", "-2.5e-5", "12345678.12345678", "1.2345678901234567e+300", "7e-300", "0.0001", "100000000000000000000"]
        for a in pair_set:
            for b in pair_set:
                go({"k": "fparse", "texts": [a, b], "indep": True})
        for base in float_base_batches():
            for sb in sub_batches(base):
                go({"k": "fparse", "texts": sb, "indep": True})
        for vals in (["1.5", "-2e-5", "7", "0.001", "1e300"], ["3"], ["-0.5", "1e-300"], texts["dec"][5:400:9], texts["sci"][3:4000:57]):
            go({"k": "bdg", "values": vals})
        for i in range(0, len(mixed), 997 if thorough else 4999):
            go({"k": "bdg", "values": mixed[i:i + 30]})

        # ---- float round trip
        for g, ds in roundtrip_doubles(thorough, rng):
            for d in ds[:: max(1, len(ds) // (200 if thorough else 40))]:
                go({"k": "froundtrip", "group": g, "hex": [d.hex()]})
            for i in range(0, len(ds), 200):
                go({"k": "froundtrip", "group": g, "hex": [d.hex() for d in ds[i:i + 200]]})

        # ---- sampling above the bounds (seeded)
        for _ in range(5000 if thorough else 300):
            n = rng.randint(1, 40)
            b = [rand_int(rng) for _ in range(n)]
            go({"k": "fmt", "vals": b})
            tb = [rng.choice(int_text_variants(v, True)) for v in b]
            go({"k": "parse", "texts": tb, "path": "ragged"})
            if _ % 10 == 0:
                go({"k": "bed_write", "starts": b, "stops": b[::-1]})
                go({"k": "bed_read", "rows": [[str(abs(v)), t] for v, t in zip(b, tb)]})
                k = rng.randint(1, 4)
                go({"k": "joinlists", "rows": [b[i:i + k] for i in range(0, len(b), k)], "sep": ",", "keep_last": bool(_ % 20)})
    return col.result()


def replay(case):
    col = Collector(PID, "quick", 0, "replay")
    _single.clear()
    with TmpDir() as tmp:
        EVAL[case["k"]](col, case, tmp)
    if col.failures:
        return False, "; ".join(f["signature"] + ": " + f["message"] for f in col.failures)
    return True, "ok"
